"""C09 — mutexes, conditions, joins and atomics keep their promises.

Decides the ordering/atomicity *shapes* the primitives rest on: check-and-enqueue under one lock,
flag set before the lock is released and re-checked in a loop, blocked threads parked, lock-prefixed
read-modify-write instructions in both code generators, the address-keyed wait table re-hashed
before every use after a collection and visited as a root, and the lock-word protocol's statement
order in pkgs/std/thread.dora.  Mutual exclusion / no lost wake-up over all interleavings is NOT decided.
"""
import cfg
import doraq
import hirq
from callgraph import CallGraph

RT = "dora_runtime::"
WL = RT + "runtime::waitlists::"
LOCK = "lock_api::mutex::Mutex::<R, T>::lock"


def last(p):
    return p.rsplit("::", 1)[-1]


def guard_scope(B, lk):
    g = lk.dest[0]
    drops = {i for i, blk in enumerate(B.blocks) if blk["t"][0] == "drop" and blk["t"][1][0] == g and not blk["c"]}
    after = set()
    for d in drops:
        after |= B.reachable_from_succ(d)
    held = {b for b in B.reachable_from_succ(lk.block, avoid=drops) if B.dominates(lk.block, b)}
    held -= after
    # statements of a block that *ends* in the guard's drop still run under the lock
    for d in drops:
        if B.dominates(lk.block, d) and d not in after:
            held.add(d)
    return held


def rule_r1(chk, c, cg):
    r = chk.rule("C09.R1", "wait-list operations check the predicate and enqueue/dequeue under one lock; the blocking "
                           "flag is set before the lock is released and cleared under the thread's own lock before "
                           "notifying")
    ce = cg.body(WL + "WaitLists::conditionally_enqueue")
    if r.anchor(WL + "WaitLists::conditionally_enqueue", ce):
        lk = [x for x in ce.calls if x.name == LOCK]
        pred = [x for x in ce.calls if x.fn and (x.fn.get("tr") or "").startswith("core::ops::function::Fn")]
        app = ce.calls_to("runtime::waitlists::append_to_waitlist")
        r.anchor("conditionally_enqueue: data.lock()", lk)
        r.anchor("conditionally_enqueue: predicate call", pred)
        r.anchor("conditionally_enqueue: append_to_waitlist", app)
        if lk and pred and app:
            held = guard_scope(ce, lk[0])
            r.instance("conditionally_enqueue:predicate-and-append-under-lock",
                       sample={"lock": lk[0].where(), "pred": pred[0].where(), "append": app[0].where()})
            if pred[0].block not in held or app[0].block not in held:
                r.violation(WL + "WaitLists::conditionally_enqueue:not-atomic",
                            "the predicate (lock word still contended?) and the enqueue are not both executed under "
                            "the wait-list lock: an unlock+notify between them is lost and the thread blocks forever",
                            app[0].where())
            if not ce.dominates(pred[0].block, app[0].block):
                r.violation(WL + "WaitLists::conditionally_enqueue:append-without-predicate",
                            "the thread can be enqueued without evaluating the predicate", app[0].where())
    ap = cg.body(WL + "append_to_waitlist")
    if r.anchor(WL + "append_to_waitlist", ap):
        pf = ap.calls_to("threads::DoraThread::prepare_for_waitlist")
        ins = [x for x in ap.calls if x.name and x.name.endswith("ObjectHashMap::<T>::insert")]
        r.instance("append_to_waitlist:sets-blocking-flag")
        if not pf or not ap.postdominates(pf[0].block, 0):
            r.violation(WL + "append_to_waitlist:no-prepare_for_waitlist",
                        "a queued thread's blocking flag is not set on every path before the wait-list lock is "
                        "released: a wake-up arriving before block() finds the flag clear and is lost", ap.file)
        if not ins or not ap.postdominates(ins[0].block, 0):
            r.violation(WL + "append_to_waitlist:no-insert", "the wait list is not stored back", ap.file)
    for nm in ("wakeup", "wakeup_all"):
        b = cg.body(WL + "WaitLists::" + nm)
        if not r.anchor(WL + "WaitLists::" + nm, b):
            continue
        lk = [x for x in b.calls if x.name == LOCK]
        rm = b.calls_to("threads::DoraThread::remove_from_waitlist")
        r.instance("%s:dequeue-under-lock" % nm)
        if not lk or not rm:
            r.violation(WL + "WaitLists::%s:shape" % nm, "expected data.lock() and remove_from_waitlist", b.file)
            continue
        held = guard_scope(b, lk[0])
        for x in rm:
            if x.block not in held:
                r.violation(WL + "WaitLists::%s:dequeue-outside-lock" % nm,
                            "threads are dequeued without the wait-list lock: concurrent enqueue corrupts the list",
                            x.where())
    rf = cg.body(RT + "threads::DoraThread::remove_from_waitlist")
    if r.anchor(RT + "threads::DoraThread::remove_from_waitlist", rf):
        lk = [x for x in rf.calls if x.name == LOCK]
        no = [x for x in rf.calls if x.name and x.name.startswith("parking_lot::condvar::Condvar::notify")]
        r.instance("remove_from_waitlist:clear-then-notify")
        if not lk or not no:
            r.violation(RT + "threads::DoraThread::remove_from_waitlist:shape", "expected lock + notify", rf.file)
        else:
            held = guard_scope(rf, lk[0])
            # the (false, null) tuple is stored while the guard is held
            stores = []
            for bi, blk in enumerate(rf.blocks):
                for s in blk["s"]:
                    if s[0] == "a" and s[2][0] == "agg" and s[2][1][0] == "tuple" and s[2][2] and \
                            s[2][2][0][0] == "k" and s[2][2][0][1].get("v") == 0 and s[2][2][0][1].get("ty") == "bool":
                        stores.append(bi)
            if not stores or not all(b in held or b == lk[0].block for b in stores):
                r.violation(RT + "threads::DoraThread::remove_from_waitlist:flag-not-cleared-under-lock",
                            "the blocking flag must be cleared while holding the thread's blocking lock", rf.file)
            elif not all(any(rf.dominates(b, n.block) for b in stores) for n in no):
                r.violation(RT + "threads::DoraThread::remove_from_waitlist:notify-before-clear",
                            "the sleeper is notified before its flag is cleared: it re-checks, sees `blocking` still "
                            "set and sleeps again — lost wake-up", no[0].where())


def rule_r2(chk, c, cg):
    r = chk.rule("C09.R2", "DoraThread::block and ::join wait in a loop on the guarded flag inside parked_scope")
    for nm in ("block", "join"):
        outer = cg.body(RT + "threads::DoraThread::" + nm)
        if not r.anchor(RT + "threads::DoraThread::" + nm, outer):
            continue
        ps = outer.calls_to("threads::parked_scope")
        clos = [p for p in cg.bodies if p.startswith(RT + "threads::DoraThread::%s::{closure" % nm)]
        r.instance("%s:inside-parked_scope" % nm)
        waits_outer = [x for x in outer.calls if x.name and x.name.startswith("parking_lot::condvar::Condvar::wait")]
        if waits_outer or not ps:
            r.violation(RT + "threads::DoraThread::%s:not-parked" % nm,
                        "the thread waits without being parked: a collection requested meanwhile waits for it forever",
                        outer.file)
        found = False
        for cp in clos:
            B = cg.body(cp)
            ws = [x for x in B.calls if x.name and x.name.startswith("parking_lot::condvar::Condvar::wait")]
            for w in ws:
                found = True
                loops = [(h, body) for (h, body) in B.natural_loops() if w.block in body]
                r.instance("%s:wait-in-loop" % nm, sample={"closure": cp, "at": w.where()})
                if not loops:
                    r.violation(RT + "threads::DoraThread::%s:wait-not-in-loop" % nm,
                                "a spurious wake-up lets the thread continue although it was not woken/joined",
                                w.where())
        if not found and not waits_outer:
            r.violation(RT + "threads::DoraThread::%s:no-wait" % nm, "no condition wait found", outer.file)


def rule_r3(chk, F):
    r = chk.rule("C09.R3", "atomic read-modify-write emitters use xchg (implicitly locked) or a lock-prefixed "
                           "instruction; the unlocked cmpxchg/xadd forms are called only from their lock_ wrappers, in "
                           "both code generators")
    asm = F.crate("dora_asm")
    X = "dora_asm::x64::AssemblerX64::"
    names = sorted(last(p) for p in asm.hir if p.startswith(X))
    lockable = [n for n in names if "lock_" + n in names]
    r.floor("RMW emitters with a lock_ wrapper (Rust)", len(lockable), 4)
    elp = asm.hir.get(X + "emit_lock_prefix")
    if r.anchor(X + "emit_lock_prefix", elp):
        lits = [hirq.lit_int(n) for n in hirq.walk(elp["body"]) if n[0] == "lit" and n[1] == "int"]
        r.instance("emit_lock_prefix:0xF0")
        if 0xF0 not in lits:
            r.violation(X + "emit_lock_prefix:not-0xF0", "the lock prefix byte is 0xF0", elp["file"])
    for n in lockable:
        w = asm.hir.get(X + "lock_" + n)
        cs = [x for x in hirq.calls(w["body"])]
        idx_p = [i for i, x in enumerate(cs) if x.callee == X + "emit_lock_prefix"]
        idx_c = [i for i, x in enumerate(cs) if x.callee == X + n]
        r.instance("lock_%s:prefix-then-%s" % (n, n), sample={"wrapper": "lock_" + n})
        if not idx_p or not idx_c or idx_p[0] > idx_c[0]:
            r.violation(X + "lock_%s:no-prefix" % n,
                        "lock_%s must emit the lock prefix immediately before %s: without it the read-modify-write "
                        "is not atomic across cores" % (n, n), w["file"])
    # who-may-call
    sites = 0
    for crate in F.all_crates():
        for p, b in crate.hir.items():
            for x in hirq.calls(b["body"]):
                if x.callee and x.callee.startswith(X) and last(x.callee) in lockable:
                    sites += 1
                    r.instance("%s→%s" % (p, last(x.callee)), nontrivial=True)
                    if p != X + "lock_" + last(x.callee):
                        r.violation("%s:unlocked-%s" % (p, last(x.callee)),
                                    "%s emits %s without the lock prefix" % (p, last(x.callee)),
                                    "%s:%d" % (b["file"], x.line))
    # masm: every RMW *_synchronized routine reaches xchg or lock_
    cc = F.crate("dora_cannon_compiler")
    n_rmw = 0
    for p, b in sorted(cc.hir.items()):
        nm = last(p)
        if not nm.endswith("_synchronized") or nm.startswith(("load_", "store_")) or "masm::x64" not in p:
            continue
        n_rmw += 1
        asmcalls = [x.name for x in hirq.calls(b["body"]) if x.callee and x.callee.startswith(X)]
        ok = any(a.startswith("xchg") or a.startswith("lock_") for a in asmcalls)
        r.instance("masm::%s" % nm, sample={"routine": nm, "emits": asmcalls})
        if not ok:
            r.violation("%s:no-atomic-instruction" % p,
                        "%s emits %s — neither xchg nor a lock-prefixed instruction" % (nm, asmcalls), b["file"])
    r.floor("masm RMW routines", n_rmw, 6)
    # operand size: a routine named for one width uses that width's instruction forms (size letter of the dora_asm
    # mnemonic: b/l/q) — `exchange_int64_synchronized` built from `xchgl` would swap the low word only
    import re as _re
    size_of = {"int8": "b", "int32": "l", "int64": "q"}
    n_w = 0
    for p, b in sorted(cc.hir.items()):
        nm = last(p)
        if not nm.endswith("_synchronized") or "masm::x64" not in p:
            continue
        m = _re.search(r"_(int8|int32|int64)_synchronized$", nm)
        if not m:
            continue
        want = size_of[m.group(1)]
        for x in hirq.calls(b["body"]):
            if not (x.callee and x.callee.startswith(X)):
                continue
            mm = _re.match(r"^(?:lock_)?[a-z]+?([blq])_[a-z]+$", x.name)
            if not mm:
                continue
            n_w += 1
            r.instance("masm::%s:%s:size" % (nm, x.name), sample={"routine": nm, "instruction": x.name,
                                                                 "size": mm.group(1), "expected": want})
            if mm.group(1) != want and not (want == "b" and mm.group(1) == "l" and x.name.startswith(("movzx", "movl_rr"))):
                r.violation("%s:%s:operand-size" % (p, x.name),
                            "%s uses the `%s` form %s: the atomic operation is performed at another width than the "
                            "routine's name (and its callers) say" % (nm, mm.group(1), x.name),
                            "%s:%d" % (b["file"], x.line))
    r.floor("sized instructions in the x64 atomic routines", n_w, 12)
    for p, b in sorted(cc.hir.items()):
        nm = last(p)
        if nm.startswith("store_") and nm.endswith("_synchronized") and "masm::x64" in p:
            asmcalls = [x.name for x in hirq.calls(b["body"]) if x.callee and x.callee.startswith(X)]
            r.instance("masm::%s" % nm, sample={"emits": asmcalls})
            if not any(a.startswith("xchg") or a == "mfence" for a in asmcalls):
                r.violation("%s:store-not-seqcst" % p, "a synchronized store must be xchg or mov+mfence", b["file"])
    # Dora side
    D = F.dora()
    t = D.get("pkgs/boots/assembler/x64.dora")
    if r.anchor("pkgs/boots/assembler/x64.dora", t):
        fns = {f.name: f for f in doraq.functions(t, "pkgs/boots/assembler/x64.dora") if f.container == "AssemblerX64"}
        dl = [n for n in fns if "lock_" + n in fns]
        r.floor("RMW emitters with a lock_ wrapper (Dora)", len(dl), 4)
        for n in dl:
            w = fns["lock_" + n]
            cs = [x.callee for x in doraq.calls(w.body)]
            r.instance("dora lock_%s" % n, sample={"calls": cs})
            pi = [i for i, x in enumerate(cs) if x in ("self.emit_lock_prefix",) or (x == "self.emit_byte")]
            ci = [i for i, x in enumerate(cs) if x == "self." + n]
            if not pi or not ci or pi[0] > ci[0]:
                r.violation("pkgs/boots/assembler/x64.dora::lock_%s:no-prefix" % n,
                            "the Dora lock_%s does not emit the lock prefix before %s" % (n, n), w.where())
        if "emit_lock_prefix" in fns:
            txt = doraq.text(fns["emit_lock_prefix"].body)
            r.instance("dora emit_lock_prefix:0xF0")
            if "0xF0" not in txt.upper().replace("0XF0", "0xF0"):
                r.violation("pkgs/boots/assembler/x64.dora::emit_lock_prefix:not-0xF0", "lock prefix byte is 0xF0",
                            fns["emit_lock_prefix"].where())
        cgx = D.get("pkgs/boots/codegen/x64.dora")
        if r.anchor("pkgs/boots/codegen/x64.dora", cgx):
            nsite = 0
            for f in doraq.functions(cgx, "pkgs/boots/codegen/x64.dora"):
                for x in doraq.calls(f.node):
                    if x.callee.startswith("self.asm.") and x.name in dl:
                        r.violation("pkgs/boots/codegen/x64.dora::%s:unlocked-%s" % (f.qual, x.name),
                                    "the optimizing code generator emits %s without the lock prefix" % x.name,
                                    "%s:%d" % (f.file, x.line))
                    if x.callee.startswith("self.asm.") and (x.name.startswith("lock_") or x.name.startswith("xchg")):
                        nsite += 1
                        r.instance("boots:%s:%s" % (f.qual, x.name), nontrivial=True)
            r.floor("boots atomic instruction sites", nsite, 6)


def rule_r4(chk, c, cg, rid="C09.R4"):
    r = chk.rule(rid, "ObjectHashMap (keyed by object address) re-hashes after a collection before every probe; "
                           "its keys are visited as roots")
    OH = WL + "ObjectHashMap::<T>::"
    rehashers = []
    for p in cg.bodies:
        if p.startswith(OH + "maybe_rehash"):
            B = cg.body(p)
            inv = B.calls_to("runtime::waitlists::ObjectHashMap::<T>::invalidated_by_gc")
            rh = B.calls_to("runtime::waitlists::ObjectHashMap::<T>::rehash")
            r.instance("%s:tests-epoch-and-rehashes" % last(p))
            if inv and rh:
                rehashers.append(p)
            else:
                r.violation(p + ":does-not-test-gc-epoch",
                            "%s no longer tests invalidated_by_gc()/rehashes: after a moving collection keys hash to "
                            "stale buckets and queued threads are never found (lost wake-up)" % last(p), p)
    r.floor("maybe_rehash_* helpers", len(rehashers), 3)
    inv = cg.body(OH + "invalidated_by_gc")
    if r.anchor(OH + "invalidated_by_gc", inv):
        ep = inv.calls_to("runtime::Runtime::gc_epoch")
        r.instance("invalidated_by_gc:compares-epoch")
        if not ep:
            r.violation(OH + "invalidated_by_gc:no-epoch", "does not consult the runtime's GC epoch", inv.file)
    probes = 0
    for p in sorted(cg.bodies):
        if not p.startswith(OH) or "{closure" in p:
            continue
        B = cg.body(p)
        # a probe: idx = hash & (capacity - 1) with hash derived from a *parameter* key
        probe_blocks = []
        for bi, blk in enumerate(B.blocks):
            for s in blk["s"]:
                if s[0] == "a" and s[2][0] == "bin" and s[2][1] == "BitAnd":
                    probe_blocks.append(bi)
        if not probe_blocks or last(p) in ("rehash",):
            continue
        haskey = any(ty == RT + "gc::Address" for ty, _n in B.locals[1:B.argc + 1])
        if not haskey:
            continue
        probes += 1
        rc = [x for x in B.calls if x.name in rehashers]
        first = min(probe_blocks)
        r.instance("%s:rehash-dominates-probe" % last(p), sample={"fn": p})
        if not rc or not all(any(B.dominates(x.block, pb) for x in rc) for pb in probe_blocks):
            r.violation(p + ":probe-without-rehash",
                        "%s computes a bucket from an object address without first calling maybe_rehash_*: after a "
                        "moving collection the entry sits in the bucket of the old address" % last(p), B.file)
    r.floor("probing operations", probes, 3)
    vr = cg.body(OH + "visit_roots")
    if r.anchor(OH + "visit_roots", vr):
        r.instance("ObjectHashMap::visit_roots:visits-live-keys")
        il = vr.calls_to("runtime::waitlists::ObjectHashMap::<T>::is_live")
        cb = [x for x in vr.calls if x.fn and (x.fn.get("tr") or "").startswith("core::ops::function::Fn")]
        loops = vr.natural_loops()
        if not (il and cb and loops):
            r.violation(OH + "visit_roots:shape", "must loop over all slots and report every live key", vr.file)
    isr = RT + "gc::root::iterate_strong_roots"
    wl = WL + "WaitLists::visit_roots"
    r.instance("iterate_strong_roots→WaitLists::visit_roots")
    if wl not in cg.reachable_from([isr]):
        r.violation(isr + ":waitlists-not-roots", "mutex/condition objects with queued threads are not roots", isr)
    wb = cg.body(wl)
    if wb is not None:
        if OH + "visit_roots" not in cg.reachable_from([wl]):
            r.violation(wl + ":does-not-visit-map", "WaitLists::visit_roots does not visit the map's keys", wl)


def top_calls(block):
    """calls at statement level of a block (not nested in if/while/match bodies), in order"""
    out = []
    for st in doraq.nodes(block):
        if st[0] in ("EXPR_STMT", "LET"):
            inner = doraq.nodes(st)
            for e in inner:
                if e[0] in ("IF_EXPR", "WHILE_EXPR", "FOR_EXPR", "MATCH_EXPR", "BLOCK_EXPR"):
                    continue
                for cl in doraq.calls(e):
                    out.append(cl)
        elif st[0] in ("CALL_EXPR", "METHOD_CALL_EXPR", "PATH_EXPR", "BIN_EXPR"):
            for cl in doraq.calls(st):
                out.append(cl)
    return out


def rule_r5(chk, F):
    r = chk.rule("C09.R5", "pkgs/std/thread.dora: lock_op before the critical section and unlock_op after it; "
                           "Condition::wait registers as waiter before releasing the mutex, blocks, then re-locks; "
                           "unlock notifies exactly when the previous lock word was not LOCKED; lock-word constants")
    f = "pkgs/std/thread.dora"
    t = F.dora().get(f)
    if not r.anchor(f, t):
        return
    fns = {}
    for fn in doraq.functions(t, f):
        fns[fn.qual] = fn
    consts = doraq.consts(t)
    r.instance("lock-word constants", sample={k: consts.get(k) for k in ("UNLOCKED", "LOCKED", "LOCKED_CONTENDED")})
    vals = [consts.get(k) for k in ("UNLOCKED", "LOCKED", "LOCKED_CONTENDED")]
    if None in vals or len(set(vals)) != 3:
        r.violation(f + ":lock-word-constants", "UNLOCKED/LOCKED/LOCKED_CONTENDED must be three distinct values", f)
    if consts.get("UNLOCKED") != 0:
        r.violation(f + ":UNLOCKED!=0", "a fresh AtomicInt32 / ManagedMutex.state starts at 0 = UNLOCKED", f)

    def order(qual, seq, what):
        fn = fns.get(qual)
        if not r.anchor(f + "::" + qual, fn):
            return
        cs = [c.callee for c in top_calls(fn.body)]
        idx = []
        for s in seq:
            i = [k for k, cname in enumerate(cs) if cname == s]
            idx.append(i[0] if i else None)
        r.instance("%s:order" % qual, sample={"calls": cs, "want": seq})
        if None in idx or idx != sorted(idx) or len(set(idx)) != len(idx):
            r.violation("%s::%s:order" % (f, qual), "%s (top-level calls seen: %s)" % (what, cs), fn.where())
    order("Mutex::lock", ["self.lock_op", "fct", "self.unlock_op"],
          "Mutex::lock must run lock_op(), then the callback, then unlock_op(), unconditionally")
    order("Condition::wait", ["self.enqueue", "mtx.unlock_op", "self.block", "mtx.lock_op"],
          "Condition::wait must enqueue before releasing the mutex (else a notify in between is lost), then block, "
          "then re-acquire")
    # unlock_op
    u = fns.get("Mutex::unlock_op")
    if r.anchor(f + "::Mutex::unlock_op", u):
        txt = doraq.text(u.body)
        ex = [c for c in doraq.calls(u.body) if c.callee == "self.data.exchange"]
        r.instance("unlock_op:exchange(UNLOCKED)+notify-if-not-LOCKED")
        if not ex or ex[0].arg_text(0) != "UNLOCKED":
            r.violation(f + "::Mutex::unlock_op:not-exchange-UNLOCKED",
                        "unlock must atomically exchange the lock word with UNLOCKED", u.where())
        ifs = [n for n in doraq.walk(u.body) if n[0] == "IF_EXPR"]
        ok = False
        for i in ifs:
            cond = doraq.nodes(i)[0]
            ct = doraq.text(cond)
            body = doraq.nodes(i)[1] if len(doraq.nodes(i)) > 1 else None
            if ct in ("previous!=LOCKED", "previous != LOCKED".replace(" ", "")) and body is not None and \
                    any(c.callee == "self.unlock_slow" for c in doraq.calls(body)):
                ok = True
        if not ok:
            r.violation(f + "::Mutex::unlock_op:notify-condition",
                        "waiters must be notified exactly when the previous lock word was not LOCKED "
                        "(i.e. LOCKED_CONTENDED)", u.where())
    us = fns.get("Mutex::unlock_slow")
    if r.anchor(f + "::Mutex::unlock_slow", us):
        r.instance("unlock_slow:notify")
        if not any(c.callee == "self.notify" for c in doraq.calls(us.body)):
            r.violation(f + "::Mutex::unlock_slow:no-notify", "contended unlock never wakes a waiter", us.where())
    lo = fns.get("Mutex::lock_op")
    if r.anchor(f + "::Mutex::lock_op", lo):
        ce = [c for c in doraq.calls(lo.body) if c.callee == "self.data.compare_exchange"]
        r.instance("lock_op:CAS(UNLOCKED,LOCKED)")
        if not ce or (ce[0].arg_text(0), ce[0].arg_text(1)) != ("UNLOCKED", "LOCKED"):
            r.violation(f + "::Mutex::lock_op:cas", "fast path must be compare_exchange(UNLOCKED, LOCKED)", lo.where())
        if not any(c.callee == "self.lock_slow" for c in doraq.calls(lo.body)):
            r.violation(f + "::Mutex::lock_op:no-slow-path", "a failed fast path must enter lock_slow", lo.where())
    ls = fns.get("Mutex::lock_slow")
    if r.anchor(f + "::Mutex::lock_slow", ls):
        ce = [c for c in doraq.calls(ls.body) if c.callee == "self.data.compare_exchange"]
        wt = [c for c in doraq.calls(ls.body) if c.callee == "self.wait"]
        wl = [n for n in doraq.walk(ls.body) if n[0] == "WHILE_EXPR"]
        r.instance("lock_slow:loop-CAS(UNLOCKED,LOCKED_CONTENDED)")
        if not wl:
            r.violation(f + "::Mutex::lock_slow:no-loop", "acquisition after a wake-up must be retried in a loop",
                        ls.where())
        if not ce or (ce[0].arg_text(0), ce[0].arg_text(1)) != ("UNLOCKED", "LOCKED_CONTENDED"):
            r.violation(f + "::Mutex::lock_slow:cas",
                        "a woken thread must acquire with LOCKED_CONTENDED (the queue may be non-empty); acquiring "
                        "with LOCKED makes the next unlock skip the notify and strands the remaining waiters",
                        ls.where())
        if not wt or wt[0].arg_text(0) != "LOCKED_CONTENDED":
            r.violation(f + "::Mutex::lock_slow:wait-value",
                        "wait() must block only while the lock word is still LOCKED_CONTENDED", ls.where())
    na = fns.get("Condition::notify_all")
    if r.anchor(f + "::Condition::notify_all", na):
        r.instance("notify_all:wakeup_all")
        if not any(c.callee == "self.wakeup_all" for c in doraq.calls(na.body)):
            r.violation(f + "::Condition::notify_all:no-wakeup_all", "notify_all wakes nobody", na.where())
    no = fns.get("Condition::notify_one")
    if r.anchor(f + "::Condition::notify_one", no):
        r.instance("notify_one:wakeup_one")
        if not any(c.callee == "self.wakeup_one" for c in doraq.calls(no.body)):
            r.violation(f + "::Condition::notify_one:no-wakeup_one", "notify_one wakes nobody", no.where())


def rule_r6(chk, F, cg):
    r = chk.rule("C09.R6", "the natives behind Mutex/Condition reach the matching wait-list operation")
    import re
    src = open(F.dir and __import__("facts").repo_path("dora-runtime/src/stdlib.rs")).read()
    want = {
        "std::thread::Mutex#wait": WL + "WaitLists::block",
        "std::thread::Mutex#notify": WL + "WaitLists::wakeup",
        "std::thread::Condition#enqueue": WL + "WaitLists::enqueue",
        "std::thread::Condition#block": RT + "threads::DoraThread::block",
        "std::thread::Condition#wakeup_one": WL + "WaitLists::wakeup",
        "std::thread::Condition#wakeup_all": WL + "WaitLists::wakeup_all",
        "std::thread::Thread#join": RT + "threads::DoraThread::join",
    }
    found = 0
    for m in re.finditer(r'#\[dora_native\("([^"]+)"\)\]\s*pub\s+(?:unsafe\s+)?extern\s+"C"\s+fn\s+(\w+)', src):
        path, fname = m.group(1), m.group(2)
        if path not in want:
            continue
        found += 1
        fp = RT + "stdlib::" + fname
        r.instance("%s→%s" % (path, last(want[path])), sample={"native": fp})
        if fp not in cg.bodies:
            r.violation("%s:native-missing" % path, "no body for %s" % fp, fp)
            continue
        if want[path] not in cg.reachable_from([fp]):
            r.violation("%s:wrong-operation" % path,
                        "%s does not reach %s" % (fp, want[path]), fp)
    r.floor("thread natives", found, 7)


def rule_r7(chk, F, c, cg):
    r = chk.rule("C09.R7", "the runtime writes the lock word of a managed mutex/condition only while holding the "
                           "wait-list lock (inside the predicate closure of conditionally_enqueue or in the lock's "
                           "guard scope): the word and the queue must change together")
    writes = {"store", "swap", "fetch_add", "fetch_sub", "fetch_or", "fetch_and", "compare_exchange",
              "compare_exchange_weak", "fetch_update"}
    n = 0

    def visit(node, in_pred_closure, fnpath, file):
        nonlocal n
        if not hirq.is_node(node):
            if isinstance(node, list):
                for x in node:
                    visit(x, in_pred_closure, fnpath, file)
            return
        if node[0] in ("call", "mcall"):
            cs = hirq.CallSite(node)
            if cs.callee and cs.callee.endswith("WaitLists::conditionally_enqueue"):
                for a in cs.all_args():
                    a2 = hirq.strip(a)
                    visit(a, hirq.is_node(a2) and a2[0] == "closure", fnpath, file)
                return
            if cs.is_method and cs.name in writes and cs.recv is not None:
                rc = hirq.strip(cs.recv)
                if hirq.is_node(rc) and rc[0] == "field" and rc[2] == "state" and len(rc) > 3 and (
                        rc[3].endswith("waitlists::ManagedCondition") or rc[3].endswith("waitlists::ManagedMutex")):
                    n += 1
                    key = "%s:%s.state.%s" % (fnpath, last(rc[3]), cs.name)
                    held = in_pred_closure
                    if not held:
                        # guard scope of the wait-list lock in the enclosing function (MIR)
                        B = cg.body(fnpath)
                        if B is not None:
                            for lk in [x for x in B.calls if x.name == LOCK and "ObjectHashMap" in B.local_ty(x.dest[0])]:
                                scope = guard_scope(B, lk)
                                for x in B.calls:
                                    if x.name and x.name.startswith("core::sync::atomic::Atomic") and \
                                            last(x.name) == cs.name and x.line == cs.line and x.block in scope:
                                        held = True
                    r.instance(key, sample={"fn": fnpath, "op": cs.name, "under_waitlist_lock": held})
                    if not held:
                        r.violation(key + ":outside-waitlist-lock",
                                    "the lock word/waiter flag of a managed %s is written outside the wait-list lock: "
                                    "a thread that enqueues itself between the queue update and this store has its "
                                    "flag overwritten — later notifications return early and the waiter sleeps forever"
                                    % last(rc[3]), "%s:%d" % (file, cs.line))
        for x in node[1:]:
            if isinstance(x, list):
                visit(x, in_pred_closure, fnpath, file)

    for p, b in sorted(c.hir.items()):
        visit(b["body"], False, p, b["file"])
    r.floor("runtime writes to managed lock words", n, 1)

def rule_r8(chk, F, c, cg):
    """A condition variable on which threads *other than the owner* wait can have several waiters at once (any
    number of threads may join the same thread).  The notifier that makes the waited-for state final must wake them
    all; notify_one wakes one joiner and leaves the others parked for ever."""
    r = chk.rule("C09.R8", "runtime condition variables that foreign threads wait on (the waiting method is invoked on "
                           "a DoraThread that is not the caller's own) are only ever signalled with notify_all")
    waits, notifies = {}, {}
    for p in sorted(cg.bodies):
        if not p.startswith(RT + "threads::DoraThread::"):
            continue
        B = cg.body(p)
        defs = None
        for x in B.calls:
            nm = x.name or ""
            if "Condvar" not in nm or not x.args:
                continue
            kind = "wait" if last(nm).startswith("wait") else (last(nm) if last(nm).startswith("notify") else None)
            if kind is None:
                continue
            defs = defs or cfg.simple_defs(B)
            o = cfg.origin(B, x.args[0], defs)
            flds = tuple(q for q in (o[2] if o[0] == "param" else []) if q.startswith(".") and not q[1:].isdigit())
            if not flds:
                continue
            owner = p.split("::{closure")[0]
            (waits if kind == "wait" else notifies).setdefault(flds, []).append((owner, kind, x.where()))
    r.floor("DoraThread condition variables with a waiter", len(waits), 2)
    for flds, ws in sorted(waits.items()):
        # who calls the waiting method, and on which receiver?
        foreign = []
        own = 0
        for (wfn, _k, _w) in ws:
            for g in sorted(cg.redges.get(wfn, ())):
                G = cg.body(g)
                if G is None:
                    continue
                gdefs = None
                for call in G.calls:
                    if call.name != wfn or not call.args:
                        continue
                    gdefs = gdefs or cfg.simple_defs(G)
                    o = cfg.origin(G, call.args[0], gdefs)
                    is_own = o[0] == "call" and last(cfg.callee_name(cfg.callee_of(o[1]["f"])) or "") == "current_thread"
                    if is_own:
                        own += 1
                    else:
                        foreign.append("%s (%s)" % (g, call.where()))
        key = "DoraThread%s" % "".join(flds)
        ns = notifies.get(flds, [])
        r.instance(key, sample={"waiters": [w[0] for w in ws], "foreign_callers": foreign[:3], "own_callers": own,
                                "notifies": [(n[0], n[1]) for n in ns]})
        if not foreign:
            continue
        for (nfn, kind, where) in ns:
            if kind != "notify_all":
                r.violation("%s:%s:%s-with-foreign-waiters" % (nfn, "".join(flds), kind),
                            "threads other than the owner wait on `%s` (e.g. %s), so several can be blocked at once; "
                            "`%s` wakes one of them and the rest never return although the state they wait for is "
                            "final (a second thread joining the same thread hangs for ever)" % (
                                "".join(flds), foreign[0], kind), where)
        if not ns:
            r.violation("%s:no-notifier" % key, "nobody signals `%s`" % "".join(flds), ws[0][2])


def run(chk, F):
    c = F.crate("dora_runtime")
    cg = CallGraph(F, libs=["dora_runtime", "dora_compiler"], bins=[])
    rule_r1(chk, c, cg)
    rule_r2(chk, c, cg)
    rule_r3(chk, F)
    rule_r4(chk, c, cg)
    rule_r5(chk, F)
    rule_r6(chk, F, cg)
    rule_r7(chk, F, c, cg)
    rule_r8(chk, F, c, cg)
    chk.assumptions += [
        "decides ordering/atomicity shapes; mutual exclusion and absence of lost wake-ups over all interleavings of "
        "the lock-word protocol are not decided (model checking)",
        "Dora code is analysed syntactically (receiver paths self.data / mtx / self.asm)",
    ]
    rule_r9(chk, F)
    from rules import c09_probe
    c09_probe.run(chk, F)
    from rules import a64; a64.run_c09(chk, F)  # noqa: E702  arm64 siblings (aarch64 fact set)


def rule_r9(chk, F):
    """C09.R9: the BaselineAssembler's pass-through wrappers of the atomic operations call their namesake in the
    macro assembler (both targets) — see rules/forwarders.py."""
    from rules import forwarders
    r = chk.rule("C09.R9", "every pass-through wrapper of an atomic operation (`*_synchronized`) in the baseline "
                           "assembler forwards to the macro-assembler method of its own name (a wrapper that forwards "
                           "to a sibling performs the operation at another width)")
    n = forwarders.run(r, F.crate("dora_cannon_compiler"), lambda nm: nm.endswith("_synchronized"), "x64:")
    try:
        n2 = forwarders.run(r, F.a64().crate("dora_cannon_compiler"), lambda nm: nm.endswith("_synchronized"),
                            "arm64:")
    except Exception as e:                                       # noqa: BLE001
        r.observe("aarch64 facts unavailable: %s" % e)
        n2 = 0
    r.floor("pass-through wrappers of atomic operations (x64 build)", n, 10)
    r.floor("pass-through wrappers of atomic operations (aarch64 build)", n2, 10)

"""C15 helper: interprocedural, flow-insensitive value taint over the MIR facts (R2).

A seed is the result of a call that reads a per-process source (clock, pid, environment, temp-file name, ...).  Taint
flows through assignments, aggregates, call arguments/results (workspace callees are followed: parameters, return
value, and memory a callee fills through a pointer parameter), and through memory of locals reachable via the
points-to solution of c15_effects.BodyInfo.  Implicit (control-flow) dependences are not tracked.
"""
import re

import cfg

from rules import c15_effects as E
from rules.c15_effects import last, short

OUT_WRITE = re.compile(r"(^std::io::Write::|^<.* as std::io::Write>::)(write|write_all|write_fmt|write_vectored)$")
SUBPROC = re.compile(r"^std::process::Command::(new|arg|args|env|envs|current_dir|arg0)$")
PRINT = ("std::io::stdio::_print", "std::io::stdio::_eprint")
PTR_TY = re.compile(r"[&*']|\{closure|/#")


def rvalue_places(rv):
    k = rv[0]
    out = []

    def op(o):
        if isinstance(o, list) and len(o) == 2 and o[0] in ("c", "m"):
            out.append(o[1])
    if k in ("use", "repeat"):
        op(rv[1])
    elif k == "ref":
        out.append(rv[2])
    elif k in ("rawptr", "discr", "len"):
        for x in rv[1:]:
            if isinstance(x, list) and len(x) == 2 and isinstance(x[0], int):
                out.append(x)
    elif k == "cast":
        op(rv[2])
    elif k == "bin":
        op(rv[2])
        op(rv[3])
    elif k == "un":
        op(rv[2])
    elif k == "agg":
        for o in rv[2]:
            op(o)
    else:
        for x in rv[1:]:
            op(x)
    return out


class Taint:
    def __init__(self, cg, ef):
        self.cg = cg
        self.ef = ef

    def run(self, seeds, budget=4000):
        """seeds: [(fn, local)] → (hits [(sink kind, fn, callee, where)], number of functions touched)"""
        cg, ef = self.cg, self.ef
        T = {}
        why = {}
        self.why = why
        RET = set()
        TP = {}
        hits = {}
        work = []
        for (fn, loc) in seeds:
            T.setdefault(fn, set()).add(loc)
            if fn not in work:
                work.append(fn)
        steps = 0
        while work and steps < budget:
            fn = work.pop()
            steps += 1
            bi = ef.body_info(fn)
            if bi is None:
                continue
            B = bi.B
            t = T.setdefault(fn, set())
            tp = TP.setdefault(fn, set())
            n0 = (len(t), len(tp), fn in RET)

            is_clos = bi.is_closure

            def place_tainted(place):
                if is_clos and place[0] == 1:
                    # closure environment: per-capture taint
                    for pj in place[1]:
                        if pj == "*":
                            continue
                        if pj.startswith(".") and pj[1:].isdigit():
                            return ("cap", int(pj[1:])) in t or 1 in t
                        break
                    return 1 in t or any(isinstance(x, tuple) for x in t)
                if place[0] in t:
                    return True
                if E.nderef(place[1]) > 0:
                    for loc in bi.locations(place):
                        if loc[0] == "L" and loc[1] in t:
                            return True
                return False

            def op_tainted(op):
                if op[0] not in ("c", "m"):
                    return False
                if place_tainted(op[1]):
                    return True
                if not PTR_TY.search(B.local_ty(op[1][0])):
                    return False        # not a pointer-carrying value: points-to noise from call results
                for loc in bi.value(op):
                    if loc[0] == "L" and loc[1] in t:
                        return True
                return False

            def taint_locs(locs, reason=""):
                for loc in locs:
                    if loc[0] == "L":
                        if loc[1] not in t:
                            why[(fn, loc[1])] = reason
                        t.add(loc[1])
                    elif loc[0] == "P" and loc[1][1] is None:
                        tp.add(loc[1][0])

            def taint_place(place, reason=""):
                if E.nderef(place[1]) == 0:
                    if place[0] not in t:
                        why[(fn, place[0])] = reason
                    t.add(place[0])
                else:
                    taint_locs(bi.locations(place), reason)
            changed = True
            rounds = 0
            while changed and rounds < 40:
                rounds += 1
                before = (len(t), len(tp))
                for bidx, blk in enumerate(B.blocks):
                    if blk["c"]:
                        continue
                    for s in blk["s"]:
                        if s[0] == "a" and any(place_tainted(pl) for pl in rvalue_places(s[2])):
                            taint_place(s[1], "assign bb%d" % bidx)
                            rv = s[2]
                            if rv[0] == "agg" and rv[1][0] in ("closure", "coroutine") and rv[1][1] in cg.bodies:
                                # a closure capturing a tainted value: its body sees it through the environment
                                ct = T.setdefault(rv[1][1], set())
                                for k, o in enumerate(rv[2]):
                                    if o[0] in ("c", "m") and op_tainted(o) and ("cap", k) not in ct:
                                        ct.add(("cap", k))
                                        why[(rv[1][1], ("cap", k))] = "captured in %s" % short(fn)
                                        if rv[1][1] not in work:
                                            work.append(rv[1][1])
                    tm = blk["t"]
                    if tm[0] != "call":
                        continue
                    c = tm[1]
                    call = cfg.Call(B, bidx, c)
                    targs = [i for i, a in enumerate(c["a"]) if op_tainted(a)]
                    fnd = call.fn
                    targets = cg.targets(fnd) if fnd else []
                    name = call.name or call.decl or ""
                    bodies = [tg for (tg, k) in targets if tg in cg.bodies]
                    if targs:
                        self._sink(hits, fn, B, call, name, targs)
                        for tg in bodies:
                            TB = cg.bodies[tg][1]
                            tt = T.setdefault(tg, set())
                            n1 = len(tt)
                            if "{closure" in last(tg) and (call.decl or "").startswith("core::ops::function::Fn"):
                                for j in range(1, TB["argc"] + 1):
                                    if (j == 1 and 0 in targs) or (j >= 2 and 1 in targs):
                                        tt.add(j)
                            else:
                                for i in targs:
                                    if i + 1 <= TB["argc"]:
                                        if i + 1 not in tt:
                                            why[(tg, i + 1)] = "argument from %s" % short(fn)
                                        tt.add(i + 1)
                            if len(tt) != n1 and tg not in work:
                                work.append(tg)
                        if not bodies or len(bodies) < len(targets):
                            # extern callee: result derives from its arguments; it may store them behind `&mut`
                            taint_place(c["d"], "result of %s(%s)" % (short(name), targs))
                            ln = last(name)
                            if ln not in E.PROJECTION:
                                for i, a in enumerate(c["a"]):
                                    if a[0] in ("c", "m") and i not in targs and E.MUT_RE.search(B.local_ty(a[1][0])):
                                        taint_locs(bi.value(a), "filled by %s" % short(name))
                                for i in targs:
                                    a = c["a"][i]
                                    if a[0] in ("c", "m") and E.MUT_RE.search(B.local_ty(a[1][0])):
                                        taint_locs(bi.value(a), "filled by %s" % short(name))
                    for tg in bodies:
                        if tg in RET:
                            taint_place(c["d"], "returned by %s" % short(tg))
                        for j in TP.get(tg, ()):
                            ai = E.Effects.map_arg(call, tg, j)
                            if ai is not None and c["a"][ai][0] in ("c", "m"):
                                taint_locs(bi.value(c["a"][ai]), "filled by callee %s" % short(tg))
                changed = (len(t), len(tp)) != before
            if 0 in t:
                RET.add(fn)
            if (len(t), len(tp), fn in RET) != n0:
                for q in cg.redges.get(fn, ()):
                    if q in cg.bodies and q not in work:
                        work.append(q)
        self.last = (T, RET, TP)
        return sorted(hits.values()), len(T), steps >= budget

    @staticmethod
    def _sink(hits, fn, B, call, name, targs):
        kind = None
        if name == "std::fs::write" and 1 in targs:
            kind = "output"
        elif OUT_WRITE.search(name) and 1 in targs:
            ty = B.local_ty(call.args[0][1][0]) if call.args and call.args[0][0] in ("c", "m") else ""
            kind = "print" if re.search(r"Stdout|Stderr", ty) else "output"
        elif name.startswith("bincode::") or name.startswith("<bincode::"):
            kind = "output"
        elif SUBPROC.match(name):
            kind = "subprocess"
        elif name.startswith(PRINT):
            kind = "print"
        if kind:
            hits.setdefault((kind, fn, short(name)), (kind, fn, short(name), call.where()))

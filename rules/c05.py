"""C05 — only well-typed programs are compiled (narrow claim: the emission gate).

Decided clause: "…is rejected with at least one error diagnostic and nothing is emitted":
  R1  every call of emit_program outside test code is dominated by a branch on the error state whose
      error edge cannot reach the emission
  R2  check_program returns !has_errors(); has_errors reads the list only report*() fills; no
      descriptor declared with level Error is emitted through warn() (one reasoned exception)
  R3  every checking pass (pub fn(&Sema)/(&mut Sema) entry of the *ck/typeck/exhaustiveness modules)
      is reachable from check_program
That the type rules accept exactly the well-typed programs is NOT decided (quantifies over programs).
"""
import re

import cfg
import facts as factsmod
import hirq
from callgraph import CallGraph

FE = "dora_frontend::"
EMIT = FE + "program_emitter::emit_program"


def last(p):
    return p.rsplit("::", 1)[-1]


GATES = {
    # gating call → value of the branch on which emission is allowed
    "report_errors": 0,          # returns true when there are errors
    "has_errors": 0,
    "check_program": 1,          # returns true on success
}


def rule_r1(chk, F, cg):
    r = chk.rule("C05.R1", "every emit_program call site is dominated by a branch on report_errors()/has_errors()/"
                           "check_program() and lies on the no-error edge only")
    sites = 0
    for p in sorted(cg.bodies):
        if p.startswith(FE) and "::tests::" in p:
            continue
        B = cg.body(p)
        for x in B.calls:
            if x.name != EMIT:
                continue
            sites += 1
            defs = cfg.simple_defs(B)
            ok = False
            why = "no gating branch dominates the call"
            for bi in range(B.n):
                t = B.blocks[bi]["t"]
                if t[0] != "switch" or not B.dominates(bi, x.block) or t[1][0] not in ("c", "m"):
                    continue
                o = cfg.origin(B, t[1], defs)
                gate = None
                if o[0] == "call":
                    nm = last(cfg.callee_name(cfg.callee_of(o[1]["f"])) or "")
                    if nm in GATES:
                        gate = nm
                elif o[0] == "un" and o[1] == "Not":
                    o2 = cfg.origin(B, o[2], defs)
                    if o2[0] == "call":
                        nm = last(cfg.callee_name(cfg.callee_of(o2[1]["f"])) or "")
                        if nm in GATES:
                            gate = "!" + nm
                if gate is None:
                    continue
                allowed = GATES[gate.lstrip("!")]
                if gate.startswith("!"):
                    allowed = 1 - allowed
                arms = dict((v, b) for v, b in t[2])
                ok_edge = arms.get(allowed, t[3]) if allowed == 0 else t[3]
                bad_edges = [b for v, b in t[2] if v != allowed] + ([t[3]] if allowed == 0 and 0 in arms else [])
                if allowed == 1:
                    # bool switch: value 0 listed, otherwise = true
                    ok_edge = t[3]
                    bad_edges = [arms[0]] if 0 in arms else []
                reach_bad = any(x.block == b or x.block in B.reachable(b, avoid={bi}) for b in bad_edges)
                reach_ok = x.block == ok_edge or x.block in B.reachable(ok_edge, avoid={bi})
                if reach_ok and not reach_bad:
                    ok = True
                    why = "gated by %s" % gate
                    break
                why = "emit_program is reachable from the error edge of the %s branch" % gate
            r.instance("%s→emit_program" % p, sample={"fn": p, "at": x.where(), "gate": why})
            if not ok:
                r.violation("%s:emit_program-not-gated" % p,
                            "%s: a program with error diagnostics can be turned into a package/executable" % why,
                            x.where())
    r.floor("emit_program call sites", sites, 1)
    # report_errors really reports the error state
    for p in sorted(cg.bodies):
        if last(p) == "report_errors" and p.startswith("dora::"):
            B = cg.body(p)
            he = [x for x in B.calls if x.name and last(x.name) == "has_errors"]
            r.instance(p + ":returns-has_errors")
            if not he:
                r.violation(p + ":does-not-consult-has_errors", "report_errors no longer returns the error state", p)
            else:
                # the value returned on the has_errors path is that call's result
                defs = cfg.simple_defs(B)
                assigns = []
                for bi, blk in enumerate(B.blocks):
                    for s in blk["s"]:
                        if s[0] == "a" and s[1] == [0, []]:
                            assigns.append((bi, s))
                    t = blk["t"]
                    if t[0] == "call" and t[1]["d"] == [0, []]:
                        assigns.append((bi, ("callres", t[1])))
                good = False
                for bi, s in assigns:
                    if s[0] == "callres":
                        nm = last(cfg.callee_name(cfg.callee_of(s[1]["f"])) or "")
                        if nm == "has_errors":
                            good = True
                    elif s[2][0] == "use" and s[2][1][0] in ("c", "m"):
                        o = cfg.origin(B, s[2][1], defs)
                        if o[0] == "call" and last(cfg.callee_name(cfg.callee_of(o[1]["f"])) or "") == "has_errors":
                            good = True
                if not good:
                    r.violation(p + ":return-value-not-has_errors",
                                "the value returned by report_errors is not Diagnostic::has_errors()", p)


def rule_r2(chk, F):
    r = chk.rule("C05.R2", "check_program returns !has_errors(); has_errors reads `errors`, which only report*() "
                           "fills; descriptors declared Error are never emitted through warn()")
    fe = F.crate("dora_frontend")
    cp = fe.hir_fn("check_program")
    if r.anchor(FE + "check_program", cp) and hirq.is_node(cp["body"]):
        tail = cp["body"][2] if cp["body"][0] == "block" else None
        t = hirq.unmacro(tail) if tail is not None else None
        ok = hirq.is_node(t) and t[0] == "un" and t[1] == "Not" and any(
            cs.name == "has_errors" for cs in hirq.calls(t))
        r.instance("check_program:returns-not-has_errors")
        if not ok:
            r.violation(FE + "check_program:result", "check_program must return !diag.has_errors()", cp["file"])
    he = fe.hir_fn("error::diag::Diagnostic::has_errors")
    if r.anchor("Diagnostic::has_errors", he):
        flds = [n[2] for n in hirq.walk(he["body"]) if n[0] == "field"]
        r.instance("has_errors:reads-errors", sample={"fields": flds})
        if flds != ["errors"]:
            r.violation("Diagnostic::has_errors:fields", "has_errors must test exactly the `errors` list (reads %s)"
                        % flds, he["file"])
    for nm, fld in (("report", "errors"), ("report_without_location", "errors"), ("warn", "warnings")):
        b = fe.hir_fn("error::diag::Diagnostic::" + nm)
        if not r.anchor("Diagnostic::" + nm, b):
            continue
        pushes = []
        for cs in hirq.calls(b["body"]):
            if cs.is_method and cs.name == "push":
                rc = hirq.strip(cs.recv)
                if hirq.is_node(rc) and rc[0] == "field":
                    pushes.append(rc[2])
        r.instance("Diagnostic::%s→%s" % (nm, fld), sample={"pushes": pushes})
        if pushes != [fld]:
            r.violation("Diagnostic::%s:list" % nm, "%s must push to `%s` (pushes to %s)" % (nm, fld, pushes),
                        b["file"])
    # descriptor levels (declarative table in error/diagnostics.rs)
    src = factsmod.read_repo("dora-frontend/src/error/diagnostics.rs")
    levels = {}
    # declarative table: `pub static NAME: DiagnosticDescriptor = DiagnosticDescriptor { message: "..", level: .. };`
    for m in re.finditer(r"pub\s+(?:const|static)\s+(\w+)\s*:\s*DiagnosticDescriptor\s*=(.*?)\n\};", src, re.S):
        lv = re.search(r"level\s*:\s*ErrorLevel::(\w+)", m.group(2))
        if lv:
            levels[m.group(1)] = lv.group(1)
    r.floor("diagnostic descriptors", len(levels), 200)
    EXC = {"USELESS_PATTERN": "declared Error but deliberately emitted as a warning: an unreachable match arm does "
                              "not make a program ill-typed (the property lists non-exhaustive matches, not "
                              "unreachable arms)"}
    nwarn = 0
    for p, b in sorted(fe.hir.items()):
        if "::tests::" in p:
            continue
        for cs in hirq.calls(b["body"]):
            if cs.name != "warn" or not cs.callee or not (cs.callee.endswith("Sema::warn")
                                                          or cs.callee.endswith("Diagnostic::warn")):
                continue
            descs = [last(n[2]) for a in cs.args for n in hirq.walk(a) if n[0] == "def" and n[1] in ("const", "static")
                     and "diagnostics::" in n[2]]
            for d in descs:
                nwarn += 1
                lv = levels.get(d)
                r.instance("%s:warn(%s)" % (p, d), sample={"fn": p, "descriptor": d, "declared_level": lv})
                if lv == "Error" and d not in EXC:
                    r.violation("%s:warn(%s)" % (p, d),
                                "diagnostic %s is declared with level Error but emitted through warn(): it does not "
                                "count in has_errors(), so the program is compiled although it was 'rejected'" % d,
                                "%s:%d" % (b["file"], cs.line))
                elif lv == "Error":
                    r.observe("%s via warn(): %s" % (d, EXC[d]))
    r.floor("warn() call sites with a descriptor", nwarn, 3)


def rule_r3(chk, F, cg):
    r = chk.rule("C05.R3", "every checking pass entry (fn(&Sema)/(&mut Sema) of a *ck / typeck / exhaustiveness "
                           "module) is reachable from check_program; the exhaustiveness pass runs on the no-error path")
    fe = F.crate("dora_frontend")
    root = FE + "check_program"
    if not r.anchor(root, root in cg.bodies):
        return
    reach = cg.reachable_from([root])
    n = 0
    for f in fe.items["fns"]:
        p = f["path"]
        mod = p[len(FE):].split("::")[0]
        if not (mod.endswith("ck") or mod in ("typeck", "exhaustiveness", "aliasck")):
            continue
        if "::tests::" in p or f.get("container") or not f.get("has_body"):
            continue
        if len(f["inputs"]) != 1 or not f["inputs"][0].endswith("sema::Sema"):
            continue
        if f["vis"] == "Restricted(DefId(0:0 ~ dora_frontend[" or True:
            pass
        # module-level pass entry: visible outside its module
        if "Restricted" in f["vis"] and mod in f["vis"]:
            continue
        n += 1
        r.instance("pass:%s" % p[len(FE):], sample={"pass": p, "reached": p in reach})
        if p not in reach:
            r.violation("%s:pass-not-wired" % p,
                        "checking pass %s is not reachable from check_program: the errors it reports are never "
                        "produced, so the programs it rejects are compiled" % p[len(FE):], f["file"])
    r.floor("pass entries", n, 20)
    B = cg.body(root)
    ex = [x for x in B.calls if x.name == FE + "exhaustiveness::check"]
    r.instance("check_program:exhaustiveness-on-no-error-path")
    if not ex:
        r.violation(root + ":no-exhaustiveness", "exhaustiveness::check is not called", root)
    else:
        gated = False
        defs = cfg.simple_defs(B)
        for bi in range(B.n):
            t = B.blocks[bi]["t"]
            if t[0] == "switch" and B.dominates(bi, ex[0].block) and t[1][0] in ("c", "m"):
                o = cfg.origin(B, t[1], defs)
                src = o
                if o[0] == "un":
                    src = cfg.origin(B, o[2], defs)
                if src[0] == "call" and last(cfg.callee_name(cfg.callee_of(src[1]["f"])) or "") == "has_errors":
                    gated = True
        if not gated:
            r.observe("exhaustiveness::check is not guarded by has_errors() any more")
    # the final result is computed after every pass
    r.instance("check_program:result-after-all-passes")
    he = [x for x in B.calls if x.name and last(x.name) == "has_errors"]
    if not he or not any(B.postdominates(h.block, 0) for h in he):
        r.violation(root + ":result-not-final", "the returned error state is not read after the last pass", root)


def rule_r4(chk, F):
    """`a.iter().zip(b.iter())` silently stops at the shorter sequence.  In a relation that answers "do these two
    type lists match/unify/agree" that turns a length mismatch into agreement on the common prefix — tuples and
    lambda parameter lists carry their arity in the type, so programs with the wrong arity are accepted."""
    import cfg
    r = chk.rule("C05.R4", "every bool-valued relation in the semantic analysis that pairs two sequences with zip() "
                           "also compares their lengths, and the comparison dominates the pairing")
    c = F.crate("dora_frontend")
    n = 0
    for pth, mb in sorted(c.mir.items()):
        if "::tests" in pth or "{closure" in pth:
            continue
        B = cfg.Body(mb)
        if B.local_ty(0) != "bool":
            continue
        zips = [x for x in B.calls if x.name and x.name.endswith("iter::traits::iterator::Iterator::zip")]
        if not zips:
            continue
        defs = cfg.simple_defs(B)

        def seq_base(op, depth=0):
            """the sequence an iterator operand was made from: follow iter()/into_iter()/rev()/copied()/... chains"""
            if op[0] not in ("c", "m") or depth > 8:
                return None
            o = cfg.origin(B, op, defs)
            if o[0] == "call":
                nm = cfg.callee_name(cfg.callee_of(o[1]["f"])) or ""
                if o[1]["a"] and last(nm) in ("iter", "into_iter", "iter_mut", "rev", "copied", "cloned", "skip", "types",
                                             "deref", "as_slice", "as_ref", "clone", "borrow"):
                    return seq_base(o[1]["a"][0], depth + 1)
                return ("call", last(nm), tuple(seq_base(a, depth + 1) for a in o[1]["a"][:1]))
            if o[0] in ("param", "local"):
                return (o[0], o[1], tuple(q for q in o[2] if q not in ("*", "&")))
            return None
        # length comparisons: blocks whose switch operand is Eq/Ne of two len() results
        lens = []
        for sb in range(B.n):
            t = B.blocks[sb]["t"]
            if t[0] != "switch" or t[1][0] not in ("c", "m"):
                continue
            o = cfg.origin(B, t[1], defs)
            if o[0] == "un" and o[1] == "Not":
                o = cfg.origin(B, o[2], defs)
            if o[0] != "bin" or o[1] not in ("Eq", "Ne"):
                continue
            sides = []
            for side in (o[2], o[3]):
                if side[0] not in ("c", "m"):
                    continue
                os_ = cfg.origin(B, side, defs)
                if os_[0] == "call" and last(cfg.callee_name(cfg.callee_of(os_[1]["f"])) or "") == "len" and os_[1]["a"]:
                    sides.append(seq_base(os_[1]["a"][0]))
            if len(sides) == 2 and None not in sides:
                lens.append((sb, set(sides)))
        for z in zips:
            if len(z.args) < 2:
                continue
            a, b = seq_base(z.args[0]), seq_base(z.args[1])
            if a is None or b is None or a == b:
                r.observe("%s: zip operands not traced to two sequences (%s, %s)" % (pth, a, b))
                continue
            n += 1
            key = "%s:zip" % pth
            ok = any(B.dominates(sb, z.block) and ss == {a, b} for sb, ss in lens)
            r.instance(key + "@%d" % z.line, sample={"fn": pth, "a": str(a), "b": str(b), "length-check": ok})
            if not ok:
                r.violation(key + ":no-length-comparison",
                            "the relation pairs two sequences with zip() without first comparing their lengths: zip "
                            "stops at the shorter one, so sequences that differ only in length (a 2-tuple against a "
                            "3-tuple type, a lambda with one parameter against one with two) are reported as "
                            "matching and the ill-typed program is accepted", "%s:%d" % (B.file, z.line))
    r.floor("zip-pairing relations", n, 5)


def run(chk, F):
    cg = CallGraph(F)
    rule_r1(chk, F, cg)
    rule_r2(chk, F)
    rule_r3(chk, F, cg)
    rule_r4(chk, F)
    chk.assumptions += [
        "narrow claim: decides that emission is gated on the absence of error diagnostics, that rejections are "
        "errors (not warnings) and that every checking pass is wired in; whether the type rules accept exactly the "
        "well-typed programs quantifies over programs and is not decided",
    ]

"""C12 — parallel collection phases finish exactly when all work is done.

Decides the discipline the termination detector relies on (gc/swiper/terminator.rs and the two
parallel tasks): counters written only under the lock, decrement before sleeping, notify on the
terminating exit, re-read after every wake-up, resume restores both counters, workers offer to
terminate only after pop() came up empty, and every pool anybody publishes to is looked at by pop().
Absence of early/late termination over all interleavings is NOT decided (model checking).
"""
import cfg
import hirq
from callgraph import CallGraph

RT = "dora_runtime::"
TERM = RT + "gc::swiper::terminator::Terminator"
LOCK = "lock_api::mutex::Mutex::<R, T>::lock"
WRITES = {"store", "swap", "fetch_add", "fetch_sub", "fetch_or", "fetch_and", "fetch_xor", "compare_exchange",
          "compare_exchange_weak", "fetch_update", "fetch_max", "fetch_min", "get_mut", "as_ptr"}


def last(p):
    return p.rsplit("::", 1)[-1]


def counter_calls(B, field, methods):
    """MIR calls to atomic methods whose receiver is self.<field> of the Terminator"""
    out = []
    defs = cfg.simple_defs(B)
    for x in B.calls:
        if not (x.name and x.name.startswith("core::sync::atomic::Atomic") and last(x.name) in methods and x.args):
            continue
        o = cfg.origin(B, x.args[0], defs)
        proj = o[-1] if isinstance(o[-1], list) else []
        if ("." + field) in proj:
            out.append(x)
    return out


def guard_scopes(B):
    """(lock call, set of blocks where the guard is certainly held) for each Mutex::lock in B"""
    out = []
    for lk in B.calls:
        if lk.name != LOCK:
            continue
        g = lk.dest[0]
        drops = [i for i, blk in enumerate(B.blocks)
                 if blk["t"][0] == "drop" and blk["t"][1][0] == g and not blk["c"]]
        held = set()
        for b in B.reachable_from_succ(lk.block, avoid=set(drops)):
            if B.dominates(lk.block, b):
                held.add(b)
        # a block is "held" only if it cannot also be reached after a drop
        after_drop = set()
        for d in drops:
            after_drop |= B.reachable_from_succ(d)
        out.append((lk, held - after_drop))
    return out


def rule_r1(chk, c):
    r = chk.rule("C12.R1", "every write to Terminator::working/awakening happens while the terminator's lock is held")
    n = 0
    for p, mb in sorted(c.mir.items()):
        if "Terminator" not in p:
            continue
        B = cfg.Body(mb)
        scopes = None
        for field in ("working", "awakening"):
            for w in counter_calls(B, field, WRITES):
                n += 1
                if scopes is None:
                    scopes = guard_scopes(B)
                held = any(w.block in h for (_lk, h) in scopes)
                key = "%s:%s.%s" % (p, field, last(w.name))
                r.instance(key, sample={"fn": p, "field": field, "op": last(w.name), "at": w.where(), "locked": held})
                if not held:
                    r.violation(key, "%s.%s() is executed without holding Terminator::lock: two workers can both read "
                                     "the old counter (lost decrement ⇒ nobody ever terminates, or lost increment ⇒ a "
                                     "worker terminates while another still publishes work)" % (field, last(w.name)),
                                w.where())
    # who-may-write: nobody outside impl Terminator touches the counters (fields are private; check anyway)
    for p, b in c.hir.items():
        if "Terminator" in p:
            continue
        for cs in hirq.calls(b["body"]):
            rc = hirq.strip(cs.recv) if cs.recv is not None else None
            if cs.is_method and cs.name in WRITES and hirq.is_node(rc) and rc[0] == "field" \
                    and rc[2] in ("working", "awakening") and len(rc) > 3 and rc[3].endswith("terminator::Terminator"):
                r.violation("%s:outside-write" % p, "termination counter written outside impl Terminator", b["file"])
    r.floor("counter writes", n, 3)


def const_true_blocks(B, value):
    out = []
    for i, blk in enumerate(B.blocks):
        for s in blk["s"]:
            if s[0] == "a" and s[1] == [0, []] and s[2][0] == "use" and s[2][1][0] == "k" \
                    and s[2][1][1].get("ty") == "bool" and s[2][1][1].get("v") == (1 if value else 0):
                out.append(i)
    return out


def rule_r2(chk, c):
    r = chk.rule("C12.R2", "try_terminate: decrement before sleeping, notify_all on the exit that completes "
                           "termination, both counters re-read after every wake-up, resume restores both counters; "
                           "wake_up: awakening incremented before notify_one, under the lock")
    tt = c.mir.get(TERM + "::try_terminate")
    if r.anchor(TERM + "::try_terminate", tt):
        B = cfg.Body(tt)
        waits = [x for x in B.calls if x.name and x.name.startswith("parking_lot::condvar::Condvar::wait")]
        stw = counter_calls(B, "working", {"store", "fetch_sub", "swap"})
        sta = counter_calls(B, "awakening", {"store", "fetch_sub", "swap"})
        ldw = counter_calls(B, "working", {"load"})
        lda = counter_calls(B, "awakening", {"load"})
        na = [x for x in B.calls if x.name == "parking_lot::condvar::Condvar::notify_all"]
        r.anchor("try_terminate: Condvar::wait", waits)
        r.anchor("try_terminate: working store", stw)
        if waits and stw:
            first = [s for s in stw if not any(s.block in B.reachable_from_succ(w.block) for w in waits)]
            r.instance("try_terminate:decrement-before-wait", sample={"stores": [s.where() for s in stw]})
            if not first:
                r.violation(TERM + "::try_terminate:no-decrement-before-wait",
                            "a worker goes to sleep without first removing itself from `working`: the others can "
                            "never observe working == 0 and the phase never ends", waits[0].where())
            else:
                dec = first[0]
                for w in waits:
                    if not B.dominates(dec.block, w.block):
                        r.violation(TERM + "::try_terminate:wait-not-dominated-by-decrement",
                                    "a wait is reachable without the decrement of `working`", w.where())
                # decrement really subtracts one
                o = cfg.origin(B, dec.args[1]) if len(dec.args) > 1 else None
                sub_ok = False
                if last(dec.name) == "fetch_sub":
                    sub_ok = True
                if o and o[0] == "bin" and o[1] in ("Sub", "SubWithOverflow"):
                    sub_ok = any(x[0] == "k" and x[1].get("v") == 1 for x in o[2:4])
                if o and o[0] in ("local",):
                    # through checked-arithmetic tuple (.0 of SubWithOverflow)
                    defs = cfg.simple_defs(B)
                    for (_bi, s) in defs.get(o[1], []):
                        if s[0] == "a" and s[2][0] == "bin" and s[2][1] in ("Sub", "SubWithOverflow") and any(
                                x[0] == "k" and x[1].get("v") == 1 for x in s[2][2:4]):
                            sub_ok = True
                r.instance("try_terminate:decrement-is-minus-one")
                if not sub_ok:
                    r.violation(TERM + "::try_terminate:decrement-not-minus-one",
                                "the value stored into `working` before sleeping is not `working - 1`", dec.where())
                # terminating exit without having slept must notify_all
                trues = const_true_blocks(B, True)
                waitb = {w.block for w in waits}
                nab = {x.block for x in na}
                r.instance("try_terminate:notify_all-on-terminating-exit", sample={"true_exits": len(trues)})
                for t in trues:
                    if t in B.reachable_from_succ(dec.block, avoid=waitb | nab):
                        r.violation(TERM + "::try_terminate:terminating-exit-without-notify_all",
                                    "the worker that brings working to 0 returns true without notify_all: every "
                                    "sleeping worker sleeps forever", "%s (bb%d)" % (B.file, t))
                # after every wake-up both counters are re-read before any return
                rets = set(B.exits())
                for w in waits:
                    for (what, lds) in (("working", ldw), ("awakening", lda)):
                        lb = {x.block for x in lds if x.block in B.reachable_from_succ(w.block)}
                        r.instance("try_terminate:re-read-%s-after-wait" % what)
                        if rets & B.reachable_from_succ(w.block, avoid=lb | (waitb - {w.block})) or not lb:
                            r.violation(TERM + "::try_terminate:%s-not-re-read-after-wait" % what,
                                        "a path from the wake-up to a return does not re-read `%s`: a spurious or "
                                        "stale wake-up decides termination on old values" % what, w.where())
                # wait sits in a loop
                loops = B.natural_loops()
                for w in waits:
                    r.instance("try_terminate:wait-in-loop")
                    if not any(w.block in body for (_h, body) in loops):
                        r.violation(TERM + "::try_terminate:wait-not-in-loop",
                                    "the wait is not in a loop: a spurious wake-up with work outstanding falls "
                                    "through", w.where())
                # the resume exit (false) restores both counters after the wake-up
                falses = const_true_blocks(B, False)
                r.instance("try_terminate:resume-restores-counters", sample={"false_exits": len(falses)})
                for f in falses:
                    okw = any(s.block in B.reachable_from_succ(waits[0].block) and B.dominates(s.block, f) for s in stw)
                    oka = any(s.block in B.reachable_from_succ(waits[0].block) and B.dominates(s.block, f) for s in sta)
                    if not (okw and oka):
                        r.violation(TERM + "::try_terminate:resume-without-restoring-counters",
                                    "returning false (resume working) must set working+1 and awakening-1 together; "
                                    "otherwise the counts drift and termination is detected early or never",
                                    "%s (bb%d)" % (B.file, f))
    wu = c.mir.get(TERM + "::wake_up")
    if r.anchor(TERM + "::wake_up", wu):
        B = cfg.Body(wu)
        sta = counter_calls(B, "awakening", {"store", "fetch_add", "swap"})
        no = [x for x in B.calls if x.name and x.name.startswith("parking_lot::condvar::Condvar::notify")]
        r.anchor("wake_up: awakening store", sta)
        r.anchor("wake_up: notify", no)
        if sta and no:
            r.instance("wake_up:increment-before-notify")
            for n in no:
                if not any(B.dominates(s.block, n.block) for s in sta):
                    r.violation(TERM + "::wake_up:notify-before-increment",
                                "a sleeper is notified before `awakening` is incremented: it wakes, sees "
                                "awakening == 0 and goes back to sleep (or terminates) while work is pending",
                                n.where())
            scopes = guard_scopes(B)
            for n in no:
                if not any(n.block in h for (_l, h) in scopes):
                    r.violation(TERM + "::wake_up:notify-outside-lock", "notify outside the lock can be lost",
                                n.where())


def data_deps(B, op, seen=None):
    """backward data slice of an operand: set of tags 'load:<field>' (atomic loads of self.<field>) and
    'field:<name>' (plain reads of self.<name>)"""
    out = set()
    seen = seen if seen is not None else set()
    if op[0] == "k":
        return out
    local, proj = op[1]
    for pr in proj:
        if pr.startswith(".") and local == 1:
            out.add("field:" + pr[1:])
    if local in seen:
        return out
    seen.add(local)
    for blk in B.blocks:
        for st in blk["s"]:
            if st[0] == "a" and st[1][0] == local:
                rv = st[2]
                ops = []
                if rv[0] in ("use", "repeat"):
                    ops = [rv[1]]
                elif rv[0] == "cast":
                    ops = [rv[2]]
                elif rv[0] == "bin":
                    ops = [rv[2], rv[3]]
                elif rv[0] == "un":
                    ops = [rv[2]]
                elif rv[0] == "agg":
                    ops = rv[2]
                elif rv[0] in ("ref",):
                    ops = [["c", rv[2]]]
                elif rv[0] in ("discr", "rawptr"):
                    ops = [["c", rv[1]]]
                for o in ops:
                    out |= data_deps(B, o, seen)
        t = blk["t"]
        if t[0] == "call" and t[1]["d"][0] == local:
            fn = cfg.callee_of(t[1]["f"])
            name = cfg.callee_name(fn) or ""
            if name.startswith("core::sync::atomic::Atomic") and last(name) == "load" and t[1]["a"]:
                o = cfg.origin(B, t[1]["a"][0])
                pj = o[-1] if isinstance(o[-1], list) else []
                flds = [x[1:] for x in pj if x.startswith(".")]
                if flds:
                    out.add("load:" + flds[-1])
                    continue
            for a in t[1]["a"]:
                out |= data_deps(B, a, seen)
    return out


def controlling_deps(B, target, under=None):
    """union of the data dependences of every switch the block `target` is control-dependent on
    (optionally only switches dominated by block `under`)"""
    deps = set()
    ctrl = []
    for sb in range(B.n):
        t = B.blocks[sb]["t"]
        if t[0] != "switch" or sb == target or not B.dominates(sb, target):
            continue
        if under is not None and not B.dominates(under, sb):
            continue
        succs = B.succ[sb]
        reach = [target == x or target in B.reachable(x, avoid={sb}) for x in succs]
        if any(reach) and not all(reach):
            ctrl.append(sb)
            deps |= data_deps(B, t[1])
    return deps, ctrl


def rule_r5(chk, c):
    r = chk.rule("C12.R5", "the decisions of the termination protocol depend on the values they must depend on: "
                           "terminating (true) on both counters, resuming (false) on `awakening`, handing out a "
                           "wake-up token on working, awakening and total — all read under the lock (the invariant "
                           "the code asserts is working + awakening <= total)")
    tt = c.mir.get(TERM + "::try_terminate")
    if r.anchor(TERM + "::try_terminate", tt):
        B = cfg.Body(tt)
        lk = [x for x in B.calls if x.name == LOCK]
        under = lk[0].block if lk else None
        for t in const_true_blocks(B, True):
            if under is None or not B.dominates(under, t):
                continue     # the single-worker shortcut before the lock
            deps, ctrl = controlling_deps(B, t, under)
            r.instance("try_terminate:true@bb%d" % t, sample={"deps": sorted(deps)})
            if not {"load:working", "load:awakening"} <= deps:
                r.violation(TERM + "::try_terminate:true-exit-ignores-a-counter",
                            "a `return true` is decided without both `working` and `awakening` (deps: %s): a worker "
                            "can terminate while another is about to resume with published work" % sorted(deps),
                            "%s (bb%d)" % (B.file, t))
        for f in const_true_blocks(B, False):
            deps, ctrl = controlling_deps(B, f, under)
            r.instance("try_terminate:false@bb%d" % f, sample={"deps": sorted(deps)})
            if "load:awakening" not in deps:
                r.violation(TERM + "::try_terminate:false-exit-ignores-awakening",
                            "resuming work is decided without reading `awakening` (the wake-up tokens)",
                            "%s (bb%d)" % (B.file, f))
    wu = c.mir.get(TERM + "::wake_up")
    if r.anchor(TERM + "::wake_up", wu):
        B = cfg.Body(wu)
        lk = [x for x in B.calls if x.name == LOCK]
        sta = counter_calls(B, "awakening", {"store", "fetch_add", "swap"})
        if r.anchor("wake_up: lock", lk) and r.anchor("wake_up: awakening store", sta):
            for s in sta:
                deps, ctrl = controlling_deps(B, s.block, lk[0].block)
                r.instance("wake_up:token-guard", sample={"deps": sorted(deps), "switches": ctrl})
                need = {"load:working", "load:awakening", "field:total"}
                if not need <= deps:
                    r.violation(TERM + "::wake_up:token-guard-ignores-%s" % "+".join(
                        sorted(x.split(":")[1] for x in need - deps)),
                                "under the lock, a wake-up token (awakening += 1) is handed out without consulting %s: "
                                "a token can be issued when no un-notified sleeper exists (working + awakening == "
                                "total); nobody consumes it, `awakening` never returns to 0 and every worker sleeps "
                                "forever in try_terminate" % sorted(need - deps), s.where())
            # the loads feeding the guard are the ones taken under the lock
            for fld in ("working", "awakening"):
                lds = counter_calls(B, fld, {"load"})
                r.instance("wake_up:%s re-read under lock" % fld)
                if not any(B.dominates(lk[0].block, l.block) for l in lds):
                    r.violation(TERM + "::wake_up:%s-not-re-read-under-lock" % fld,
                                "the lock-free fast-path value of `%s` is reused under the lock (stale)" % fld,
                                lk[0].where())


def rule_r3(chk, c):
    r = chk.rule("C12.R3", "both parallel tasks offer to terminate only when pop() returned None; true leaves the "
                           "work loop, false re-enters it")
    tasks = [(RT + "gc::swiper::marking::MarkingTask::<'a>::run", "MarkingTask::<'a>::pop"),
             (RT + "gc::swiper::minor::CopyTask::<'a>::trace_gray_objects", "CopyTask::<'a>::pop")]
    found = 0
    for p, mb in c.mir.items():
        B = None
        for (tp, popname) in tasks:
            if p == tp:
                B = cfg.Body(mb)
                pn = popname
        if B is None:
            continue
        found += 1
        tts = B.calls_to("terminator::Terminator::try_terminate")
        pops = [x for x in B.calls if x.name and x.name.endswith(pn)]
        if not (r.anchor(p + ": try_terminate call", tts) and r.anchor(p + ": pop call", pops)):
            continue
        P = pops[0]
        # the switch on pop's discriminant
        d = P.dest[0]
        sw = None
        for i in B.reachable_from_succ(P.block):
            t = B.blocks[i]["t"]
            if t[0] == "switch" and t[1][0] in ("c", "m"):
                o = cfg.origin(B, t[1])
                if o[0] == "discr" and o[1][0] == d:
                    sw = (i, t)
                    break
        if not r.anchor(p + ": match on pop() result", sw):
            continue
        arms = dict((v, b) for v, b in sw[1][2])
        some_bb = arms.get(1, sw[1][3])
        none_bb = arms.get(0, sw[1][3])
        for T in tts:
            r.instance(p + ":try_terminate-only-after-empty-pop", sample={"fn": p, "at": T.where()})
            from_some = B.reachable(some_bb, avoid={P.block})
            from_none = B.reachable(none_bb, avoid={P.block})
            if T.block in from_some or T.block not in from_none:
                r.violation(p + ":try_terminate-not-guarded-by-empty-pop",
                            "the worker can offer termination while pop() just returned work (or without asking "
                            "pop()): it decrements `working` while holding a work item — another worker may see "
                            "working == 0 and end the phase early", T.where())
            # result: true must leave the loop (never reach pop again), false must re-enter
            rs = None
            for i in B.reachable_from_succ(T.block):
                t = B.blocks[i]["t"]
                if t[0] == "switch" and t[1][0] in ("c", "m") and t[1][1][0] == T.dest[0]:
                    rs = t
                    break
            if not r.anchor(p + ": branch on try_terminate()", rs):
                continue
            false_bb = dict((v, b) for v, b in rs[2]).get(0)
            true_bb = rs[3]
            r.instance(p + ":true-leaves-false-reenters")
            if false_bb is None or P.block not in B.reachable(false_bb):
                r.violation(p + ":false-does-not-re-enter-loop",
                            "try_terminate() == false (woken up: work was published) must look for work again",
                            T.where())
            if P.block in B.reachable(true_bb):
                r.violation(p + ":true-does-not-leave-loop",
                            "try_terminate() == true must end the worker; re-entering the loop after everybody "
                            "terminated spins forever on empty pools / double-decrements", T.where())
    r.floor("parallel tasks", found, 2)


def rule_r4(chk, F, c):
    r = chk.rule("C12.R4", "every pool a task publishes work to is examined on the path of pop(); the two sibling "
                           "tasks agree")
    cg = CallGraph(F, libs=["dora_runtime"], bins=[])
    tasks = {"MarkingTask": RT + "gc::swiper::marking::MarkingTask", "CopyTask": RT + "gc::swiper::minor::CopyTask"}
    res = {}
    for name, ty in tasks.items():
        pushed, popped = {}, {}
        popfn = [p for p in cg.bodies if p.startswith(ty + "::<'a>::pop") and p.endswith("::pop")]
        if not r.anchor("%s::pop" % name, popfn):
            continue
        reach = cg.reachable_from(popfn, stop=lambda x: not x.startswith(ty))
        for p, b in c.hir.items():
            if not p.startswith(ty + "::"):
                continue
            for cs in hirq.calls(b["body"]):
                if not cs.is_method or cs.recv is None:
                    continue
                rc = hirq.strip(cs.recv)
                # self.<pool>.push / self.<pool>[i].steal…
                if hirq.is_node(rc) and rc[0] == "index":
                    rc = hirq.strip(rc[1])
                if not (hirq.is_node(rc) and rc[0] == "field" and hirq.local_name(rc[1]) == "self"):
                    continue
                fld = rc[2]
                if cs.name == "push" and fld in ("local", "worker", "injector"):
                    pushed.setdefault(fld, p)
        for p in reach:
            if not p.startswith(ty + "::"):
                continue
            b = c.hir.get(p)
            srcs = [b] if b else []
            # closures are inlined in the HIR of their parent
            for b in srcs:
                for cs in hirq.calls(b["body"]):
                    if not cs.is_method or cs.recv is None:
                        continue
                    rc = hirq.strip(cs.recv)
                    if hirq.is_node(rc) and rc[0] == "local":
                        # let stealer = &self.stealers[i]
                        for n in hirq.walk(b["body"]):
                            if n[0] == "let" and hirq.is_node(n[1]) and n[1][0] == "pbind" and n[1][1] == rc[1] \
                                    and n[2] is not None:
                                rc = hirq.strip(n[2])
                    if hirq.is_node(rc) and rc[0] == "index":
                        rc = hirq.strip(rc[1])
                    if hirq.is_node(rc) and rc[0] == "field" and hirq.local_name(rc[1]) == "self":
                        if cs.name in ("pop", "steal", "steal_batch_and_pop", "steal_batch"):
                            popped.setdefault(rc[2], p)
        res[name] = (pushed, popped)
        for fld, where in sorted(pushed.items()):
            key = "%s:pool:%s" % (name, fld)
            r.instance(key, sample={"task": name, "pool": fld, "published_in": where, "popped_in": popped.get(fld)})
            if fld not in popped:
                r.violation(key, "%s publishes work to `%s` (%s) but pop() never looks at it: items left there are "
                                 "never processed while every worker reports empty and terminates" % (name, fld, where),
                            where)
        # the examination must not be skippable: on the call path pop() → … → <function that pops the pool> every
        # function reaches the next hop on all of its paths (Option::or_else's closure runs exactly when the earlier
        # steps found nothing, which is the intended short-circuit)
        for fld, where in sorted(pushed.items()):
            tgt = popped.get(fld)
            if tgt is None or tgt in popfn:
                continue
            back = cg.callers_closure([tgt], stop=lambda x: not x.startswith(ty))
            on_path = [f for f in reach | set(popfn) if f in back and f != tgt and f.startswith(ty + "::")]
            for f in sorted(on_path):
                B = cg.body(f)
                if B is None:
                    continue
                hops = []
                for call in B.calls:
                    tg = [t for (t, k) in cg.targets(call.fn)] if call.fn else []
                    if any(t == tgt or t in back for t in tg):
                        hops.append(call)
                # closure creation sites count as hops too (the closure is handed to a combinator in the same block)
                for bi, blk in enumerate(B.blocks):
                    for st in blk["s"]:
                        if st[0] == "a" and st[2][0] == "agg" and st[2][1][0] == "closure" and (
                                st[2][1][1] == tgt or st[2][1][1] in back):
                            hops.append(type("H", (), {"block": bi, "line": st[3]})())
                if not hops:
                    continue
                key = "%s:pool:%s:via:%s" % (name, fld, last(f) if "{closure" not in f else f.split("::")[-2] + "::" + last(f))
                ok = any(B.postdominates(h.block, 0) for h in hops)
                r.instance(key, sample={"fn": f, "pool": fld, "unconditional": ok})
                if not ok:
                    r.violation(key + ":examination-skippable",
                                "%s publishes work to `%s`, but on the way from pop() to the code that takes work back "
                                "out of it, `%s` can return without getting there (a condition guards the look-up): "
                                "under that condition items stay in the pool while pop() reports empty, the worker "
                                "offers termination and the phase ends with unprocessed work" % (name, fld, last(f)),
                                "%s:%d" % (B.file, hops[0].line))
        if "worker" in pushed:
            r.instance("%s:pool:stealers" % name)
            if "stealers" not in popped:
                r.violation("%s:pool:stealers" % name,
                            "work pushed to a worker's own deque is visible to others only through `stealers`; pop() "
                            "does not steal, so an idle worker terminates while a busy one still holds shareable work",
                            popped.get("worker") or name)
    if len(res) == 2:
        a, b = res["MarkingTask"], res["CopyTask"]
        r.instance("siblings-agree", sample={"marking": sorted(a[1]), "copy": sorted(b[1])})
        if set(a[1]) != set(b[1]):
            r.violation("siblings:popped-pools-differ",
                        "MarkingTask pops %s, CopyTask pops %s" % (sorted(a[1]), sorted(b[1])), "")
    r.floor("tasks analysed", len(res), 2)


def run(chk, F):
    c = F.crate("dora_runtime")
    rule_r1(chk, c)
    rule_r2(chk, c)
    rule_r3(chk, c)
    rule_r4(chk, F, c)
    rule_r5(chk, c)
    chk.assumptions += [
        "decides the locking/ordering discipline the termination detector relies on, not absence of early/late "
        "termination over all interleavings",
        "crossbeam-deque (Worker/Stealer/Injector) is trusted",
    ]

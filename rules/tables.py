"""Inverse table pairs and generated numbering tables (C02.R5 engine, used by C18.R2 and others).

An *inverse table pair* is two hand-written `match` tables that convert an enum to a number and back:

    encode:  fn f(v: Enum) -> u8   { match v { Enum::A => CONST_A, Enum::B => 1, .. } }
    decode:  fn g(x: u8) -> ..Enum { match x { CONST_A => Enum::A | Ok(Enum::A) | Some(Enum::A), .., _ => Err/None/panic } }

The rule decided for such a pair (all from HIR facts, nothing is executed):
  * every encoder arm evaluates to a resolvable integer (literal or named const, consts may live in other crates),
  * the encoder is injective (no two variants share a number),
  * the decoder patterns are pairwise distinct,
  * for every variant v the encoder can produce: the decoder has an arm for encode(v) and that arm yields v
    (decode(encode(v)) == v, arm by arm),
  * (if the enum ADT is known) every variant of the enum has an encoder arm.
Decoder arms for numbers the encoder never produces are only observed.

Public API
----------
find_conversion_fns(c, enum_path)
    -> {'encode': [fn paths], 'decode': [fn paths]}: the From/Into/TryFrom impl methods of crate `c` that convert
    `enum_path` to an integer type or an integer type to it (found through items facts, no naming convention).
encode_table(c, fn_path, const_crates=None)  -> Table   (entries: variant path -> (const name|None, value))
decode_table(c, fn_path, const_crates=None)  -> Table   (entries: value -> (const name|None, variant path))
discriminant_table(c, enum_path)             -> Table   (the implicit `as u8` encoder: explicit/implicit discriminants)
check_inverse_pair(rule, crate_facts, encode_fn_path, decode_fn_path, label, const_crates=None, enum_path=None,
                   decode_crate=None, floor=None)
    -> summary dict {'enc': {variant_name: value}, 'dec': {value: variant_name},
                     'enc_const': {variant_name: const_name|None}, 'dec_const': {value: const_name|None}} or None.
    `encode_fn_path` may be "discr:<enum path>" to use the enum's discriminants as the encoder.
    `const_crates`: list of CrateFacts searched for named constants (default: [crate_facts]).
    `decode_crate`: CrateFacts holding the decoder when it is not in `crate_facts`.
    Violations are keyed "<label>:<variant>:<what>"; one rule instance per encoder arm.
check_encode_table(rule, crate_facts, encode_fn_path, label, const_crates=None, enum_path=None, floor=None)
    one-sided variant (an encoder without a Rust decoder): total + injective + resolvable.  Returns the same summary.
check_generated_numbering(rule, label, sections, consts, side)
    `sections`: ordered {section name: [variant names]} (from tools/bytecode.toml); `consts`: ordered list of
    (name, value) as declared on one language side.  Position = value: the i-th constant of a section has value i and
    names variant i.  Returns {section: [(const name, value)]}.
"""
import hirq
from hirq import def_path, is_node, last

INT_TYPES = {"u8", "u16", "u32", "u64", "usize", "i8", "i16", "i32", "i64", "isize", "u128", "i128"}


class Table:
    """One direction of a table pair.  `rows`: list of dicts (variant, cname, value, where); `problems`: list of
    (key, message); `default`: how the wildcard arm behaves ('err', 'none', 'panic', 'value', 'variant', None)."""

    def __init__(self, path):
        self.path = path
        self.rows = []
        self.problems = []
        self.default = None
        self.found = False
        self.file = None
        self.line = None

    def where(self):
        return "%s:%s" % (self.file, self.line) if self.file else self.path


# ---------------------------------------------------------------------------------------------- constants

def _const_index(crates):
    idx = {}
    for c in crates:
        for k in c.items.get("consts", []):
            idx.setdefault(k["path"], k)
    return idx


def resolve_value(e, cidx):
    """HIR expression or pattern -> (const name|None, int value), or None when it is not a resolvable integer."""
    e = hirq.strip(e)
    if not is_node(e):
        return None
    k = e[0]
    if k == "cast":
        return resolve_value(e[1], cidx)
    if k == "lit":
        if e[1] == "int" and isinstance(e[2], int):
            return (None, e[2])
        return None
    if k == "un" and e[1] == "Neg":
        r = resolve_value(e[2], cidx)
        return (r[0], -r[1]) if r else None
    if k == "ppath":
        return resolve_value(e[1], cidx)
    if k == "def":
        info = cidx.get(e[2])
        if info is not None and isinstance(info.get("value"), int) and not isinstance(info.get("value"), bool):
            return (last(e[2]), info["value"])
        return None
    if k == "block" and e[2] is not None and not e[1]:
        return resolve_value(e[2], cidx)
    return None


# ---------------------------------------------------------------------------------------------- extraction

def _fn(c, path):
    b = c.hir.get(path)
    if b is None:
        b = c.hir_fn(path)
    return b


def _param_names(b):
    out = set()
    for (pat, _ty) in b["params"]:
        if is_node(pat) and pat[0] == "pbind":
            out.add(pat[1])
    return out


def _table_match(b):
    """the match whose scrutinee is (a deref/copy of) a parameter; else the first match of the body"""
    params = _param_names(b)
    first = None
    for n in hirq.walk(b["body"], enter_closures=False):
        if n[0] != "match" or (len(n) > 3 and isinstance(n[3], str) and n[3] != "Normal"):
            continue
        if first is None:
            first = n
        if hirq.local_name(n[1]) in params:
            return n
    return first


def _is_variant_def(e):
    e = hirq.strip(e)
    return is_node(e) and e[0] == "def" and e[1] in ("ctor", "variant")


def _unwrap_result(e):
    """Ok(x) / Some(x) / return x / { x } -> x"""
    while True:
        e = hirq.strip(e)
        if not is_node(e):
            return e
        if e[0] == "ret" and e[1] is not None:
            e = e[1]
            continue
        if e[0] == "block" and e[2] is not None:
            e = e[2]
            continue
        if e[0] == "call" and len(e[3]) == 1:
            d = def_path(e[2])
            if d and (d.endswith("Result::Ok") or d.endswith("Option::Some")):
                e = e[3][0]
                continue
        return e


def _variant_of(e):
    """expression constructing an enum variant -> variant path"""
    e = _unwrap_result(e)
    if not is_node(e):
        return None
    if _is_variant_def(e):
        return e[2]
    if e[0] == "call" and _is_variant_def(e[2]):
        return hirq.strip(e[2])[2]
    if e[0] == "struct":
        return def_path(e[1])
    return None


def _default_kind(body, cidx):
    if hirq.is_panic_body(body):
        return "panic"
    e = hirq.strip(body)
    while is_node(e) and e[0] == "ret" and e[1] is not None:
        e = hirq.strip(e[1])
    if is_node(e) and e[0] == "macro":
        return "panic" if hirq.is_panic_body(e) else None
    if is_node(e) and e[0] == "call":
        d = def_path(e[2]) or ""
        if d.endswith("Result::Err"):
            return "err"
        if d.startswith("core::panicking") or d.startswith("std::rt::begin_panic"):
            return "panic"
    if is_node(e) and e[0] == "def" and e[2].endswith("Option::None"):
        return "none"
    for n in hirq.walk(body):
        if n[0] == "call" and (def_path(n[2]) or "").startswith("core::panicking"):
            return "panic"
    if resolve_value(body, cidx) is not None:
        return "value"
    if _variant_of(body) is not None:
        return "variant"
    return None


def encode_table(c, fn_path, const_crates=None):
    """`match v { Enum::A => CONST_OR_LIT, .. }` -> Table with rows variant -> value."""
    cidx = _const_index(const_crates or [c])
    t = Table(fn_path)
    b = _fn(c, fn_path)
    if b is None:
        return t
    t.file, t.line = b.get("file"), b.get("line")
    m = _table_match(b)
    if m is None:
        return t
    t.found = True
    for (pat, guard, body) in hirq.match_arms(m):
        vs = [p for p in hirq.pat_paths(pat)]
        if guard is not None:
            t.problems.append(("guard", "encoder arm %s has a guard: not a table" % ", ".join(map(last, vs))))
            continue
        if not vs:
            if hirq.pat_is_wild(pat):
                t.default = _default_kind(body, cidx)
                if t.default == "value":
                    t.rows.append({"variant": "_", "cname": resolve_value(body, cidx)[0],
                                   "value": resolve_value(body, cidx)[1]})
            else:
                t.problems.append(("pattern", "encoder arm with an unrecognised pattern"))
            continue
        if hirq.is_panic_body(body):
            for v in vs:
                t.rows.append({"variant": v, "cname": None, "value": None, "panics": True})
            continue
        r = resolve_value(body, cidx)
        for v in vs:
            if r is None:
                t.problems.append(("%s:unresolved-constant" % last(v),
                                   "encoder arm %s => %s is not a literal or a constant with a known value"
                                   % (last(v), hirq.render(body))))
            else:
                t.rows.append({"variant": v, "cname": r[0], "value": r[1]})
    return t


def discriminant_table(c, enum_path):
    """the implicit encoder `v as uN`: discriminants from items facts"""
    t = Table("discr:" + enum_path)
    a = c.adt(enum_path)
    if a is None or a.get("kind") != "enum":
        return t
    t.found = True
    t.file, t.line = a.get("file"), a.get("line")
    for v in a["variants"]:
        if v.get("discr") is None:
            t.problems.append(("%s:no-discriminant" % v["name"], "variant %s has no discriminant fact" % v["name"]))
            continue
        t.rows.append({"variant": a["path"] + "::" + v["name"], "cname": None, "value": v["discr"]})
    return t


def _pat_values(pat, cidx):
    """pattern -> list of (cname, value) or None if any alternative is not a constant"""
    pat = hirq.unmacro(pat)
    if not is_node(pat):
        return None
    if pat[0] == "por":
        out = []
        for q in pat[1]:
            r = _pat_values(q, cidx)
            if r is None:
                return None
            out += r
        return out
    if pat[0] == "pbind" and pat[2] is not None:
        return _pat_values(pat[2], cidx)
    r = resolve_value(pat, cidx)
    return [r] if r is not None else None


def decode_table(c, fn_path, const_crates=None):
    """`match x { CONST_OR_LIT => Enum::A / Ok(Enum::A) / Some(Enum::A), _ => .. }` -> Table with rows value -> variant."""
    cidx = _const_index(const_crates or [c])
    t = Table(fn_path)
    b = _fn(c, fn_path)
    if b is None:
        return t
    t.file, t.line = b.get("file"), b.get("line")
    m = _table_match(b)
    if m is None:
        return t
    t.found = True
    for (pat, guard, body) in hirq.match_arms(m):
        if guard is not None:
            t.problems.append(("guard", "decoder arm has a guard: not a table"))
            continue
        if hirq.pat_is_wild(pat):
            t.default = _default_kind(body, cidx)
            if t.default == "variant":
                t.rows.append({"variant": _variant_of(body), "cname": None, "value": "_"})
            continue
        vals = _pat_values(pat, cidx)
        if vals is None:
            t.problems.append(("pattern", "decoder pattern %s is not a literal or a constant with a known value"
                               % hirq.render(pat if pat[0] != "ppath" else pat[1])))
            continue
        if hirq.is_panic_body(body) or _default_kind(body, cidx) in ("err", "none", "panic"):
            for (cn, v) in vals:
                t.rows.append({"variant": None, "cname": cn, "value": v, "rejects": True})
            continue
        var = _variant_of(body)
        for (cn, v) in vals:
            if var is None:
                t.problems.append(("%s:no-variant" % (cn or v), "decoder arm %s does not construct an enum variant"
                                   % (cn or v)))
            else:
                t.rows.append({"variant": var, "cname": cn, "value": v})
    return t


def find_conversion_fns(c, enum_path):
    """From/Into/TryFrom impl methods converting enum_path <-> an integer type (by signature, from items facts)."""
    out = {"encode": [], "decode": []}
    a = c.adt(enum_path)
    full = a["path"] if a else enum_path
    for f in c.items["fns"]:
        if f.get("container") != "impl" or not f.get("trait"):
            continue
        tr = f["trait"]
        if not (tr.startswith("core::convert::From") or tr.startswith("core::convert::TryFrom")
                or tr.startswith("core::convert::Into") or tr.startswith("core::convert::TryInto")):
            continue
        ins = f.get("inputs") or []
        if len(ins) != 1:
            continue
        i0 = ins[0].lstrip("&").strip()
        outp = f.get("output") or ""
        if i0 == full and outp in INT_TYPES:
            out["encode"].append(f["path"])
        elif i0 in INT_TYPES and (outp == full or ("<" + full + ",") in outp or ("<" + full + ">") in outp):
            out["decode"].append(f["path"])
    return out


# ---------------------------------------------------------------------------------------------- checks

def _vname(v):
    return last(v) if v else "?"


def _check_encoder(rule, label, enc, c, enum_path):
    """shared by both checks: totality + injectivity + problems.  Returns {variant name: row}."""
    for (key, msg) in enc.problems:
        rule.violation("%s:%s" % (label, key), msg, enc.where())
    by_value = {}
    rows = {}
    for r in enc.rows:
        if r.get("panics"):
            rule.observe("%s: encoder panics for %s (not encodable)" % (label, _vname(r["variant"])))
            continue
        rows[_vname(r["variant"])] = r
        by_value.setdefault(r["value"], []).append(r)
    for v, rs in sorted(by_value.items(), key=lambda kv: str(kv[0])):
        if len(rs) > 1:
            names = sorted(_vname(r["variant"]) for r in rs)
            for n in names[1:]:
                rule.violation("%s:%s:encode-collision" % (label, n),
                               "%s and %s both encode to %s: the decoder cannot tell them apart"
                               % (names[0], n, v), enc.where())
    if enum_path:
        a = c.adt(enum_path)
        if a is None:
            rule.anchor("%s:enum %s" % (label, enum_path), None)
        else:
            have = set(rows)
            for var in a["variants"]:
                if var["name"] not in have and not any(_vname(r["variant"]) == var["name"] for r in enc.rows):
                    if enc.default in ("panic",):
                        rule.observe("%s: %s has no encoder arm (wildcard panics)" % (label, var["name"]))
                    elif enc.default == "value":
                        rule.violation("%s:%s:encode-collision" % (label, var["name"]),
                                       "%s is encoded by the encoder's wildcard arm and shares its number"
                                       % var["name"], enc.where())
                    else:
                        rule.violation("%s:%s:not-encoded" % (label, var["name"]),
                                       "enum variant %s has no arm in the encoder table" % var["name"], enc.where())
    return rows


def _summary(rows, dec_rows):
    return {"enc": {n: r["value"] for n, r in rows.items()},
            "enc_const": {n: r["cname"] for n, r in rows.items()},
            "dec": {r["value"]: _vname(r["variant"]) for r in dec_rows if r.get("variant") and r["value"] != "_"},
            "dec_const": {r["value"]: r["cname"] for r in dec_rows if r["value"] != "_"}}


def _load_encoder(c, encode_fn_path, const_crates):
    if isinstance(encode_fn_path, str) and encode_fn_path.startswith("discr:"):
        return discriminant_table(c, encode_fn_path[len("discr:"):])
    return encode_table(c, encode_fn_path, const_crates)


def check_encode_table(rule, crate_facts, encode_fn_path, label, const_crates=None, enum_path=None, floor=None):
    """One-sided table: total, injective, every arm a resolvable integer."""
    c = crate_facts
    enc = _load_encoder(c, encode_fn_path, const_crates or [c])
    if not rule.anchor("%s:encoder %s" % (label, encode_fn_path), enc.found):
        return None
    rows = _check_encoder(rule, label, enc, c, enum_path)
    for n, r in sorted(rows.items()):
        rule.instance("%s:%s" % (label, n), nontrivial=True,
                      sample={"table": label, "variant": n, "const": r["cname"], "value": r["value"]})
    if floor is not None:
        rule.floor("%s encoder arms" % label, len(rows), floor)
    return _summary(rows, [])


def check_inverse_pair(rule, crate_facts, encode_fn_path, decode_fn_path, label, const_crates=None, enum_path=None,
                       decode_crate=None, floor=None):
    """See module docstring.  Reports into `rule`; returns the composed summary or None when an anchor is missing."""
    c = crate_facts
    dc = decode_crate or c
    crates = const_crates or ([c] if dc is c else [c, dc])
    enc = _load_encoder(c, encode_fn_path, crates)
    dec = decode_table(dc, decode_fn_path, crates)
    ok = rule.anchor("%s:encoder %s" % (label, encode_fn_path), enc.found)
    ok = rule.anchor("%s:decoder %s" % (label, decode_fn_path), dec.found) and ok
    if not ok:
        return None
    rows = _check_encoder(rule, label, enc, c, enum_path)
    for (key, msg) in dec.problems:
        rule.violation("%s:%s" % (label, key), msg, dec.where())
    # decoder patterns pairwise distinct
    dec_by_value = {}
    for r in dec.rows:
        if r["value"] == "_":
            continue
        if r["value"] in dec_by_value:
            a, b = dec_by_value[r["value"]], r
            rule.violation("%s:%s:duplicate-decoder-constant" % (label, r["cname"] or r["value"]),
                           "decoder has two arms for %s (%s and %s): the second is unreachable"
                           % (r["value"], a["cname"] or a["value"], b["cname"] or b["value"]), dec.where())
            continue
        dec_by_value[r["value"]] = r
    # decode(encode(v)) == v
    for n, r in sorted(rows.items()):
        d = dec_by_value.get(r["value"])
        key = "%s:%s" % (label, n)
        rule.instance(key, nontrivial=True, sample={"table": label, "variant": n, "const": r["cname"],
                                                     "value": r["value"],
                                                     "decodes_to": _vname(d["variant"]) if d and d.get("variant") else None})
        if d is None:
            how = {"err": "returns Err", "none": "returns None", "panic": "panics",
                   "variant": "falls into the default variant"}.get(dec.default, "takes the wildcard arm")
            rule.violation("%s:no-decoder-arm" % key,
                           "encode(%s) = %s%s but the decoder has no arm for %s and %s"
                           % (n, r["value"], (" (%s)" % r["cname"]) if r["cname"] else "", r["value"], how),
                           dec.where())
        elif d.get("rejects"):
            rule.violation("%s:decoder-rejects" % key,
                           "encode(%s) = %s but the decoder arm for %s rejects it" % (n, r["value"], r["value"]),
                           dec.where())
        elif _vname(d["variant"]) != n:       # by name: mirror enums in two crates pair by variant name
            rule.violation("%s:decodes-to-%s" % (key, _vname(d["variant"])),
                           "encode(%s) = %s%s but decode(%s) = %s: the value does not survive the round trip"
                           % (n, r["value"], (" (%s)" % r["cname"]) if r["cname"] else "", r["value"],
                              _vname(d["variant"])), dec.where())
    produced = {r["value"] for r in rows.values()}
    extra = [r for v, r in dec_by_value.items() if v not in produced and not r.get("rejects")]
    for r in extra[:8]:
        rule.observe("%s: decoder accepts %s -> %s which the encoder never produces"
                     % (label, r["cname"] or r["value"], _vname(r["variant"])))
    if floor is not None:
        rule.floor("%s encoder arms" % label, len(rows), floor)
        rule.floor("%s decoder arms" % label, len(dec_by_value), floor)
    return _summary(rows, dec.rows)


def _parent(p):
    return p.rsplit("::", 1)[0] if p and "::" in p else p


# ---------------------------------------------------------------------------------------------- generated numbering

def _norm(s):
    return s.replace("_", "").upper()


def check_generated_numbering(rule, label, sections, consts, side):
    """Position = value.  `sections`: ordered {name: [variants]}; `consts`: ordered [(name, value)] of one side.

    Constants are attributed to the section whose name is the longest case/underscore-insensitive prefix of the
    constant's name (the generator writes <SECTION>_<VARIANT> in screaming snake case; only concatenation is assumed,
    not where the underscores go).  Within a section, in declaration order, constant i must have value i and name
    variant i; the counts must agree.  Returns {section: [(const name, value)]}."""
    snames = sorted(sections, key=lambda s: -len(_norm(s)))
    per = {s: [] for s in sections}
    for (name, value) in consts:
        n = _norm(name)
        for s in snames:
            if n.startswith(_norm(s)):
                per[s].append((name, value))
                break
    for s, variants in sections.items():
        got = per[s]
        key = "%s:%s:%s" % (label, side, s)
        if len(got) != len(variants):
            rule.violation("%s:count" % key,
                           "%s declares %d variants but the %s side has %d %s constants"
                           % (s, len(variants), side, len(got), s), None)
        for i, v in enumerate(variants):
            ikey = "%s:%s" % (key, v)
            if i >= len(got):
                rule.instance(ikey, nontrivial=True)
                rule.violation("%s:missing" % ikey, "%s::%s (position %d) has no constant on the %s side"
                               % (s, v, i, side), None)
                continue
            (cname, cval) = got[i]
            rule.instance(ikey, nontrivial=True, sample={"section": s, "variant": v, "position": i, "side": side,
                                                         "const": cname, "value": cval})
            if cval != i:
                rule.violation("%s:value" % ikey,
                               "%s::%s is at position %d of tools/bytecode.toml but %s constant %s = %s"
                               % (s, v, i, side, cname, cval), None)
            if _norm(cname) != _norm(s) + _norm(v):
                rule.violation("%s:name" % ikey,
                               "position %d of %s is %s but the %s side declares %s there"
                               % (i, s, v, side, cname), None)
    return per

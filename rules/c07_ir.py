"""c07_ir — a small common "emit-IR" for the two x86-64 assemblers and a symbolic path evaluator.

Front ends:  Rust HIR s-expressions (rsfacts)  →  IR      (rs_*)
             Dora syntax trees (dorafacts)     →  IR      (dr_*)
Evaluator:   runs one method on symbolic operands, inlining every helper down to the buffer primitives
             (self.buffer.emit_*/patch_*/position/size) and enumerating the syntactic paths (one fork per
             non-constant `if`/`match`).  Nothing of /repo is executed: the evaluator only rewrites expressions.

A path = (events, facts).  events:
    ('emit', width, value, inloop, via)      value: see "values" below
    ('jumprec', kind, posvalue, via)         push onto the unresolved-jump table (kind 'Near'/'Far')
    ('patch', width, posvalue, value)        buffer.patch_*(pos, value)
    ('setpos', value)
    ('store', target, value)                 assignment to a field of self (Address::set_modrm / set_sib)
    ('acall', name, [values])                method call on an Address under construction (Address::offset ...)
    ('assert', boolexpr)
facts: [(boolexpr, polarity)] — the branch conditions taken.

values:
    ('c', n)                       constant int / bool
    ('reg', P, ty)                 register operand P of the analysed method;  ('kreg', NAME, n|None, ty) constant register
    ('addr', A)                    Address operand A
    ('bits', const, terms)         OR/ADD of const and (shift, atom) terms;  atoms:
                                   ('lo',P) low 3 bits  ('val',P) 4-bit number  ('nval',P) inverted 4-bit number
                                   ('b', boolexpr) one bit   ('arex',A) the Address' rex byte   ('arexm',A,mask)
                                   ('ab',A,i) i-th encoded byte of A (i may be ('from',k) inside a loop)
                                   ('opq',desc) anything else
    ('bool', boolexpr)             boolexpr: ('hi',P) | ('or',[..]) | ('and',[..]) | ('not',e) | ('cmp',op,atom,k)
                                   | ('eqk',P,NAME) | ('arexnz',A) | ('arexbit',A,k) | ('eqpath',desc,path) | ('pred',..)
    ('lin', base, k, frozen)       opaque-or-position + constant k;  base ('pos', bytes_emitted_so_far) for buffer position reads
    ('opq', desc)                  opaque
"""
import re

import doraq
import hirq

# widths of the buffer primitives, by name suffix (AssemblerBuffer API in dora-asm/src/lib.rs and
# pkgs/boots/assembler.dora; the name states the width)
PRIM_WIDTH = {"u8": 1, "byte": 1, "uint8": 1, "u32": 4, "int32": 4, "u64": 8, "int64": 8, "u128": 16}
# value-preserving conversions (casts spelled as methods)
CONVERSIONS = {"try_into", "unwrap", "into", "clone", "to_int32", "to_int64", "to_uint8", "to_uint32", "to_usize",
               "expect"}
POSITION_READS = {"position", "size"}    # buffer API: current end of the code buffer


class Unsupported(Exception):
    pass


class _Ret(Exception):
    def __init__(self, v):
        self.v = v


class _Break(Exception):
    pass


class _Panic(Exception):
    pass


# ---------------------------------------------------------------------------------------------------------
# Rust front end
# ---------------------------------------------------------------------------------------------------------
RS_BIN = {"Add": "add", "Sub": "sub", "Shl": "shl", "Shr": "shr", "BitOr": "bor", "BitAnd": "band", "BitXor": "bxor",
          "Eq": "eq", "Ne": "ne", "Lt": "lt", "Le": "le", "Gt": "gt", "Ge": "ge", "And": "and", "Or": "or",
          "Mul": "mul", "Rem": "rem", "Div": "div"}


def rs_pat(p):
    if not hirq.is_node(p):
        return ("wild",)
    k = p[0]
    if k == "pbind":
        return ("bind", p[1]) if p[2] is None else rs_pat(p[2])
    if k == "pwild":
        return ("wild",)
    if k == "ppath":
        return ("ppath", hirq.def_path(p) or "?")
    if k == "lit":
        return ("plit", p[2])
    if k == "por":
        return ("por", [rs_pat(q) for q in p[1]])
    if k == "pts":
        return ("pts", hirq.def_path(p[1]) or "?", [rs_pat(q) for q in p[2]])
    if k == "pstruct":
        return ("pts", hirq.def_path(p[1]) or "?", [rs_pat(q[1]) for q in p[2]])
    if k == "pref":
        return rs_pat(p[1])
    if k == "ptuple":
        return ("ptuple", [rs_pat(q) for q in p[1]])
    return ("wild",)


def _rs_assert(name, inner):
    n3 = _rs_assert3(name, inner)
    return n3 + (name.rstrip("!").split("::")[-1].startswith("debug_"),)


def _rs_assert3(name, inner):
    nm = name.rstrip("!").split("::")[-1]
    if nm in ("assert_eq", "assert_ne", "debug_assert_eq", "debug_assert_ne"):
        for n in hirq.walk(inner):
            if n[0] == "match" and hirq.is_node(n[1]) and n[1][0] == "tup" and len(n[1][1]) == 2:
                a, b = n[1][1]
                return ("assert", ("bin", "eq" if nm.endswith("eq") else "ne", rs(a), rs(b)))
        return ("assert", ("opq", "assert"))
    for n in hirq.walk(inner):
        if n[0] == "if" and hirq.is_node(n[1]) and n[1][0] == "un" and n[1][1] == "Not":
            return ("assert", rs(n[1][2]))
    return ("assert", ("opq", "assert"))


def _rs_for(inner):
    it = None
    for n in hirq.walk(inner):
        if n[0] == "call" and (hirq.def_path(n[2]) or "").endswith("IntoIterator::into_iter") and n[3]:
            it = n[3][0]
            break
    for n in hirq.walk(inner):
        if n[0] == "match" and len(n) > 3 and n[3] == "ForLoopDesugar":
            for (pat, _g, body) in hirq.match_arms(n):
                if hirq.is_node(pat) and pat[0] in ("pstruct", "pts") and (hirq.def_path(pat[1]) or "").endswith("::Some"):
                    sub = pat[2][0]
                    sub = sub[1] if pat[0] == "pstruct" else sub
                    return ("for", rs_pat(sub), rs(it) if it is not None else ("opq", "iter"), rs(body))
    return ("opq", "for")


def rs(e):
    if e is None:
        return ("unit",)
    if not hirq.is_node(e):
        return ("opq", "raw")
    k = e[0]
    if k == "lit":
        if e[1] == "int":
            return ("int", e[2])
        if e[1] == "bool":
            return ("bool", e[2])
        return ("opq", "lit")
    if k == "local":
        return ("var", e[1])
    if k == "def":
        return ("path", e[2])
    if k == "call":
        c = e[2]
        if hirq.is_node(c) and c[0] == "def":
            return ("call", c[2], [rs(a) for a in e[3]], e[1])
        return ("opq", "indirect-call")
    if k == "mcall":
        return ("mcall", e[3], rs(e[4]), [rs(a) for a in e[5]], e[2], e[1])
    if k == "bin":
        return ("bin", RS_BIN.get(e[1], e[1]), rs(e[2]), rs(e[3]))
    if k == "un":
        if e[1] == "Deref":
            return rs(e[2])
        return ("un", "not" if e[1] == "Not" else "neg", rs(e[2]))
    if k == "cast":
        return rs(e[1])
    if k == "field":
        return ("field", rs(e[1]), e[2])
    if k == "index":
        return ("index", rs(e[1]), rs(e[2]))
    if k == "addr":
        return rs(e[2])
    if k == "tup":
        return ("tuple", [rs(a) for a in e[1]])
    if k == "if":
        c = e[1]
        if hirq.is_node(c) and c[0] == "letx":
            return ("iflet", rs_pat(c[1]), rs(c[2]), rs(e[2]), rs(e[3]) if e[3] is not None else None)
        return ("if", rs(c), rs(e[2]), rs(e[3]) if e[3] is not None else None)
    if k == "match":
        return ("match", rs(e[1]), [(rs_pat(a[0]), rs(a[2])) for a in e[2]])
    if k == "block":
        return ("block", [rs(s) for s in e[1]], rs(e[2]) if e[2] is not None else None)
    if k == "let":
        return ("let", rs_pat(e[1]), rs(e[2]) if e[2] is not None else None)
    if k == "assign":
        return ("assign", rs(e[1]), rs(e[2]))
    if k == "assignop":
        l = rs(e[2])
        op = e[1][:-len("Assign")] if e[1].endswith("Assign") else e[1]
        return ("assign", l, ("bin", RS_BIN.get(op, op), l, rs(e[3])))
    if k == "loop":
        return ("loop", rs(e[2]))
    if k in ("break", "continue"):
        return ("break",)
    if k == "ret":
        return ("ret", rs(e[1]) if e[1] is not None else None)
    if k == "struct":
        return ("struct", e[1][2] if hirq.is_node(e[1]) and e[1][0] == "def" else str(e[1]),
                [(f[0], rs(f[1])) for f in e[2]])
    if k == "macro":
        nm = e[1]
        base = nm.rstrip("!").split("::")[-1]
        if "assert" in base:
            return _rs_assert(nm, e[2])
        if base in ("unreachable", "panic", "unimplemented", "todo"):
            return ("panic",)
        if nm == "desugar:ForLoop":
            return _rs_for(e[2])
        if nm == "desugar:RangeExpr":
            inner = hirq.unmacro(e[2])
            if hirq.is_node(inner) and inner[0] == "struct":
                fs = {f[0]: rs(f[1]) for f in inner[2]}
                return ("range", fs.get("start"), fs.get("end"))
            return ("opq", "range")
        return rs(e[2])
    return ("opq", k)


# ---------------------------------------------------------------------------------------------------------
# Dora front end
# ---------------------------------------------------------------------------------------------------------
DR_BIN = {"OR": "bor", "OR_OR": "or", "AND": "band", "AND_AND": "and", "ADD": "add", "SUB": "sub", "MUL": "mul",
          "LT_LT": "shl", "GT_GT": "shr", "GT_GT_GT": "shr", "EQ_EQ": "eq", "NOT_EQ": "ne", "LT": "lt", "LE": "le",
          "GT": "gt", "GE": "ge", "CARET": "bxor", "MODULO": "rem", "DIV": "div"}


def dr_pat(n):
    if n[0] == "IDENT_PATTERN":
        return ("bind", doraq.ident(n))
    if n[0] == "TUPLE_PATTERN":
        out = []
        for li in doraq.children(n, "LIST_ITEM"):
            ns = doraq.nodes(li)
            out.append(dr_pat(ns[0]) if ns else ("wild",))
        return ("ptuple", out)
    return ("wild",)


def _dr_args(n):
    al = doraq.child(n, "ARGUMENT_LIST")
    out = []
    if al:
        for li in doraq.children(al, "LIST_ITEM"):
            a = doraq.child(li, "ARGUMENT")
            if a is not None:
                es = doraq.nodes(a)
                out.append(dr(es[-1]) if es else ("opq", "arg"))
    return out


def dr_block(n):
    items = doraq.nodes(n)
    stmts = []
    tail = None
    for i, s in enumerate(items):
        last = i == len(items) - 1
        if s[0] == "LET":
            ns = doraq.nodes(s)
            pat = dr_pat(ns[0])
            init = None
            seen_eq = False
            for c in doraq.kids(s):
                if doraq.is_tok(c) and c[0] == "EQ":
                    seen_eq = True
                elif seen_eq and doraq.is_node(c):
                    init = dr(c)
            stmts.append(("let", pat, init))
        elif s[0] == "EXPR_STMT":
            ns = doraq.nodes(s)
            semi = any(doraq.is_tok(c) and c[0] == "SEMICOLON" for c in doraq.kids(s))
            ex = dr(ns[0]) if ns else ("unit",)
            if last and not semi:
                tail = ex
            else:
                stmts.append(ex)
        else:
            ex = dr(s)
            if last:
                tail = ex
            else:
                stmts.append(ex)
    return ("block", stmts, tail)


def dr(n):
    k = n[0]
    if k == "LIT_INT_EXPR":
        v = doraq.lit_value(n)
        return ("int", v) if v is not None else ("opq", "int")
    if k == "LIT_BOOL_EXPR":
        return ("bool", doraq.lit_value(n))
    if k == "PAREN_EXPR":
        ns = doraq.nodes(n)
        return dr(ns[0]) if ns else ("unit",)
    if k == "PATH_EXPR":
        segs = doraq.children(n, "PATH_SEGMENT")
        names = []
        for s in segs:
            t = doraq.toks(s)
            names.append(t[0][1] if t else "?")
        if len(names) == 1:
            return ("var", names[0])
        return ("path", "::".join(names))
    if k == "FIELD_EXPR":
        ns = doraq.nodes(n)
        ts = doraq.toks(n)
        return ("field", dr(ns[0]), ts[-1][1])
    if k == "METHOD_CALL_EXPR":
        ns = doraq.nodes(n)
        return ("mcall", doraq.ident(n), dr(ns[0]), _dr_args(n), None, n[1])
    if k == "CALL_EXPR":
        ns = doraq.nodes(n)
        callee = dr(ns[0])
        name = callee[1] if callee[0] in ("var", "path") else "?"
        args = _dr_args(n)
        if name == "assert":
            return ("assert", args[0] if args else ("opq", "assert"))
        if name in ("unreachable", "fatalError", "unimplemented"):
            return ("panic",)
        return ("call", name, args, n[1])
    if k == "BIN_EXPR":
        ns = doraq.nodes(n)
        ts = doraq.toks(n)
        op = DR_BIN.get(ts[0][0], ts[0][0]) if ts else "?"
        return ("bin", op, dr(ns[0]), dr(ns[1]))
    if k == "UN_EXPR":
        ns = doraq.nodes(n)
        ts = doraq.toks(n)
        return ("un", "not" if ts and ts[0][1] == "!" else "neg", dr(ns[0]))
    if k == "IF_EXPR":
        ns = doraq.nodes(n)
        cond = dr(ns[0])
        then = dr(ns[1])
        els = dr(ns[2]) if len(ns) > 2 else None
        return ("if", cond, then, els)
    if k == "BLOCK_EXPR":
        return dr_block(n)
    if k == "ASSIGN_EXPR":
        ns = doraq.nodes(n)
        ts = doraq.toks(n)
        if ts and ts[0][0] == "EQ":
            return ("assign", dr(ns[0]), dr(ns[1]))
        l = dr(ns[0])
        op = DR_BIN.get(ts[0][0].replace("_EQ", ""), None) if ts else None
        return ("assign", l, ("bin", op, l, dr(ns[1])) if op else ("opq", "assignop"))
    if k == "WHILE_EXPR":
        ns = doraq.nodes(n)
        return ("loop", dr(ns[-1]), dr(ns[0]))     # the condition is kept for syntactic queries, never evaluated
    if k == "FOR_EXPR":
        ns = doraq.nodes(n)
        return ("for", dr_pat(ns[0]), dr(ns[1]), dr(ns[2]))
    if k == "TUPLE_EXPR":
        out = []
        for li in doraq.children(n, "LIST_ITEM"):
            es = doraq.nodes(li)
            if es:
                out.append(dr(es[0]))
        if not out:
            out = [dr(x) for x in doraq.nodes(n)]
        return ("tuple", out)
    if k == "RETURN_EXPR":
        ns = doraq.nodes(n)
        return ("ret", dr(ns[0]) if ns else None)
    if k == "EXPR_STMT":
        ns = doraq.nodes(n)
        return dr(ns[0]) if ns else ("unit",)
    return ("opq", k)


# ---------------------------------------------------------------------------------------------------------
# programs
# ---------------------------------------------------------------------------------------------------------
class Fn:
    __slots__ = ("key", "ty", "name", "params", "body", "pub", "has_self", "where", "path")

    def __init__(self, key, params, body, pub, has_self, where, path):
        self.key = key
        self.ty, _, self.name = key.rpartition("::")
        self.params = params        # [(name, type-name)] without self
        self.body = body
        self.pub = pub
        self.has_self = has_self
        self.where = where
        self.path = path            # name used in violation keys


class Program:
    def __init__(self, lang):
        self.lang = lang
        self.fns = {}
        self.globals = {}           # name → IR expr
        self.enums = {}             # enum name → [variants]
        self.regtypes = set()

    def finish(self):
        tys = {}
        for f in self.fns.values():
            tys.setdefault(f.ty, set()).add(f.name)
        # a register type is a type that answers both "low three bits" and "needs an extension bit"
        for ty, ms in tys.items():
            if "low_bits" in ms and any(m.startswith("needs_rex") for m in ms):
                self.regtypes.add(ty)
        self.types = set(tys)

    def methods(self, ty):
        return [f for f in self.fns.values() if f.ty == ty]


def _short_ty(t):
    t = (t or "").replace("&mut ", "").replace("&", "").strip()
    return t.split("<")[0].rsplit("::", 1)[-1]


def rust_program(c, prefix, read_line):
    """c: CrateFacts; prefix: 'dora_asm::x64::'; read_line(file, line) → source line (only used for the value of
    `pub const RAX: Register = Register(0)`-style constants, whose value rsfacts does not carry)."""
    P = Program("rs")
    pubs = {f["path"]: f for f in c.items["fns"]}
    for p, b in c.hir.items():
        if not p.startswith(prefix) or p.startswith("<"):
            continue
        key = p[len(prefix):]
        if key.count("::") != 1 and "::" in key:
            continue
        params = []
        has_self = False
        for (pat, ty) in b["params"]:
            nm = pat[1] if hirq.is_node(pat) and pat[0] == "pbind" else "_"
            if nm == "self":
                has_self = True
                continue
            params.append((nm, _short_ty(ty)))
        if "::" not in key:
            key = "::" + key
        info = pubs.get(p, {})
        P.fns[key] = Fn(key, params, rs(b["body"]), bool(info.get("pub")), has_self,
                        "%s:%d" % (b["file"], b["line"]), p)
    for k in c.items["consts"]:
        if not k["path"].startswith(prefix):
            continue
        nm = k["path"][len(prefix):]
        if "value" in k and isinstance(k["value"], (int, bool)):
            P.globals[nm] = ("int", k["value"]) if not isinstance(k["value"], bool) else ("bool", k["value"])
        else:
            ty = _short_ty(k["ty"])
            m = re.search(r"=\s*(?:\w+::)*(\w+)\s*\(\s*(0x[0-9a-fA-F]+|0b[01]+|\d+)\w*\s*\)\s*;", read_line(k["file"], k["line"]) or "")
            if m and m.group(1) == ty:
                P.globals[nm] = ("call", ty, [("int", int(m.group(2), 0))], k["line"])
            else:
                P.globals[nm] = ("call", ty, [("opq", "const")], k["line"])
    for a in c.items["adts"]:
        if a["path"].startswith(prefix) and a["kind"] == "enum":
            P.enums[a["path"][len(prefix):]] = [v["name"] for v in a["variants"]]
    P.finish()
    return P


def dora_program(trees):
    """trees: [(relpath, tree, primary)] — secondary files only contribute methods not defined by the primary file
    (Register::value lives in pkgs/boots/assembler.dora)."""
    P = Program("dora")
    for (rel, tree, primary) in trees:
        for f in doraq.functions(tree, rel):
            if f.body is None:
                continue
            q = f.qual
            if " for " in q:
                continue
            key = q if "::" in q else "::" + q
            if key.count("::") != 1:
                continue
            ty = key.split("::")[0]
            if not primary and not ty:
                continue
            if key in P.fns:
                continue
            static = any(m == "static" for m in f.mods)
            params = [(pn, _short_ty(pt)) for (pn, pt) in f.params()]
            P.fns[key] = Fn(key, params, dr_block(f.body), any(m == "pub" for m in f.mods),
                            bool(ty) and not static, "%s:%d" % (rel, f.line), "%s::%s" % (rel, q))
        if not primary:
            continue
        for n in doraq.nodes(tree):
            if n[0] in ("GLOBAL", "CONST"):
                nm = doraq.ident(n)
                ns = [x for x in doraq.nodes(n) if not x[0].endswith("_TYPE") and x[0] != "MODIFIER_LIST"]
                if nm and ns:
                    P.globals[nm] = dr(ns[-1])
            elif n[0] == "ENUM":
                vs = []
                for x in doraq.walk(n):
                    if x[0] == "ENUM_VARIANT":
                        vs.append(doraq.ident(x))
                P.enums[doraq.ident(n)] = vs
    P.finish()
    return P


# ---------------------------------------------------------------------------------------------------------
# symbolic values
# ---------------------------------------------------------------------------------------------------------
UNIT = ("unit",)


def short_path(p):
    """last two segments of a path: 'dora_asm::x64::JumpDistance::Near' → 'JumpDistance::Near'"""
    return "::".join(p.split("::")[-2:])


def C(n):
    return ("c", n)


def atom_bits(a, shift=0):
    return ("bits", 0, ((shift, a),))


def desc(v):
    """hashable description of a value (for opaque composition and messages)"""
    if isinstance(v, tuple):
        return tuple(desc(x) for x in v)
    if isinstance(v, list):
        return tuple(desc(x) for x in v)
    if isinstance(v, dict):
        return tuple(sorted((k, desc(x)) for k, x in v.items()))
    return v


def is_const(v):
    return v[0] == "c"


def lin_sign(v):
    return v[4] if len(v) > 4 else 1


def to_bits(v):
    k = v[0]
    if k == "bits":
        return v
    if k == "c":
        return ("bits", int(v[1]), ())
    if k == "bool":
        return atom_bits(("b", v[1]))
    if k == "lin":
        if not v[3] and v[1][0] != "pos" and isinstance(v[2], int) and v[2] >= 0:
            return ("bits", v[2], ((0, ("opq", v[1])),))
        return atom_bits(("opq", desc(v)))
    if k == "opq":
        return atom_bits(("opq", v[1]))
    return atom_bits(("opq", desc(v)))


def single_atom(v):
    if v[0] == "bits" and v[1] == 0 and len(v[2]) == 1 and v[2][0][0] == 0:
        return v[2][0][1]
    return None


def b_not(e):
    if isinstance(e, bool):
        return not e
    if e[0] == "not":
        return e[1]
    return ("not", e)


def b_join(op, xs):
    """or/and with constant folding and flattening"""
    out = []
    for x in xs:
        if isinstance(x, bool):
            if op == "or" and x:
                return True
            if op == "and" and not x:
                return False
            continue
        if x[0] == op:
            out += list(x[1])
        else:
            out.append(x)
    if not out:
        return op == "and"
    if len(out) == 1:
        return out[0]
    return (op, tuple(out))


def to_bool(v):
    """→ python bool or boolexpr"""
    k = v[0]
    if k == "c":
        return bool(v[1])
    if k == "bool":
        return v[1]
    if k == "bits":
        a = single_atom(v)
        if a is not None and a[0] == "b":
            return a[1]
    return ("pred", desc(v))


def from_bool(b):
    return C(b) if isinstance(b, bool) else ("bool", b)


# ---------------------------------------------------------------------------------------------------------
# evaluator
# ---------------------------------------------------------------------------------------------------------
class Scope:
    def __init__(self, parent=None):
        self.vars = {}
        self.parent = parent

    def get(self, n):
        s = self
        while s is not None:
            if n in s.vars:
                return s.vars[n]
            s = s.parent
        return None

    def set(self, n, v):
        s = self
        while s is not None:
            if n in s.vars:
                s.vars[n] = v
                return
            s = s.parent
        self.vars[n] = v


class Oracle:
    def __init__(self, prefix):
        self.prefix = prefix
        self.trace = []

    def choose(self, n):
        i = len(self.trace)
        c = self.prefix[i] if i < len(self.prefix) else 0
        self.trace.append((c, n))
        return c


class Path:
    __slots__ = ("events", "facts", "decisions", "ret", "panics")

    def __init__(self):
        self.events = []
        self.facts = []
        self.decisions = ()
        self.ret = None
        self.panics = False

    def nbytes(self):
        return sum(e[1] for e in self.events if e[0] == "emit")


class Evaluator:
    def __init__(self, prog):
        self.P = prog

    # ---- driving -------------------------------------------------------------------------------------
    def paths(self, fn, selfval=None, args=None):
        """all syntactic paths of fn on symbolic operands"""
        if args is None:
            args = []
            for (nm, ty) in fn.params:
                if ty in self.P.regtypes:
                    args.append(("reg", nm, ty))
                elif ty == "Address":
                    args.append(("addr", nm))
                else:
                    args.append(("opq", ("param", nm)))
        if selfval is None and fn.has_self:
            selfval = ("self", fn.ty)
        out = []
        stack = [[]]
        guard = 0
        while stack:
            guard += 1
            if guard > 400:
                raise Unsupported("too many paths")
            prefix = stack.pop()
            self.oracle = Oracle(prefix)
            self.path = Path()
            self.depth = 0
            self.inloop = 0
            self.via = []
            try:
                self.path.ret = self.inline(fn, selfval, args)
            except _Panic:
                self.path.panics = True
            except _Break:
                pass
            tr = self.oracle.trace
            self.path.decisions = tuple(t[0] for t in tr)
            out.append(self.path)
            for i in range(len(prefix), len(tr)):
                for alt in range(1, tr[i][1]):
                    stack.append([t[0] for t in tr[:i]] + [alt])
        out.sort(key=lambda p: p.decisions)
        return out

    def inline(self, fn, selfval, args):
        if self.depth > 10:
            raise Unsupported("call depth")
        sc = Scope()
        if fn.has_self:
            sc.vars["self"] = selfval
        for (nm, _ty), v in zip(fn.params, args):
            sc.vars[nm] = v
        if len(args) != len(fn.params):
            raise Unsupported("arity %s" % fn.key)
        self.depth += 1
        self.via.append(fn.name)
        try:
            return self.ev(fn.body, sc)
        except _Ret as r:
            return r.v
        finally:
            self.depth -= 1
            self.via.pop()

    def event(self, *e):
        self.path.events.append(tuple(e))

    def fork(self, cond):
        """cond: python bool or boolexpr → bool taken (recording the fact)"""
        if isinstance(cond, bool):
            return cond
        c = self.oracle.choose(2)
        taken = c == 0
        self.path.facts.append((cond, taken))
        return taken

    # ---- expressions ---------------------------------------------------------------------------------
    def ev(self, e, sc):
        k = e[0]
        m = getattr(self, "ev_" + k, None)
        if m is None:
            raise Unsupported("ir node %s" % k)
        return m(e, sc)

    def ev_unit(self, e, sc):
        return UNIT

    def ev_int(self, e, sc):
        return C(e[1])

    def ev_bool(self, e, sc):
        return C(bool(e[1]))

    def ev_opq(self, e, sc):
        return ("opq", ("expr", e[1]))

    def ev_panic(self, e, sc):
        raise _Panic()

    def ev_break(self, e, sc):
        raise _Break()

    def ev_ret(self, e, sc):
        raise _Ret(self.ev(e[1], sc) if e[1] is not None else UNIT)

    def ev_range(self, e, sc):
        return ("range", self.ev(e[1], sc) if e[1] else None, self.ev(e[2], sc) if e[2] else None)

    def ev_var(self, e, sc):
        v = sc.get(e[1])
        if v is not None:
            return v
        return self.global_(e[1])

    def global_(self, name):
        g = self.P.globals.get(name)
        if g is None:
            return ("opq", ("name", name))
        v = self.ev(g, Scope())
        if v[0] == "kreg":
            return ("kreg", name, v[2], v[3])
        return v

    def ev_path(self, e, sc):
        p = e[1]
        for pre in ("dora_asm::x64::",):
            if p.startswith(pre):
                p = p[len(pre):]
        if p in self.P.globals:
            return self.global_(p)
        return ("path", p)

    def ev_tuple(self, e, sc):
        return ("tuple", [self.ev(x, sc) for x in e[1]])

    def ev_struct(self, e, sc):
        return ("struct", e[1].rsplit("::", 1)[-1], {f: self.ev(x, sc) for f, x in e[2]})

    def ev_block(self, e, sc):
        inner = Scope(sc)
        for s in e[1]:
            self.ev(s, inner)
        if e[2] is not None:
            return self.ev(e[2], inner)
        return UNIT

    def bind(self, pat, v, sc):
        if pat[0] == "bind":
            sc.vars[pat[1]] = v
        elif pat[0] == "ptuple":
            for i, q in enumerate(pat[1]):
                if v[0] == "tuple" and i < len(v[1]):
                    self.bind(q, v[1][i], sc)
                else:
                    self.bind(q, ("opq", ("elem", desc(v), i)), sc)
        elif pat[0] == "pts":
            for i, q in enumerate(pat[2]):
                self.bind(q, ("opq", ("elem", desc(v), i)), sc)

    def ev_let(self, e, sc):
        v = self.ev(e[2], sc) if e[2] is not None else ("opq", "uninit")
        self.bind(e[1], v, sc)
        return UNIT

    def ev_assert(self, e, sc):
        save = (self.oracle, self.path)
        try:
            # evaluated without forking and without touching the path
            self.oracle = Oracle([])
            self.path = Path()
            c = to_bool(self.ev(e[1], sc))
        except (Unsupported, _Panic, _Break, _Ret):
            c = ("pred", "assert?")
        finally:
            self.oracle, self.path = save
        self.event("assert", c, bool(len(e) > 2 and e[2]))
        return UNIT

    def ev_assign(self, e, sc):
        v = self.ev(e[2], sc)
        l = e[1]
        if l[0] == "var":
            sc.set(l[1], v)
            return UNIT
        tgt = self.lvalue(l, sc)
        if tgt is not None:
            self.event("store", tgt, v)
        return UNIT

    def lvalue(self, l, sc):
        """'rex' / ('bytes', index-value) for assignments to fields of self"""
        if l[0] == "field":
            base = self.ev(l[1], sc)
            if base[0] in ("self", "addr"):
                return l[2]
            return None
        if l[0] == "index":
            inner = self.lvalue(l[1], sc)
            if inner is not None:
                return (inner, desc(self.ev(l[2], sc)))
            return None
        if l[0] == "mcall" and len(l[3]) == 1:          # Dora: self.bytes(0) = ...
            base = self.ev(l[2], sc)
            if base[0] in ("self", "addr"):
                return (l[1], desc(self.ev(l[3][0], sc)))
        return None

    def ev_if(self, e, sc):
        folded = self.fold_ite(e, sc)
        if folded is not None:
            return folded
        c = to_bool(self.ev(e[1], sc))
        if self.fork(c):
            return self.ev(e[2], sc)
        if e[3] is not None:
            return self.ev(e[3], sc)
        return UNIT

    @staticmethod
    def _lit_block(b):
        while b is not None and b[0] == "block" and not b[1] and b[2] is not None:
            b = b[2]
        if b is not None and b[0] == "int":
            return b[1]
        return None

    def fold_ite(self, e, sc):
        """`if c { 2^k } else { 0 }`  →  c << k   (no fork)"""
        if e[3] is None:
            return None
        a, b = self._lit_block(e[2]), self._lit_block(e[3])
        if a is None or b != 0 or a <= 0 or a & (a - 1):
            return None
        c = to_bool(self.ev(e[1], sc))
        if isinstance(c, bool):
            return C(a if c else 0)
        return atom_bits(("b", c), a.bit_length() - 1)

    def ev_iflet(self, e, sc):
        v = self.ev(e[2], sc)
        if self.fork(("pred", ("iflet", desc(v)))):
            inner = Scope(sc)
            self.bind(e[1], ("opq", ("iflet-binding", desc(v))), inner)
            return self.ev(e[3], inner)
        if e[4] is not None:
            return self.ev(e[4], sc)
        return UNIT

    def ev_match(self, e, sc):
        v = self.ev(e[1], sc)
        arms = e[2]
        if v[0] == "c":
            for (pat, body) in arms:
                pats = pat[1] if pat[0] == "por" else [pat]
                for q in pats:
                    if q[0] == "plit" and q[1] == v[1]:
                        return self.ev(body, sc)
                    if q[0] in ("wild", "bind"):
                        return self.ev(body, sc)
            raise _Panic()
        c = self.oracle.choose(len(arms))
        pat, body = arms[c]
        if pat[0] == "ppath":
            self.path.facts.append((("eqpath", desc(v), short_path(pat[1])), True))
        else:
            self.path.facts.append((("matcharm", desc(v), c), True))
        inner = Scope(sc)
        self.bind(pat, v, inner)
        return self.ev(body, inner)

    def loop_body(self, body, sc):
        self.inloop += 1
        try:
            self.ev(body, sc)
        except _Break:
            pass
        finally:
            self.inloop -= 1
        return UNIT

    def ev_loop(self, e, sc):
        return self.loop_body(e[1], sc)

    def ev_for(self, e, sc):
        it = self.ev(e[2], sc)
        inner = Scope(sc)
        if it[0] == "aslice":
            elem = atom_bits(("ab", it[1], ("from", it[2])))
        else:
            elem = ("opq", ("elem-of", desc(it)))
        if e[1][0] == "ptuple":
            elem = ("tuple", [("opq", ("elem-of", desc(it), i)) for i in range(len(e[1][1]))])
        self.bind(e[1], elem, inner)
        return self.loop_body(e[3], inner)

    def ev_index(self, e, sc):
        a = self.ev(e[1], sc)
        i = self.ev(e[2], sc)
        if a[0] == "aslice":
            if i[0] == "range":
                st = i[1]
                if st is None or st[0] == "c":
                    return ("aslice", a[1], a[2] + (st[1] if st else 0))
                return ("opq", ("slice", desc(a), desc(i)))
            if i[0] == "c":
                return atom_bits(("ab", a[1], a[2] + i[1]))
            return atom_bits(("ab", a[1], ("dyn", desc(i))))
        return ("opq", ("index", desc(a), desc(i)))

    def ev_field(self, e, sc):
        b = self.ev(e[1], sc)
        f = e[2]
        k = b[0]
        if k == "self":
            if b[1] == "Address":
                return self.addr_field("self", f)
            return ("sfield", f)
        if k == "addr":
            return self.addr_field(b[1], f)
        if k == "reg" and f == "0":
            return atom_bits(("val", b[1]))
        if k == "kreg" and f == "0":
            return C(b[2]) if b[2] is not None else ("opq", ("kregval", b[1]))
        if k == "struct":
            return b[2].get(f, ("opq", ("field", desc(b), f)))
        if k == "tuple" and f.isdigit() and int(f) < len(b[1]):
            return b[1][int(f)]
        return ("opq", ("field", desc(b), f))

    def addr_field(self, A, f):
        if f == "rex":
            return atom_bits(("arex", A))
        if f == "bytes":
            return ("aslice", A, 0)
        return ("opq", ("afield", A, f))

    # ---- operators -----------------------------------------------------------------------------------
    def ev_un(self, e, sc):
        v = self.ev(e[2], sc)
        if e[1] == "not":
            if v[0] == "c":
                return C((not v[1]) if isinstance(v[1], bool) else ~v[1])
            if v[0] == "bool":
                return ("bool", b_not(v[1]))
            if v[0] == "bits":
                a = single_atom(v)
                if a is not None and a[0] == "b":
                    return ("bool", b_not(a[1]))
                if a is not None:
                    return atom_bits(("inv", a))
            if v[0] == "sfield":
                return ("bool", b_not(("pred", desc(v))))
            return ("opq", ("not", desc(v)))
        # neg
        if v[0] == "c":
            return C(-v[1])
        if v[0] == "lin":
            return ("lin", v[1], v[2], True, -lin_sign(v))
        return ("opq", ("neg", desc(v)))

    def ev_bin(self, e, sc):
        op = e[1]
        a = self.ev(e[2], sc)
        b = self.ev(e[3], sc)
        if op in ("or", "and"):
            return from_bool(b_join(op, [to_bool(a), to_bool(b)]))
        if op in ("eq", "ne", "lt", "le", "gt", "ge"):
            return from_bool(self.cmp(op, a, b))
        if a[0] == "c" and b[0] == "c" and not isinstance(a[1], bool) and not isinstance(b[1], bool):
            x, y = a[1], b[1]
            try:
                return C({"add": x + y, "sub": x - y, "shl": x << y if y >= 0 else 0, "shr": x >> y if y >= 0 else 0,
                          "bor": x | y, "band": x & y, "bxor": x ^ y, "mul": x * y}[op])
            except KeyError:
                return ("opq", (op, x, y))
        # position / opaque + constant
        if a[0] == "lin" or b[0] == "lin" or (op in ("add", "sub") and (
                (a[0] == "opq" and b[0] == "c") or (b[0] == "opq" and a[0] == "c" and op == "add"))):
            return self.lin_op(op, a, b)
        if op in ("bor", "add"):
            x, y = to_bits(a), to_bits(b)
            return ("bits", (x[1] | y[1]) if op == "bor" else (x[1] + y[1]), x[2] + y[2])
        if op == "shl" and b[0] == "c":
            x = to_bits(a)
            return ("bits", x[1] << b[1], tuple((s + b[1], t) for (s, t) in x[2]))
        if op == "band" and (b[0] == "c" or a[0] == "c"):
            v, m = (a, b[1]) if b[0] == "c" else (b, a[1])
            return self.mask(v, m)
        return ("opq", (op, desc(a), desc(b)))

    def lin_op(self, op, a, b):
        """("lin", base, k, frozen, sign): value = sign * (base + k) [+ other terms once frozen].  Constants keep
        folding into k after the value has been combined with other terms or negated (k += sign * c), so
        `-(pos - target + 2)` and `-(pos + 2 - target)` are the same displacement."""
        def lin(v):
            if v[0] == "lin":
                return v if len(v) == 5 else v + (1,)
            if v[0] == "opq":
                return ("lin", v[1], 0, False, 1)
            return None
        la, lb = lin(a), lin(b)
        foldable = lambda l: l is not None and (not l[3] or l[1][0] == "pos")       # noqa: E731
        if op in ("add", "sub") and b[0] == "c" and foldable(la):
            c = b[1] if op == "add" else -b[1]
            return ("lin", la[1], la[2] + la[4] * c, la[3], la[4])
        if op == "add" and a[0] == "c" and foldable(lb):
            return ("lin", lb[1], lb[2] + lb[4] * a[1], lb[3], lb[4])
        if op == "sub" and a[0] == "c" and lb and lb[1][0] == "pos":
            # c - (sign*(base+k) + rest) = -sign*(base + k - sign*c) - rest
            return ("lin", lb[1], lb[2] - lb[4] * a[1], True, -lb[4])
        # anything else keeps the taint of the position/offset operand, frozen
        if a[0] == "lin" and a[1][0] == "pos":
            return ("lin", la[1], la[2], True, la[4])
        if b[0] == "lin" and b[1][0] == "pos":
            return ("lin", lb[1], lb[2], True, lb[4] if op == "add" else -lb[4])
        for v in (a, b):
            if v[0] == "lin" and v[2] != 0:
                return ("lin", v[1], v[2], True, lin_sign(v))
        return ("opq", (op, desc(a), desc(b)))

    def mask(self, v, m):
        if v[0] == "c":
            return C(v[1] & m)
        a = single_atom(to_bits(v)) if v[0] in ("bits", "bool") else None
        if a is not None:
            if a[0] == "val" and m == 7:
                return atom_bits(("lo", a[1]))
            if a[0] == "inv" and a[1][0] == "val" and m == 15:
                return atom_bits(("nval", a[1][1]))
            if a[0] == "arex":
                return atom_bits(("arexm", a[1], m))
            if a[0] == "lo" and m & 7 == 7:
                return v
        return ("opq", ("band", desc(v), m))

    def cmp(self, op, a, b):
        if a[0] == "c" and b[0] == "c":
            x, y = a[1], b[1]
            return {"eq": x == y, "ne": x != y, "lt": x < y, "le": x <= y, "gt": x > y, "ge": x >= y}[op]
        if a[0] == "c" and b[0] != "c":
            flip = {"eq": "eq", "ne": "ne", "lt": "gt", "le": "ge", "gt": "lt", "ge": "le"}
            return self.cmp(flip[op], b, a)
        regs = ("reg", "kreg")
        if a[0] in regs and b[0] in regs and op in ("eq", "ne"):
            if a[0] == "kreg" and b[0] == "reg":
                a, b = b, a
            if a[0] == "reg" and b[0] == "kreg":
                r = ("eqk", a[1], b[1])
            elif a[0] == "kreg" and b[0] == "kreg" and a[2] is not None and b[2] is not None:
                r = a[2] == b[2]
            else:
                r = ("pred", ("regeq", desc(a), desc(b)))
            return r if op == "eq" else b_not(r)
        if a[0] == "path" and b[0] != "path":
            a, b = b, a
        if b[0] == "path" and op in ("eq", "ne"):
            r = ("eqpath", desc(a), short_path(b[1]))
            return r if op == "eq" else b_not(r)
        if b[0] == "c" and a[0] in ("bits", "bool"):
            at = single_atom(to_bits(a))
            k = b[1]
            if at is not None and not isinstance(k, bool):
                if at[0] == "val" and op == "gt" and k == 7:
                    return ("hi", at[1])
                if at[0] == "val" and op == "ge" and k == 8:
                    return ("hi", at[1])
                if at[0] == "val" and op in ("lt", "le") and (k == 8 if op == "lt" else k == 7):
                    return b_not(("hi", at[1]))
                if at[0] in ("val", "lo"):
                    return ("cmp", op, at, k)
                if at[0] == "arex" and k == 0 and op in ("ne", "eq", "gt"):
                    r = ("arexnz", at[1])
                    return b_not(r) if op == "eq" else r
                if at[0] == "arexm" and k == 0 and op in ("ne", "eq", "gt") and at[2] > 0 and at[2] & (at[2] - 1) == 0:
                    r = ("arexbit", at[1], at[2].bit_length() - 1)
                    return b_not(r) if op == "eq" else r
        return ("pred", (op, desc(a), desc(b)))

    # ---- calls ---------------------------------------------------------------------------------------
    def ev_call(self, e, sc):
        fname = e[1]
        args = [self.ev(a, sc) for a in e[2]]
        p = fname
        if p.startswith("dora_asm::x64::"):
            p = p[len("dora_asm::x64::"):]
        last = p.rsplit("::", 1)[-1]
        if last in self.P.regtypes and "::" not in p:
            if len(args) == 1 and args[0][0] == "c":
                return ("kreg", None, args[0][1], last)
            return ("kreg", None, None, last)
        key = p if "::" in p else "::" + p
        fn = self.P.fns.get(key)
        if fn is not None and not fn.has_self:
            return self.inline(fn, None, args)
        if last in self.P.types and "::" not in p:
            return ("struct", last, {})
        if last in CONVERSIONS and len(args) == 1:
            return args[0]
        return ("opq", ("call", last, desc(args)))

    def ev_mcall(self, e, sc):
        name, resolved = e[1], e[4]
        recv = self.ev(e[2], sc)
        k = recv[0]
        if k == "sfield":
            args = [self.ev(a, sc) for a in e[3]]
            return self.self_field_call(recv[1], name, args)
        ty = None
        if k == "self":
            ty = recv[1]
        elif k in ("reg", "kreg"):
            ty = recv[3] if k == "kreg" else recv[2]
        elif k == "addr":
            ty = "Address"
        elif k == "struct":
            ty = recv[1]
        if ty is not None:
            fn = self.P.fns.get("%s::%s" % (ty, name))
            args = [self.ev(a, sc) for a in e[3]]
            if k == "struct":
                if ty == "Address":
                    self.event("acall", name, args)
                    return UNIT
                return ("opq", ("mcall", name, desc(recv), desc(args)))
            if fn is not None and fn.has_self:
                return self.inline(fn, recv, args)
            if k in ("addr", "self") and ty == "Address" and name == "bytes" and len(args) == 1:
                A = recv[1] if k == "addr" else "self"
                i = args[0]
                return atom_bits(("ab", A, i[1] if i[0] == "c" else ("dyn", desc(i))))
            if name in CONVERSIONS and not args:
                return recv
            raise Unsupported("method %s::%s not found" % (ty, name))
        args = [self.ev(a, sc) for a in e[3]]
        if name in CONVERSIONS and len(args) <= (1 if name == "expect" else 0):
            return recv
        return ("opq", ("mcall", name, desc(recv), desc(args)))

    def self_field_call(self, field, name, args):
        if field == "buffer":
            suffix = name.split("_", 1)[1] if "_" in name else ""
            if name.startswith("emit_"):
                w = PRIM_WIDTH.get(suffix)
                if w is None or len(args) != 1:
                    raise Unsupported("buffer primitive %s" % name)
                self.event("emit", w, args[0], self.inloop > 0, tuple(self.via))
                return UNIT
            if name.startswith("patch_"):
                w = PRIM_WIDTH.get(suffix)
                if w is None or len(args) != 2:
                    raise Unsupported("buffer primitive %s" % name)
                self.event("patch", w, args[0], args[1])
                return UNIT
            if name in POSITION_READS and not args:
                return ("lin", ("pos", self.path.nbytes()), 0, False, 1)
            if name == "set_position" and len(args) == 1:
                self.event("setpos", args[0])
                return UNIT
            return ("opq", ("buffer", name, desc(args)))
        if name == "push" and len(args) == 1:
            rec = args[0]
            vals = list(rec[2].values()) if rec[0] == "struct" else (rec[1] if rec[0] == "tuple" else [])
            kind = None
            pos = None
            for v in vals:
                if v[0] == "path" and "JumpDistance" in v[1]:
                    kind = v[1].rsplit("::", 1)[-1]
                elif v[0] == "lin" and v[1][0] == "pos":
                    pos = v
            if kind is not None:
                self.event("jumprec", kind, pos, tuple(self.via))
                return UNIT
            for v in vals:
                if v[0] == "opq" and v[1][0] == "param":
                    self.event("jumprec", ("param", v[1][1]), pos, tuple(self.via))
                    return UNIT
        return ("opq", ("self." + field, name, desc(args)))


# ---------------------------------------------------------------------------------------------------------
# knowledge derived from the facts of a path
# ---------------------------------------------------------------------------------------------------------
class Known:
    def __init__(self, facts):
        self.hi = {}            # P → bool
        self.pinned = {}        # P → NAME
        self.noteq = {}         # P → {NAME}
        self.arexzero = set()
        self.arexnz = set()
        self.preds = []
        self.oneof = {}         # P → set of NAMEs (or of eqk true)
        for (e, pol) in facts:
            self.add(e, pol)

    def add(self, e, pol):
        k = e[0]
        if k == "not":
            return self.add(e[1], not pol)
        if k == "or":
            if not pol:
                for x in e[1]:
                    self.add(x, False)
            else:
                names = [x for x in e[1] if x[0] == "eqk"]
                if len(names) == len(e[1]) and len({x[1] for x in names}) == 1:
                    self.oneof[names[0][1]] = {x[2] for x in names}
            return
        if k == "and":
            if pol:
                for x in e[1]:
                    self.add(x, True)
            return
        if k == "hi":
            self.hi[e[1]] = pol
        elif k == "cmp":
            op, at, n = e[1], e[2], e[3]
            if at[0] == "val":
                # val < n (n ≤ 8) or not (val > n) (n ≤ 7)  ⇒  register number below 8
                if (pol and ((op == "lt" and n <= 8) or (op == "le" and n <= 7))) or \
                        (not pol and ((op == "gt" and n <= 7) or (op == "ge" and n <= 8))):
                    self.hi.setdefault(at[1], False)
        elif k == "eqk":
            if pol:
                self.pinned[e[1]] = e[2]
                self.oneof[e[1]] = {e[2]}
            else:
                self.noteq.setdefault(e[1], set()).add(e[2])
        elif k == "arexnz":
            (self.arexnz if pol else self.arexzero).add(e[1])
        else:
            self.preds.append((e, pol))

    def infeasible(self, kval):
        """the facts contradict each other given the values of the register constants (kval: NAME → (n, ty))"""
        for P, nm in self.pinned.items():
            kv = kval.get(nm)
            if kv is not None and P in self.hi and self.hi[P] != (kv[0] > 7):
                return True
            if nm in self.noteq.get(P, ()):
                return True
        return False

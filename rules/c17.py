"""C17 — "formatting never changes a program and is stable": PARTIAL, structural claim.

dora-format turns the lossless syntax tree back into text: every formatter walks `node.children_with_tokens()`
and either EMITS what it takes from that iterator (Formatter::token pushes the token's own text, format_node
recurses) or DROPS it (whitespace / newlines are layout; optional separators are re-synthesised).  A code token
or a comment is lost exactly when some non-panicking path takes an element and does not emit it, or lets an
iterator go out of scope before it is exhausted; a token is invented exactly when text that did not come from a
token is pushed.  The rules decide these *by construction* facts (abstract interpretation of the HIR, see
rules/c17_interp.py) and the output self-check of format_source_with_line_length (MIR dominators):

  R1  drop discipline: every element taken and not emitted has a kind set established by a dominating test on the
      peeked kind, ⊆ {WHITESPACE, NEWLINE, COMMA} (or a frozen, reasoned (function, kind) exception); never a comment
  R2  trivia loops: the arm taken for a comment kind emits, with Formatter::token, the very token it took
  R3  exhaustive consumption: an iterator created by a formatter is exhausted (asserted) when it goes out of scope
  R4  dispatch coverage: every node kind the parser closes has a format_node arm that emits the node
  R5  output self-check: Ok(text) is only returned after `text` itself re-parsed with an empty error list
  R6  emitted text is the token's own text; synthesised text is layout/separators or re-emits an eaten token

NOT decided: idempotence, width-dependent layout, the order of emitted tokens (use declarations / modifiers are
sorted on purpose), duplication of tokens, the Doc → text renderer, flow through containers (Vec of docs).
"""
import cfg
import hirq
from cfg import Body, origin, simple_defs
from hirq import is_node, last, calls
from rules import c06
from rules import c17_interp as I
from rules.c17_interp import Interp, Model, Unsupported, END

CF = "dora_format"
CP = "dora_parser"
FMT = "dora_format::doc::Formatter"
FORMAT_NODE = "dora_format::doc::format_node"
TOKEN = FMT + "::token"
TEXT = FMT + "::text"

# the property's own vocabulary (C17: "... and every comment of the input"; "only layout, blank lines and optional
# trailing separators may differ")
COMMENT_KINDS = ("LINE_COMMENT", "MULTILINE_COMMENT")
LAYOUT_KINDS = ("WHITESPACE", "NEWLINE")
SEPARATOR_KINDS = ("COMMA",)

# Frozen exceptions, each justified by reading the code (key: (function that owns the iterator, kind)).
DROP_EXCEPTIONS = {
    ("dora_format::doc::use_::format_use_group", "L_BRACE"):
        "use group braces are eaten and re-synthesised as text \"{\" unless the group has exactly one item and no "
        "comment (`use a::{b}` is deliberately normalised to `use a::b`)",
    ("dora_format::doc::use_::format_use_group", "R_BRACE"):
        "closing brace of the use group: re-synthesised as \"}\" together with the opening one (see L_BRACE)",
    ("dora_format::doc::ty::format_lambda_param_list::{closure#0}", "DOT_DOT_DOT"):
        "`if eat_token_opt(.., DOT_DOT_DOT, ..) { f.text(\"...\") }`: the variadic marker is re-synthesised "
        "immediately, guarded by the eat's own result",
}

# Frozen: text synthesised although it is not layout — allowed only as the re-emission of a token kind that the same
# function eats (derived pairing with R1's drops through the parser's token_name table); nothing else.
# Frozen: iterators that die un-asserted but *drained* (all trivia emitted, next element is code or the end):
# acceptable only where the grammar admits no further child (reason read from the parser's production).
DRAINED_OK = {
    "dora_format::doc::expr::collect_field_chain":
        "FIELD_EXPR is `expr . name` (parse_postfix: open_before, DOT, name, close): nothing follows the name but "
        "trailing trivia, which the final collect_comments emits",
    "dora_format::doc::bin::collect_bin_chain":
        "BIN_EXPR is `lhs op rhs` (parse_binary_expr): nothing follows rhs; trailing trivia belongs to rhs' innermost node",
    "dora_format::doc::bin::format_assign":
        "ASSIGN_EXPR is `lhs op rhs`: nothing follows rhs; trailing trivia is attached inside rhs (innermost close first)",
    "dora_format::doc::element_list::format_element_list":
        "ELEMENT_LIST holds elements and trivia only (parse_file / parse_element_list): collect_nodes::<AstElement> "
        "drains both; after the closing brace only trivia remains and print_trivia emits it",
}

# Frozen: formatters that reach their children through a parser accessor instead of the child iterator.
ACCESSOR_FORMATTERS = {
    "dora_format::doc::element::format_modifier_list":
        "MODIFIER_LIST's direct children are MODIFIER nodes only (parse_modifier_list opens a MODIFIER around every "
        "token; leading trivia is emitted with the first token inside the node, trailing trivia by the inner close "
        "first), so AstModifierList::items() visits every child",
}


def where(c, path, line=None):
    fb = c.hir.get(path) or c.mir.get(path)
    if not fb:
        return None
    return "%s:%d" % (fb["file"], line or fb["line"])


def analysis(r, key, msg, w=None):
    r.violation("ANALYSIS:" + key, msg, w)


def short(p):
    return p.replace("dora_format::doc::", "").replace("dora_format::", "")


# --------------------------------------------------------------------------- model (derived from the two crates)
def identity_fns(cp):
    """dora_parser functions that return their first parameter's very element, possibly wrapped (cast, as_*, to_*,
    unwrap, syntax_node, to_token, to_node …): greatest fixpoint over the HIR.  Value: None | 'tok' | 'node' | 'cast'
    (an Option that is None when the element is not a token / not a node / not castable)."""
    cand = {}
    outs = {f["path"]: f.get("output", "") for f in cp.items["fns"]}
    for p, b in cp.hir.items():
        if not p.startswith("dora_parser::ast::") and not p.startswith("<dora_parser::ast::"):
            continue
        if not b["params"]:
            continue
        o = I.strip_ty(outs.get(p, ""))
        if o.startswith("core::option::Option<") and o.endswith(">"):
            o = I.strip_ty(o[len("core::option::Option<"):-1])
        if not (is_syntax_ty(o) or o == "Self"):
            continue
        pat = b["params"][0][0]
        if not (is_node(pat) and pat[0] == "pbind"):
            continue
        cand[p] = (pat[1], b["body"])
    ok = set(cand)
    # trait declarations resolve to "all impls"
    impls = {}
    for p in cand:
        if p.startswith("<") and " as dora_parser::ast::" in p:
            tr = p[1:].split(" as ", 1)[1]
            trait, meth = tr.split(">::", 1)
            impls.setdefault(trait + "::" + meth, []).append(p)

    def callee_ok(path):
        if path in ok:
            return True
        if path in impls:
            return all(q in ok for q in impls[path])
        return path in I.STD_IDENTITY

    def ident(e, ids):
        e = hirq.unmacro(e)
        if not is_node(e):
            return False
        k = e[0]
        if k == "local":
            return e[1] in ids
        if k == "block":
            for st in e[1]:
                st = hirq.unmacro(st)
                # only guard statements: `if c { return <identity or None> }`
                if not (is_node(st) and st[0] == "if" and st[3] is None and only_returns(st[2], ids)):
                    return False
            return e[2] is not None and ident(e[2], ids)
        if k == "ret":
            return e[1] is not None and ident(e[1], ids)
        if k in ("addr",):
            return ident(e[2], ids)
        if k == "un" and e[1] == "Deref":
            return ident(e[2], ids)
        if k == "field":
            return e[2] == "0" and ident(e[1], ids)
        if k == "def":
            return e[2] == "core::option::Option::None"
        if k == "call":
            c = e[2]
            if is_node(c) and c[0] == "def":
                if c[1] in ("ctor", "selfctor", "variant"):
                    return len(e[3]) == 1 and ident(e[3][0], ids)
                if c[2].startswith("core::panicking::"):
                    return True
                return len(e[3]) == 1 and callee_ok(c[2]) and ident(e[3][0], ids)
            return False
        if k == "mcall":
            if e[2] is None:
                return False
            return callee_ok(e[2]) and ident(e[4], ids)
        if k == "if":
            return ident(e[2], ids) and (e[3] is not None and ident(e[3], ids))
        if k == "match":
            scrut_id = ident(e[1], ids)
            for (pat, guard, arm) in hirq.match_arms(e):
                names = []
                if scrut_id:
                    _pat_names(pat, names)
                if hirq.is_panic_body(arm):
                    continue
                if not ident(arm, ids | set(names)):
                    return False
            return True
        return False

    def only_returns(blk, ids):
        blk = hirq.unmacro(blk)
        if not (is_node(blk) and blk[0] == "block"):
            return False
        items = list(blk[1]) + ([blk[2]] if blk[2] is not None else [])
        return len(items) == 1 and is_node(items[0]) and items[0][0] == "ret" and ident(items[0], ids)

    changed = True
    while changed:
        changed = False
        for p in sorted(ok):
            nm, body = cand[p]
            if hirq.is_panic_body(body) or not ident(body, {nm}):
                ok.discard(p)
                changed = True
    out = {}
    for p in ok:
        out[p] = _option_flavour(p, cand[p][1])
    for t, ps in impls.items():
        if ps and all(q in ok for q in ps):
            fl = {out[q] for q in ps}
            out[t] = fl.pop() if len(fl) == 1 else "cast"
    return out


def _pat_names(p, out):
    if not is_node(p):
        return
    if p[0] == "pbind":
        out.append(p[1])
        if p[2] is not None:
            _pat_names(p[2], out)
    elif p[0] == "pts":
        for q in p[2]:
            _pat_names(q, out)
    elif p[0] == "pstruct":
        for fld in p[2]:
            _pat_names(fld[1], out)
    elif p[0] in ("ptuple", "por"):
        for q in p[1]:
            _pat_names(q, out)
    elif p[0] == "pref":
        _pat_names(p[1], out)


def _option_flavour(path, body):
    """does the conversion return an Option, and what does None mean?"""
    some = [n for n in hirq.walk(body) if n[0] == "call" and is_node(n[2]) and n[2][0] == "def"
            and n[2][2] == "core::option::Option::Some"]
    none = [n for n in hirq.walk(body) if n[0] == "def" and n[2] == "core::option::Option::None"]
    if not some and not none:
        # a delegating conversion keeps the flavour of what it calls: decided by name of the trait method
        if path.endswith("::cast") or "::to_" in path and not path.endswith(("to_token", "to_node")):
            return "cast"
        return None
    for n in hirq.walk(body):
        if n[0] == "match":
            for (pat, guard, arm) in hirq.match_arms(n):
                ps = hirq.pat_paths(pat)
                if any(a[0] == "call" and a in some for a in hirq.walk(arm)):
                    if "dora_parser::ast::SyntaxElement::Token" in ps:
                        return "tok"
                    if "dora_parser::ast::SyntaxElement::Node" in ps:
                        return "node"
    return "cast"


def build_model(r, cf, cp):
    m = Model()
    tk = cp.adt("token::TokenKind")
    if not r.anchor("dora_parser::token::TokenKind", tk):
        return None
    m.allk = frozenset(v["name"] for v in tk["variants"])
    # trivia = the kinds for which TokenKind::is_trivia answers true
    it = cp.hir_fn("token::TokenKind::is_trivia")
    if not r.anchor("dora_parser::token::TokenKind::is_trivia", it):
        return None
    tr = set()
    for n in hirq.walk(it["body"]):
        if n[0] == "match":
            for (pat, guard, arm) in hirq.match_arms(n):
                a = hirq.strip(arm)
                if is_node(a) and a[0] == "lit" and a[2] is True and guard is None:
                    tr |= {last(d) for d in hirq.pat_paths(pat)}
    m.trivia = frozenset(tr)
    if not r.anchor("is_trivia == comments + layout", set(tr) == set(COMMENT_KINDS) | set(LAYOUT_KINDS)):
        return None
    # node kinds = what the parser closes
    total, vp, nclose = c06.closed_sets(c06._parser_fns(cp))
    nodek = set()
    for s in list(total.values()) + list(vp.values()):
        nodek |= s
    if not r.anchor("Parser::close kinds are constants", "<non-constant>" not in nodek and nclose >= 90):
        return None
    m.nodek = frozenset(nodek)
    m.nclose = nclose
    # child iterator methods: which advance `index`?
    for im in cp.items["impls"]:
        if not im["self_ty"].startswith(I.ITER_TY):
            continue
        for (name, path) in im["methods"]:
            b = cp.hir.get(path)
            if b is None:
                continue
            adv = False
            for n in hirq.walk(b["body"]):
                if n[0] in ("assign", "assignop"):
                    lhs = n[1] if n[0] == "assign" else n[2]
                    lhs = hirq.strip(lhs)
                    if is_node(lhs) and lhs[0] == "field" and lhs[2] in ("index", "current_offset") \
                            and hirq.local_name(lhs[1]) == "self":
                        adv = True
            call_path = (im["trait"] + "::" + name) if im["trait"] else path
            if adv:
                m.consuming.add(call_path)
                m.consuming.add(path)
            else:
                m.iter_readonly.add(call_path)
                m.iter_readonly.add(path)
    pk = "dora_parser::ast::SyntaxElementIter::<'a>::peek_kind"
    pn = "dora_parser::ast::SyntaxElementIter::<'a>::peek_kind_ignore_trivia"
    bk, bn = cp.hir.get(pk), cp.hir.get(pn)
    if not (r.anchor(pk, bk) and r.anchor(pn, bn)):
        return None
    # peek_kind looks at elements[index] only; peek_kind_ignore_trivia skips elements for which is_trivia() holds
    k_loops = [n for n in hirq.walk(bk["body"]) if n[0] == "loop"]
    n_triv = [cs for cs in calls(bn["body"]) if cs.name == "is_trivia"]
    n_loops = [n for n in hirq.walk(bn["body"]) if n[0] == "loop"]
    if not r.anchor("peek_kind: no loop / peek_kind_ignore_trivia: loop skipping is_trivia()",
                    not k_loops and n_triv and n_loops):
        return None
    m.peek_h.add(pk)
    m.peek_n.add(pn)
    m.iter_readonly.discard(pk)
    m.iter_readonly.discard(pn)
    if not r.anchor("SyntaxElementIter: exactly Iterator::next advances", I.NEXT in m.consuming):
        return None
    m.identity = identity_fns(cp)
    for need in ("dora_parser::ast::SyntaxElement::to_token", "dora_parser::ast::SyntaxElement::to_node",
                 "dora_parser::ast::SyntaxNodeBase::cast", "dora_parser::ast::SyntaxNodeBase::unwrap",
                 "dora_parser::ast::SyntaxNodeBase::syntax_node"):
        if not r.anchor("identity conversion " + need, need in m.identity):
            return None
    if not r.anchor("to_token()/to_node() filter tokens/nodes",
                    m.identity["dora_parser::ast::SyntaxElement::to_token"] == "tok"
                    and m.identity["dora_parser::ast::SyntaxElement::to_node"] == "node"):
        return None
    m.syntax_kind_fns = {p for p in list(cp.hir) if p.endswith("::syntax_kind")} | {
        "dora_parser::ast::SyntaxNodeBase::syntax_kind"}
    m.children_fns = {p for p in list(cp.hir) if p.endswith("::children_with_tokens")} | {
        "dora_parser::ast::SyntaxNodeBase::children_with_tokens"}
    if not r.anchor("SyntaxNode::children_with_tokens", "dora_parser::ast::SyntaxNode::children_with_tokens"
                                                        in m.children_fns):
        return None
    # the analysed crate
    m.fns = {p: b for p, b in cf.hir.items() if not p.startswith("<")}
    if not (r.anchor(TOKEN, m.fns.get(TOKEN)) and r.anchor(FORMAT_NODE, m.fns.get(FORMAT_NODE))):
        return None
    m.base_emit = {TOKEN: 1, FORMAT_NODE: 0}
    # Formatter combinators: call their closure parameter exactly once, unconditionally
    for p, b in m.fns.items():
        if not p.startswith(FMT + "::"):
            continue
        cps = [i for i, (pat, ty) in enumerate(b["params"]) if strip_generic_closure(ty)]
        if len(cps) != 1:
            continue
        nm = b["params"][cps[0]][0][1]
        if calls_once_unconditionally(b["body"], nm):
            m.inline_once[p] = cps[0]
    # carriers: enum variants / structs of the analysed crate that hold a syntax element
    for a in cf.items["adts"]:
        for v in a["variants"]:
            idx = {i for i, f in enumerate(v["fields"]) if is_syntax_ty(f["ty"])}
            if idx:
                ctor = a["path"] + "::" + v["name"] if a["kind"] == "enum" else a["path"]
                m.carriers[ctor] = idx
    m.accessor_formatters = dict(ACCESSOR_FORMATTERS)
    m.droppable = frozenset(LAYOUT_KINDS) | frozenset(SEPARATOR_KINDS)
    m.comments = frozenset(COMMENT_KINDS)
    m.comment_preds = comment_predicates(m)
    return m


def comment_predicates(m):
    """functions `p(node) -> bool` of the analysed crate that are exactly "some token below node is a comment":
    node.children_with_tokens().any(|e| match e { Token(t) => matches!(t.syntax_kind(), <the comment kinds>),
    Node(n) => p(&n) })  — a false answer means no comment can be taken from that subtree."""
    out = set()
    for p, b in m.fns.items():
        if len(b["params"]) != 1 or not is_syntax_ty(b["params"][0][1]):
            continue
        pname = b["params"][0][0][1] if is_node(b["params"][0][0]) and b["params"][0][0][0] == "pbind" else None
        body = hirq.strip(b["body"])
        if not (is_node(body) and body[0] == "mcall" and body[2] == "core::iter::traits::iterator::Iterator::any"):
            continue
        recv = hirq.strip(body[4])
        if not (is_node(recv) and recv[0] == "mcall" and recv[2] in m.children_fns
                and hirq.local_name(recv[4]) == pname):
            continue
        if len(body[5]) != 1:
            continue
        cl = hirq.strip(body[5][0])
        if not (is_node(cl) and cl[0] == "closure" and len(cl[2]) == 1):
            continue
        mt = hirq.strip(cl[3])
        if not (is_node(mt) and mt[0] == "match" and hirq.local_name(mt[1]) is not None):
            continue
        tok_ok = node_ok = False
        for (pat, guard, arm) in hirq.match_arms(mt):
            ps = hirq.pat_paths(pat)
            names = []
            _pat_names(pat, names)
            a = hirq.strip(arm)
            if "dora_parser::ast::SyntaxElement::Token" in ps and guard is None and len(names) == 1:
                # matches!(tok.syntax_kind(), K1 | K2) with exactly the comment kinds
                if is_node(a) and a[0] == "match" and is_node(hirq.strip(a[1])) and hirq.strip(a[1])[0] == "mcall" \
                        and hirq.strip(a[1])[2] in m.syntax_kind_fns \
                        and hirq.local_name(hirq.strip(a[1])[4]) == names[0]:
                    true_kinds = set()
                    shape = True
                    for (p2, g2, a2) in hirq.match_arms(a):
                        v = hirq.strip(a2)
                        if not (is_node(v) and v[0] == "lit" and v[1] == "bool") or g2 is not None:
                            shape = False
                        elif v[2] is True:
                            true_kinds |= {last(d) for d in hirq.pat_paths(p2)}
                    tok_ok = shape and true_kinds == set(COMMENT_KINDS)
            elif "dora_parser::ast::SyntaxElement::Node" in ps and guard is None and len(names) == 1:
                if is_node(a) and a[0] == "call" and hirq.def_path(a[2]) == p and len(a[3]) == 1 \
                        and hirq.local_name(a[3][0]) == names[0]:
                    node_ok = True
        if tok_ok and node_ok:
            out.add(p)
    return out


def strip_generic_closure(ty):
    t = I.strip_ty(ty)
    return len(t) <= 2 and t.isupper() and t.isalpha()


def is_syntax_ty(ty):
    t = I.strip_ty(ty)
    return t in ("dora_parser::ast::SyntaxToken", "dora_parser::ast::SyntaxNode", "dora_parser::ast::SyntaxElement") \
        or t.startswith("dora_parser::ast::Ast")


def calls_once_unconditionally(body, name):
    """`name(..)` is called exactly once, as a top-level statement of the function body"""
    body = hirq.unmacro(body)
    if not (is_node(body) and body[0] == "block"):
        return False
    top = 0
    for st in body[1] + ([body[2]] if body[2] is not None else []):
        s = hirq.unmacro(st)
        if is_node(s) and s[0] == "call" and hirq.local_name(s[2]) == name:
            top += 1
    allc = sum(1 for n in hirq.walk(body) if n[0] == "call" and hirq.local_name(n[2]) == name)
    return top == 1 and allc == 1


# --------------------------------------------------------------------------- roots
def fn_roles(m, p, b):
    has_fmt = any(I.is_fmt_ty(ty) for (_p, ty) in b["params"]) or any(
        cs.callee == FMT + "::new" for cs in calls(b["body"]))
    has_iter = any(I.is_iter_ty(ty) for (_p, ty) in b["params"])
    creates = any(cs.callee in m.children_fns for cs in calls(b["body"]))
    return has_fmt, has_iter, creates


def iter_names_used(m, body):
    """local names used where a child iterator is expected (receiver typed SyntaxElementIter / iterator-typed
    parameter position of a function of the analysed crate)"""
    out = set()
    for cs in calls(body):
        if cs.is_method and cs.recv_ty and I.is_iter_ty(cs.recv_ty):
            n = hirq.local_name(cs.recv)
            if n:
                out.add(n)
        hb = m.fns.get(cs.callee) if cs.callee else None
        if hb is not None:
            for i, a in enumerate(cs.all_args()):
                if i < len(hb["params"]) and I.is_iter_ty(hb["params"][i][1]):
                    n = hirq.local_name(a)
                    if n:
                        out.add(n)
    return out


def closure_roots(m, p, b):
    """closure literals that are not run in place by a Formatter combinator and touch a child iterator through one
    of their own parameters → analysed as separate roots.  Returns (roots, problems)."""
    roots, problems = [], []
    inline_args = set()
    for cs in calls(b["body"]):
        if cs.callee in m.inline_once:
            for a in cs.all_args():
                a = hirq.strip(a)
                if is_node(a) and a[0] == "closure":
                    inline_args.add(id(a))
    for n in hirq.walk(b["body"]):
        if n[0] != "closure" or id(n) in inline_args:
            continue
        used = iter_names_used(m, n[3])
        if not used:
            continue
        pn = []
        for q in n[2]:
            _pat_names(q, pn)
        own = used & set(pn)
        captured = used - set(pn)
        # names bound inside the closure body itself are fine
        inner = []
        for x in hirq.walk(n[3]):
            if x[0] == "let":
                _pat_names(x[1], inner)
        captured -= set(inner)
        if captured:
            problems.append((n[1], "closure captures the child iterator(s) %s but is not run in place by a "
                                   "Formatter combinator" % sorted(captured)))
        roots.append((n[1], n, own))
    return roots, problems


class Analysis:
    """runs every root to the EMITS fixpoint and keeps the per-root results"""

    def __init__(self, m):
        self.m = m
        self.roots = {}          # key → (path, hb, closure node | None, iter param names)
        self.query = []          # functions that create an iterator but cannot emit (no Formatter in reach)
        self.problems = []       # (fn, text)
        self.results = {}        # key → dict(final, returned, interp, error)
        self.emits = {}
        for p, b in sorted(m.fns.items()):
            if not p.startswith("dora_format::doc::") or p.startswith("dora_format::doc::print::") \
                    or p.startswith("dora_format::doc::DocBuilder::"):
                continue
            has_fmt, has_iter, creates = fn_roles(m, p, b)
            if not (has_fmt or has_iter):
                if creates:
                    self.query.append(p)
                continue
            self.roots[p] = (p, b, None, ())
            cr, pr = closure_roots(m, p, b)
            for (cpath, node, own) in cr:
                self.roots[cpath] = (cpath, b, node, tuple(sorted(own)))
            for (cpath, txt) in pr:
                self.problems.append((cpath, txt))

    def run(self):
        m = self.m
        # greatest fixpoint: start from "every parameter is emitted"
        emits = {}
        for k, (p, b, cl, ip) in self.roots.items():
            if cl is None:
                emits[p] = set(range(len(b["params"])))
        for p, i in m.base_emit.items():
            emits[p] = {i}
        for p in m.accessor_formatters:
            if p in emits:
                emits[p] = {0}
        for rnd in range(12):
            changed = False
            for k, (p, b, cl, ip) in self.roots.items():
                it = Interp(m, emits)
                try:
                    res = it.run_root(p, b, closure=cl, iter_params=ip)
                    res["error"] = None
                except Unsupported as ex:
                    res = {"final": None, "returned": set(), "error": str(ex)}
                res["interp"] = it
                res["param_ids"] = dict(getattr(it, "param_ids", {}))
                self.results[k] = res
                if cl is not None or p in m.base_emit or p in m.accessor_formatters:
                    continue
                fin = res["final"]
                new = set()
                for i, eid in res["param_ids"].items():
                    if res["error"] is None and (fin is None or eid not in fin.pend):
                        new.add(i)
                if new != emits.get(p):
                    emits[p] = new
                    changed = True
            if not changed:
                break
        else:
            raise Unsupported("EMITS does not stabilise")
        self.emits = emits
        return self


# --------------------------------------------------------------------------- R1 drop discipline
def root_kind(A, key):
    p, b, cl, ip = A.roots[key]
    if cl is not None:
        return "closure"
    return "helper" if any(I.is_iter_ty(ty) for (_p, ty) in b["params"]) else "owner"


def kinds_text(ks):
    ks = sorted(ks)
    return "{%s}" % ", ".join(ks) if len(ks) <= 8 else "<%d kinds: not established by a test>" % len(ks)


def run_r1(chk, cf, m, A):
    r = chk.rule("C17.R1", "every element taken from a child iterator is emitted on every non-panicking path, or its "
                           "kind is established by a dominating test and is layout / an optional separator / a frozen "
                           "reasoned exception — never a comment")
    droppable = m.droppable
    for (fn, txt) in A.problems:
        analysis(r, "%s:closure-captures-iterator" % short(fn), txt, where(cf, fn.split("::{closure")[0]))
    for key, res in sorted(A.results.items()):
        if res["error"]:
            analysis(r, "%s:unsupported" % short(key), "cannot interpret: %s" % res["error"],
                     where(cf, key.split("::{closure")[0]))
    # every consuming call site that was evaluated (per site function)
    sites = {}
    for key, res in A.results.items():
        for (sk, info) in res["interp"].sites.items():
            sites.setdefault(sk, info["line"])
    # 1. the site's own (helper) root: concrete kind sets are final there and reported once
    reported = set()          # (site fn, site node id, kind)
    drops = []                # (root key, rootkind, site fn, site id, line, kinds)
    for key, res in sorted(A.results.items()):
        fin = res["final"]
        if fin is None:
            continue
        it = res["interp"]
        rk = root_kind(A, key)
        entries = [(eid, ks) for eid, ks in fin.pend.items()] + list(fin.leaked)
        for eid, ks in entries:
            info = it.eleminfo[eid]
            if info["origin"] == "param":
                continue
            ks = frozenset(k for k in ks if k != END)
            if not ks or ks <= droppable:
                continue
            drops.append((key, rk, info, ks))
    used_exc = set()
    n_param_sites = set()

    def judge(key, rk, info, ks, final_here):
        site_fn, line = info["fn"], info["line"]
        sid = info.get("site")
        symbolic = any(I.is_sym(k) for k in ks)
        unknown = len(ks) > 8
        if not final_here and (symbolic or unknown):
            return                      # decided in the callers' contexts (the helper is inlined there)
        origin = info["origin"]
        what = "element taken at %s (in %s)" % (where(cf, site_fn, line) or "?", short(site_fn)) \
            if origin == "consumed" else "token carried in %s" % origin.split(":", 1)[1]
        for k in sorted(ks):
            if k in droppable:
                continue
            if (site_fn, sid, k) in reported:
                continue
            ikey = "%s:%s:drop:%s" % (short(key), last(site_fn), k) if key != site_fn else \
                "%s:drop:%s" % (short(key), k)
            if unknown or I.is_sym(k):
                r.instance("%s:%s:drop:unknown-kind" % (short(key), last(site_fn)))
                r.violation("%s:%s:drop:unknown-kind" % (short(key), last(site_fn)),
                            "%s is not emitted on some non-panicking path and its kind is not established by a "
                            "dominating test on the peeked kind: any code token or comment at that position is lost"
                            % what, where(cf, site_fn, line))
                reported.add((site_fn, sid, k))
                if unknown:
                    for k2 in ks:
                        reported.add((site_fn, sid, k2))
                    return
                continue
            r.instance(ikey, sample={"root": key, "site": site_fn, "kind": k})
            reported.add((site_fn, sid, k))
            if k in COMMENT_KINDS:
                r.violation(ikey, "%s can be a %s and is not emitted on some non-panicking path: the comment is "
                                  "missing from the output" % (what, k), where(cf, site_fn, line))
            elif (key, k) in DROP_EXCEPTIONS:
                used_exc.add((key, k))
                n_param_sites.add((key, k))
            else:
                kind = "node" if k in m.nodek else "code token"
                r.violation(ikey, "%s can be the %s %s and is not emitted on some non-panicking path of %s: it is "
                                  "missing from the output" % (what, kind, k, short(key)), where(cf, site_fn, line))

    for (key, rk, info, ks) in drops:
        if rk == "helper" and key == info["fn"]:
            judge(key, rk, info, ks, False)
    for (key, rk, info, ks) in drops:
        if rk == "helper":
            if key != info["fn"]:
                judge(key, rk, info, ks, False)
        else:
            judge(key, rk, info, ks, True)
    # the generic primitive(s): sites whose kind is a parameter in their own analysis
    param_sites = set()
    for (key, rk, info, ks) in drops:
        if rk == "helper" and any(I.is_sym(k) for k in ks):
            param_sites.add((info["fn"], info.get("site")))
    for (key, rk, info, ks) in drops:
        if rk != "helper" and (info["fn"], info.get("site")) in param_sites:
            for k in ks:
                n_param_sites.add((key, k))
    # benign drops (layout / separators) are instances too: one per site and kind
    ben = {}
    for key, res in A.results.items():
        it = res["interp"]
        for (sk, rks) in it.benign.items():
            ben.setdefault(sk, set()).update(k for (_r, k) in rks)
            if sk in param_sites and rk_is_final(A, key):
                for (_r, k) in rks:
                    n_param_sites.add((key, k))
        fin = res["final"]
        if fin is not None:
            for eid, ks in list(fin.pend.items()) + list(fin.leaked):
                info = it.eleminfo[eid]
                ks2 = frozenset(k for k in ks if k != END)
                if info["origin"] == "consumed" and ks2 and ks2 <= droppable:
                    ben.setdefault((info["fn"], info.get("site")), set()).update(ks2)
    for (sfn, sid), ks in sorted(ben.items(), key=lambda x: (x[0][0], sites.get(x[0], 0))):
        for k in sorted(ks):
            r.instance("%s:line%d:drop:%s" % (short(sfn), sites.get((sfn, sid), 0), k), nontrivial=True)
    for sk in sorted(sites, key=lambda x: (x[0], sites[x])):
        if sk not in ben and not any(d[2]["fn"] == sk[0] and d[2].get("site") == sk[1] for d in drops):
            r.instance("%s:line%d:emitted" % (short(sk[0]), sites[sk]))
    for (key, k), why in sorted(DROP_EXCEPTIONS.items()):
        if (key, k) not in used_exc:
            analysis(r, "%s:stale-exception:%s" % (short(key), k),
                     "the frozen exception (%s drops %s: %s) no longer matches any drop site — re-read the code"
                     % (short(key), k, why))
        else:
            r.observe("excused: %s drops %s — %s" % (short(key), k, why))
    hv = set()
    for key, res in A.results.items():
        for h in res["interp"].havocs:
            hv.add((h[1], h[3]))
    for (fn, whatx) in sorted(hv):
        r.observe("%s: %s — the iterator state is forgotten there; the callee's own drops are judged in its own "
                  "analysis" % (short(fn), whatx))
    for q in A.query:
        r.observe("%s walks children_with_tokens() without a Formatter in reach: a query, cannot emit or drop" % short(q))
    r.floor("consuming call sites evaluated", len(sites), 30)
    r.floor("roots analysed", len(A.results), 120)
    r.floor("kinds passed to the generic eat primitive", len(n_param_sites), 5)
    return r


def rk_is_final(A, key):
    return root_kind(A, key) != "helper"

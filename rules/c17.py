"""C17 — "formatting never changes a program and is stable": PARTIAL, structural claim.

dora-format turns the lossless syntax tree back into text: every formatter walks `node.children_with_tokens()`
(a dora_parser SyntaxElementIter) and either EMITS what it takes from that iterator (Formatter::token pushes the
token's own text, format_node recurses, a formatter that takes the node walks its children) or DROPS it (whitespace
and newlines are layout; optional separators are re-synthesised).  A code token or a comment is lost exactly when
some non-panicking path takes an element and does not emit it, or lets an iterator go out of scope before it is
exhausted; a token is invented exactly when text that did not come from a token is pushed.  The rules decide these
*by construction* facts with an abstract interpreter over the HIR (rules/c17_interp.py: kind sets of the next
element refined by the tests on peek_kind(), pending elements, iterator deaths; helpers that take the iterator are
inlined, formatters that take a node are summarised by an EMITS greatest fixpoint) and the output self-check of
format_source_with_line_length with MIR dominators:

  R0  anchors: kinds, trivia (= TokenKind::is_trivia), node kinds (= what Parser::close is given), which
      SyntaxElementIter methods advance `index`, identity conversions (cast/as_*/to_*/unwrap/…, derived from
      dora_parser's bodies), emitters, the has_comment predicate; every formatter is inside the interpreted fragment
  R1  drop discipline: every element taken and not emitted has a kind set established by a dominating test on the
      peeked kind, ⊆ {WHITESPACE, NEWLINE, COMMA} (or a frozen, reasoned (function, kind) exception); never a comment
  R2  kind dispatches with layout arms (the trivia loops): the arm a comment takes emits, with Formatter::token,
      the very token it took — or leaves it unconsumed
  R3  exhaustive consumption: an iterator created by a formatter is exhausted (asserted / looped to None) when it
      goes out of scope on every non-panicking path
  R4  dispatch coverage: every node kind the parser closes has a format_node arm that emits the node; the
      unreachable!() arm of LIST_ITEM is justified by the list formatters handling their items themselves
  R5  output self-check: Ok(text) is only returned after the input parsed without errors (else Err) and `text`
      itself was parsed again and its error list checked to be empty
  R6  emitted text is the token's own text; synthesised text is layout/separator characters or the re-emission of
      a token kind the same function eats (paired with R1's frozen exceptions)

  R7  a line comment ends its line: after Formatter::token on an element that can be a LINE_COMMENT the next
      thing pushed to the output on every non-panicking path is a hard line (Formatter::hard_line), before any
      token/text/doc and before the function returns; a deferred doc (concat closure) that ends in a line comment
      is tracked through its carrier to every consumer, which must append a hard line or test ends_with_hard_line

NOT decided: idempotence; width-dependent layout; the order of emitted tokens (use declarations and modifiers are
sorted on purpose); duplication of tokens; the Doc → text renderer; flow of docs/tokens through containers (Vec)
between the function that fills and the one that empties them; that COMMA is optional wherever it is dropped;
grammar facts quoted as frozen one-line reasons (DRAINED_OK, ACCESSOR_FORMATTERS, UNREACHABLE_ARMS,
NO_DIRECT_COMMENT); that Doc::HardLine really breaks the line in the renderer and that nothing else re-joins lines.
"""
import cfg
import hirq
from cfg import Body, origin, simple_defs
from hirq import is_node, last, calls
from rules import c06
from rules import c17_interp as I
from rules.c17_interp import Interp, Model, Unsupported, END

CF = "dora_format"
CP = "dora_parser"
FMT = "dora_format::doc::Formatter"
FORMAT_NODE = "dora_format::doc::format_node"
TOKEN = FMT + "::token"
TEXT = FMT + "::text"

# the property's own vocabulary (C17: "... and every comment of the input"; "only layout, blank lines and optional
# trailing separators may differ")
COMMENT_KINDS = ("LINE_COMMENT", "MULTILINE_COMMENT")
LAYOUT_KINDS = ("WHITESPACE", "NEWLINE")
SEPARATOR_KINDS = ("COMMA",)

# Frozen exceptions, each justified by reading the code (key: (function that owns the iterator, kind)).
DROP_EXCEPTIONS = {
    ("dora_format::doc::use_::format_use_group", "L_BRACE"):
        "use group braces are eaten and re-synthesised as text \"{\" unless the group has exactly one item and no "
        "comment (`use a::{b}` is deliberately normalised to `use a::b`)",
    ("dora_format::doc::use_::format_use_group", "R_BRACE"):
        "closing brace of the use group: re-synthesised as \"}\" together with the opening one (see L_BRACE)",
    ("dora_format::doc::ty::format_lambda_param_list::{closure#0}", "DOT_DOT_DOT"):
        "`if eat_token_opt(.., DOT_DOT_DOT, ..) { f.text(\"...\") }`: the variadic marker is re-synthesised "
        "immediately, guarded by the eat's own result",
}

# Frozen: text synthesised although it is not layout — allowed only as the re-emission of a token kind that the same
# function eats (must pair with a DROP_EXCEPTIONS entry; cross-checked against the parser's token_name table where
# that table names the kind).  (function, literal) → kind
SYNTHESISED = {
    ("dora_format::doc::use_::format_use_group", "{"): "L_BRACE",
    ("dora_format::doc::use_::format_use_group", "}"): "R_BRACE",
    ("dora_format::doc::ty::format_lambda_param_list::{closure#0}", "..."): "DOT_DOT_DOT",
}
# Frozen: iterators that die un-asserted but *drained* (all trivia emitted, next element is code or the end):
# acceptable only where the grammar admits no further child (reason read from the parser's production).
DRAINED_OK = {
    "dora_format::doc::expr::collect_field_chain:iter":
        "FIELD_EXPR is exactly `expr . name|int` (parse_postfix_expr closes right after the name): nothing follows the "
        "name but trailing trivia, which the final collect_comments emits",
    "dora_format::doc::bin::collect_bin_chain:iter":
        "BIN_EXPR is exactly `lhs op rhs` (parse_expr_bp closes right after the rhs): nothing follows rhs; trailing "
        "trivia is taken by rhs' innermost node (inner close first)",
    "dora_format::doc::bin::format_assign:iter":
        "ASSIGN_EXPR is exactly `lhs op rhs` (parse_expr_bp): nothing follows rhs; a node's close takes the trailing "
        "trivia before its parent's close can, so none is left between rhs and the end",
    "dora_format::doc::element_list::format_element_list:iter":
        "ELEMENT_LIST holds elements and trivia only (parse_file / parse_element_list): collect_nodes::<AstElement> "
        "drains both; after the closing brace only trivia remains and print_trivia emits it",
}

# Frozen: formatters that reach their children through a parser accessor instead of the child iterator.
ACCESSOR_FORMATTERS = {
    "dora_format::doc::element::format_modifier_list":
        "MODIFIER_LIST's direct children are MODIFIER nodes only (parse_modifier_list opens a MODIFIER around every "
        "token; leading trivia is emitted with the first token inside the node, trailing trivia by the inner close "
        "first), so AstModifierList::items() visits every child",
}


def where(c, path, line=None):
    fb = c.hir.get(path) or c.mir.get(path)
    if not fb:
        return None
    return "%s:%d" % (fb["file"], line or fb["line"])


def analysis(r, key, msg, w=None):
    r.violation("ANALYSIS:" + key, msg, w)


def short(p):
    return p.replace("dora_format::doc::", "").replace("dora_format::", "")


# --------------------------------------------------------------------------- model (derived from the two crates)
def identity_fns(cp):
    """dora_parser functions that return their first parameter's very element, possibly wrapped (cast, as_*, to_*,
    unwrap, syntax_node, to_token, to_node …): greatest fixpoint over the HIR.  Value: None | 'tok' | 'node' | 'cast'
    (an Option that is None when the element is not a token / not a node / not castable)."""
    cand = {}
    outs = {f["path"]: f.get("output", "") for f in cp.items["fns"]}
    for p, b in cp.hir.items():
        if not p.startswith("dora_parser::ast::") and not p.startswith("<dora_parser::ast::"):
            continue
        if not b["params"]:
            continue
        o = I.strip_ty(outs.get(p, ""))
        if o.startswith("core::option::Option<") and o.endswith(">"):
            o = I.strip_ty(o[len("core::option::Option<"):-1])
        if not (is_syntax_ty(o) or o == "Self"):
            continue
        pat = b["params"][0][0]
        if not (is_node(pat) and pat[0] == "pbind"):
            continue
        cand[p] = (pat[1], b["body"])
    ok = set(cand)
    # trait declarations resolve to "all impls"
    impls = {}
    for p in cand:
        if p.startswith("<") and " as dora_parser::ast::" in p:
            tr = p[1:].split(" as ", 1)[1]
            trait, meth = tr.split(">::", 1)
            impls.setdefault(trait + "::" + meth, []).append(p)

    def callee_ok(path):
        if path in ok:
            return True
        if path in impls:
            return all(q in ok for q in impls[path])
        return path in I.STD_IDENTITY

    def ident(e, ids):
        e = hirq.unmacro(e)
        if not is_node(e):
            return False
        k = e[0]
        if k == "local":
            return e[1] in ids
        if k == "block":
            for st in e[1]:
                st = hirq.unmacro(st)
                # only guard statements: `if c { return <identity or None> }`
                if not (is_node(st) and st[0] == "if" and st[3] is None and only_returns(st[2], ids)):
                    return False
            return e[2] is not None and ident(e[2], ids)
        if k == "ret":
            return e[1] is not None and ident(e[1], ids)
        if k in ("addr",):
            return ident(e[2], ids)
        if k == "un" and e[1] == "Deref":
            return ident(e[2], ids)
        if k == "field":
            return e[2] == "0" and ident(e[1], ids)
        if k == "def":
            return e[2] == "core::option::Option::None"
        if k == "call":
            c = e[2]
            if is_node(c) and c[0] == "def":
                if c[1] in ("ctor", "selfctor", "variant"):
                    return len(e[3]) == 1 and ident(e[3][0], ids)
                if c[2].startswith("core::panicking::"):
                    return True
                return len(e[3]) == 1 and callee_ok(c[2]) and ident(e[3][0], ids)
            return False
        if k == "mcall":
            if e[2] is None:
                return False
            return callee_ok(e[2]) and ident(e[4], ids)
        if k == "if":
            return ident(e[2], ids) and (e[3] is not None and ident(e[3], ids))
        if k == "match":
            scrut_id = ident(e[1], ids)
            for (pat, guard, arm) in hirq.match_arms(e):
                names = []
                if scrut_id:
                    _pat_names(pat, names)
                if hirq.is_panic_body(arm):
                    continue
                if not ident(arm, ids | set(names)):
                    return False
            return True
        return False

    def only_returns(blk, ids):
        blk = hirq.unmacro(blk)
        if not (is_node(blk) and blk[0] == "block"):
            return False
        items = list(blk[1]) + ([blk[2]] if blk[2] is not None else [])
        return len(items) == 1 and is_node(items[0]) and items[0][0] == "ret" and ident(items[0], ids)

    changed = True
    while changed:
        changed = False
        for p in sorted(ok):
            nm, body = cand[p]
            if hirq.is_panic_body(body) or not ident(body, {nm}):
                ok.discard(p)
                changed = True
    out = {}
    for p in ok:
        out[p] = _option_flavour(p, cand[p][1])
    for t, ps in impls.items():
        if ps and all(q in ok for q in ps):
            fl = {out[q] for q in ps}
            out[t] = fl.pop() if len(fl) == 1 else "cast"
    return out


def _pat_names(p, out):
    if not is_node(p):
        return
    if p[0] == "pbind":
        out.append(p[1])
        if p[2] is not None:
            _pat_names(p[2], out)
    elif p[0] == "pts":
        for q in p[2]:
            _pat_names(q, out)
    elif p[0] == "pstruct":
        for fld in p[2]:
            _pat_names(fld[1], out)
    elif p[0] in ("ptuple", "por"):
        for q in p[1]:
            _pat_names(q, out)
    elif p[0] == "pref":
        _pat_names(p[1], out)


def _option_flavour(path, body):
    """does the conversion return an Option, and what does None mean?"""
    some = [n for n in hirq.walk(body) if n[0] == "call" and is_node(n[2]) and n[2][0] == "def"
            and n[2][2] == "core::option::Option::Some"]
    none = [n for n in hirq.walk(body) if n[0] == "def" and n[2] == "core::option::Option::None"]
    if not some and not none:
        # a delegating conversion keeps the flavour of what it calls: decided by name of the trait method
        if path.endswith("::cast") or "::to_" in path and not path.endswith(("to_token", "to_node")):
            return "cast"
        return None
    for n in hirq.walk(body):
        if n[0] == "match":
            for (pat, guard, arm) in hirq.match_arms(n):
                ps = hirq.pat_paths(pat)
                if any(a[0] == "call" and a in some for a in hirq.walk(arm)):
                    if "dora_parser::ast::SyntaxElement::Token" in ps:
                        return "tok"
                    if "dora_parser::ast::SyntaxElement::Node" in ps:
                        return "node"
    return "cast"


def build_model(r, cf, cp):
    m = Model()
    tk = cp.adt("token::TokenKind")
    if not r.anchor("dora_parser::token::TokenKind", tk):
        return None
    m.allk = frozenset(v["name"] for v in tk["variants"])
    # trivia = the kinds for which TokenKind::is_trivia answers true
    it = cp.hir_fn("token::TokenKind::is_trivia")
    if not r.anchor("dora_parser::token::TokenKind::is_trivia", it):
        return None
    tr = set()
    for n in hirq.walk(it["body"]):
        if n[0] == "match":
            for (pat, guard, arm) in hirq.match_arms(n):
                a = hirq.strip(arm)
                if is_node(a) and a[0] == "lit" and a[2] is True and guard is None:
                    tr |= {last(d) for d in hirq.pat_paths(pat)}
    m.trivia = frozenset(tr)
    if not r.anchor("is_trivia == comments + layout", set(tr) == set(COMMENT_KINDS) | set(LAYOUT_KINDS)):
        return None
    # node kinds = what the parser closes
    total, vp, nclose = c06.closed_sets(c06._parser_fns(cp))
    nodek = set()
    for s in list(total.values()) + list(vp.values()):
        nodek |= s
    if not r.anchor("Parser::close kinds are constants", "<non-constant>" not in nodek and nclose >= 90):
        return None
    m.nodek = frozenset(nodek)
    m.nclose = nclose
    # child iterator methods: which advance `index`?
    for im in cp.items["impls"]:
        if not im["self_ty"].startswith(I.ITER_TY):
            continue
        for (name, path) in im["methods"]:
            b = cp.hir.get(path)
            if b is None:
                continue
            adv = False
            for n in hirq.walk(b["body"]):
                if n[0] in ("assign", "assignop"):
                    lhs = n[1] if n[0] == "assign" else n[2]
                    lhs = hirq.strip(lhs)
                    if is_node(lhs) and lhs[0] == "field" and lhs[2] in ("index", "current_offset") \
                            and hirq.local_name(lhs[1]) == "self":
                        adv = True
            call_path = (im["trait"] + "::" + name) if im["trait"] else path
            if adv:
                m.consuming.add(call_path)
                m.consuming.add(path)
            else:
                m.iter_readonly.add(call_path)
                m.iter_readonly.add(path)
    pk = "dora_parser::ast::SyntaxElementIter::<'a>::peek_kind"
    pn = "dora_parser::ast::SyntaxElementIter::<'a>::peek_kind_ignore_trivia"
    bk, bn = cp.hir.get(pk), cp.hir.get(pn)
    if not (r.anchor(pk, bk) and r.anchor(pn, bn)):
        return None
    # peek_kind looks at elements[index] only; peek_kind_ignore_trivia skips elements for which is_trivia() holds
    k_loops = [n for n in hirq.walk(bk["body"]) if n[0] == "loop"]
    n_triv = [cs for cs in calls(bn["body"]) if cs.name == "is_trivia"]
    n_loops = [n for n in hirq.walk(bn["body"]) if n[0] == "loop"]
    if not r.anchor("peek_kind: no loop / peek_kind_ignore_trivia: loop skipping is_trivia()",
                    not k_loops and n_triv and n_loops):
        return None
    m.peek_h.add(pk)
    m.peek_n.add(pn)
    m.iter_readonly.discard(pk)
    m.iter_readonly.discard(pn)
    if not r.anchor("SyntaxElementIter: exactly Iterator::next advances", I.NEXT in m.consuming):
        return None
    m.identity = identity_fns(cp)
    for need in ("dora_parser::ast::SyntaxElement::to_token", "dora_parser::ast::SyntaxElement::to_node",
                 "dora_parser::ast::SyntaxNodeBase::cast", "dora_parser::ast::SyntaxNodeBase::unwrap",
                 "dora_parser::ast::SyntaxNodeBase::syntax_node"):
        if not r.anchor("identity conversion " + need, need in m.identity):
            return None
    if not r.anchor("to_token()/to_node() filter tokens/nodes",
                    m.identity["dora_parser::ast::SyntaxElement::to_token"] == "tok"
                    and m.identity["dora_parser::ast::SyntaxElement::to_node"] == "node"):
        return None
    m.syntax_kind_fns = {p for p in list(cp.hir) if p.endswith("::syntax_kind")} | {
        "dora_parser::ast::SyntaxNodeBase::syntax_kind"}
    m.children_fns = {p for p in list(cp.hir) if p.endswith("::children_with_tokens")} | {
        "dora_parser::ast::SyntaxNodeBase::children_with_tokens"}
    if not r.anchor("SyntaxNode::children_with_tokens", "dora_parser::ast::SyntaxNode::children_with_tokens"
                                                        in m.children_fns):
        return None
    # the analysed crate
    m.fns = {p: b for p, b in cf.hir.items() if not p.startswith("<")}
    if not (r.anchor(TOKEN, m.fns.get(TOKEN)) and r.anchor(FORMAT_NODE, m.fns.get(FORMAT_NODE))):
        return None
    m.base_emit = {TOKEN: 1, FORMAT_NODE: 0}
    # Formatter combinators: call their closure parameter exactly once, unconditionally
    for p, b in m.fns.items():
        if not p.startswith(FMT + "::"):
            continue
        cps = [i for i, (pat, ty) in enumerate(b["params"]) if strip_generic_closure(ty)]
        if len(cps) != 1:
            continue
        nm = b["params"][cps[0]][0][1]
        if calls_once_unconditionally(b["body"], nm):
            m.inline_once[p] = cps[0]
    # carriers: enum variants / structs of the analysed crate that hold a syntax element
    for a in cf.items["adts"]:
        for v in a["variants"]:
            idx = {i for i, f in enumerate(v["fields"]) if is_syntax_ty(f["ty"])}
            if idx:
                ctor = a["path"] + "::" + v["name"] if a["kind"] == "enum" else a["path"]
                m.carriers[ctor] = idx
    # what the Formatter's methods append to the output (R7)
    m.token_fn = TOKEN
    m.line_comment = COMMENT_KINDS[0]
    fn_items = {f["path"]: f for f in cf.items["fns"]}
    for p, b in m.fns.items():
        if not p.startswith(FMT + "::"):
            continue
        pushes = [n for n in hirq.walk(b["body"]) if n[0] == "mcall" and n[3] == "push"
                  and is_node(hirq.strip(n[4])) and hirq.strip(n[4])[0] == "field" and hirq.strip(n[4])[2] == "out"
                  and hirq.local_name(hirq.strip(n[4])[1]) == "self"]
        item = fn_items.get(p, {})
        if any(I.strip_ty(t) == "alloc::vec::Vec<%s>" % m.doc_ty for t in item.get("inputs", [])[1:]) \
                and I.strip_ty(item.get("output", "")) == m.doc_ty:
            m.doc_from_children.add(p)
        if p in m.inline_once:
            if not pushes:
                m.comb_kind[p] = "detach"
            else:
                variants = {last(hirq.def_path(x[1]) or "") for n in pushes for x in hirq.walk(n) if x[0] == "struct"}
                # Doc::IfBreak is rendered only when the enclosing group breaks (frozen knowledge of the Doc algebra)
                m.comb_kind[p] = "ifbreak" if "IfBreak" in variants else "wrap"
            continue
        if p == TOKEN or len(pushes) != 1:
            continue
        arg = hirq.strip(pushes[0][5][0]) if pushes[0][5] else None
        if hirq.def_path(arg) == m.doc_ty + "::HardLine" and is_node(arg) and arg[0] == "def":
            m.fmt_push[p] = "hard"
        elif hirq.local_name(arg) and any(is_node(pt) and pt[0] == "pbind" and pt[1] == hirq.local_name(arg)
                                          and I.strip_ty(ty) == m.doc_ty for (pt, ty) in b["params"]):
            m.fmt_push[p] = "append"
        else:
            m.fmt_push[p] = "generic"
    m.is_trivia_fn = "dora_parser::token::TokenKind::is_trivia"
    m.ehl_preds = hard_line_predicates(m)
    for a in cf.items["adts"]:
        for v in a["variants"]:
            idx = {i for i, f in enumerate(v["fields"]) if I.strip_ty(f["ty"]) == m.doc_ty}
            if idx and a["path"] != m.doc_ty:
                ctor = a["path"] + "::" + v["name"] if a["kind"] == "enum" else a["path"]
                m.doc_carriers[ctor] = idx
    m.accessor_formatters = dict(ACCESSOR_FORMATTERS)
    m.droppable = frozenset(LAYOUT_KINDS) | frozenset(SEPARATOR_KINDS)
    m.comments = frozenset(COMMENT_KINDS)
    m.comment_preds = comment_predicates(m)
    return m


def hard_line_predicates(m):
    """functions `p(&Doc) -> bool` that can only answer true for a doc whose last rendered piece is Doc::HardLine:
    a match on the parameter whose only `true` is the arm for Doc::HardLine, every other arm being false or a
    recursive call on a sub-document bound by that arm's pattern (the last child of a Concat, the body of a
    Nest/Group)."""
    out = set()
    for p, b in m.fns.items():
        if len(b["params"]) != 1 or I.strip_ty(b["params"][0][1]) != m.doc_ty:
            continue
        body = hirq.strip(b["body"])
        if not (is_node(body) and body[0] == "match" and hirq.local_name(body[1]) == b["params"][0][0][1]):
            continue
        ok, saw_true = True, False

        def leaf_ok(e, hard):
            e = hirq.strip(e)
            if not is_node(e):
                return False
            if e[0] == "lit" and e[1] == "bool":
                return e[2] is False or hard
            if e[0] == "call" and hirq.def_path(e[2]) == p:
                return True
            if e[0] == "if" and e[3] is not None:
                c = e[1]
                cond_ok = is_node(c) and c[0] == "letx" and is_node(hirq.strip(c[2])) and \
                    hirq.strip(c[2])[0] == "mcall" and hirq.strip(c[2])[3] == "last"
                return cond_ok and leaf_ok(e[2], hard) and leaf_ok(e[3], hard)
            return False
        for (pat, guard, arm) in hirq.match_arms(body):
            ps = set(hirq.pat_paths(pat))
            hard = ps == {m.doc_ty + "::HardLine"} and guard is None
            if hard:
                a = hirq.strip(arm)
                saw_true = saw_true or (is_node(a) and a[0] == "lit" and a[2] is True)
            if not leaf_ok(arm, hard):
                ok = False
        if ok and saw_true:
            out.add(p)
    return out


def comment_predicates(m):
    """functions `p(node) -> bool` of the analysed crate that are exactly "some token below node is a comment":
    node.children_with_tokens().any(|e| match e { Token(t) => matches!(t.syntax_kind(), <the comment kinds>),
    Node(n) => p(&n) })  — a false answer means no comment can be taken from that subtree."""
    out = set()
    for p, b in m.fns.items():
        if len(b["params"]) != 1 or not is_syntax_ty(b["params"][0][1]):
            continue
        pname = b["params"][0][0][1] if is_node(b["params"][0][0]) and b["params"][0][0][0] == "pbind" else None
        body = hirq.strip(b["body"])
        if not (is_node(body) and body[0] == "mcall" and body[2] == "core::iter::traits::iterator::Iterator::any"):
            continue
        recv = hirq.strip(body[4])
        if not (is_node(recv) and recv[0] == "mcall" and recv[2] in m.children_fns
                and hirq.local_name(recv[4]) == pname):
            continue
        if len(body[5]) != 1:
            continue
        cl = hirq.strip(body[5][0])
        if not (is_node(cl) and cl[0] == "closure" and len(cl[2]) == 1):
            continue
        mt = hirq.strip(cl[3])
        if not (is_node(mt) and mt[0] == "match" and hirq.local_name(mt[1]) is not None):
            continue
        tok_ok = node_ok = False
        for (pat, guard, arm) in hirq.match_arms(mt):
            ps = hirq.pat_paths(pat)
            names = []
            _pat_names(pat, names)
            a = hirq.strip(arm)
            if "dora_parser::ast::SyntaxElement::Token" in ps and guard is None and len(names) == 1:
                # matches!(tok.syntax_kind(), K1 | K2) with exactly the comment kinds
                if is_node(a) and a[0] == "match" and is_node(hirq.strip(a[1])) and hirq.strip(a[1])[0] == "mcall" \
                        and hirq.strip(a[1])[2] in m.syntax_kind_fns \
                        and hirq.local_name(hirq.strip(a[1])[4]) == names[0]:
                    true_kinds = set()
                    shape = True
                    for (p2, g2, a2) in hirq.match_arms(a):
                        v = hirq.strip(a2)
                        if not (is_node(v) and v[0] == "lit" and v[1] == "bool") or g2 is not None:
                            shape = False
                        elif v[2] is True:
                            true_kinds |= {last(d) for d in hirq.pat_paths(p2)}
                    tok_ok = shape and true_kinds == set(COMMENT_KINDS)
            elif "dora_parser::ast::SyntaxElement::Node" in ps and guard is None and len(names) == 1:
                if is_node(a) and a[0] == "call" and hirq.def_path(a[2]) == p and len(a[3]) == 1 \
                        and hirq.local_name(a[3][0]) == names[0]:
                    node_ok = True
        if tok_ok and node_ok:
            out.add(p)
    return out


def strip_generic_closure(ty):
    t = I.strip_ty(ty)
    return len(t) <= 2 and t.isupper() and t.isalpha()


def is_syntax_ty(ty):
    t = I.strip_ty(ty)
    return t in ("dora_parser::ast::SyntaxToken", "dora_parser::ast::SyntaxNode", "dora_parser::ast::SyntaxElement") \
        or t.startswith("dora_parser::ast::Ast")


def calls_once_unconditionally(body, name):
    """`name(..)` is called exactly once, as a top-level statement of the function body"""
    body = hirq.unmacro(body)
    if not (is_node(body) and body[0] == "block"):
        return False
    top = 0
    for st in body[1] + ([body[2]] if body[2] is not None else []):
        s = hirq.unmacro(st)
        if is_node(s) and s[0] == "call" and hirq.local_name(s[2]) == name:
            top += 1
    allc = sum(1 for n in hirq.walk(body) if n[0] == "call" and hirq.local_name(n[2]) == name)
    return top == 1 and allc == 1


# --------------------------------------------------------------------------- roots
def fn_roles(m, p, b):
    has_fmt = any(I.is_fmt_ty(ty) for (_p, ty) in b["params"]) or any(
        cs.callee == FMT + "::new" for cs in calls(b["body"]))
    has_iter = any(I.is_iter_ty(ty) for (_p, ty) in b["params"])
    creates = any(cs.callee in m.children_fns for cs in calls(b["body"]))
    return has_fmt, has_iter, creates


def iter_names_used(m, body):
    """local names used where a child iterator is expected (receiver typed SyntaxElementIter / iterator-typed
    parameter position of a function of the analysed crate)"""
    out = set()
    for cs in calls(body):
        if cs.is_method and cs.recv_ty and I.is_iter_ty(cs.recv_ty):
            n = hirq.local_name(cs.recv)
            if n:
                out.add(n)
        hb = m.fns.get(cs.callee) if cs.callee else None
        if hb is not None:
            for i, a in enumerate(cs.all_args()):
                if i < len(hb["params"]) and I.is_iter_ty(hb["params"][i][1]):
                    n = hirq.local_name(a)
                    if n:
                        out.add(n)
    return out


def closure_roots(m, p, b):
    """closure literals that are not run in place by a Formatter combinator and touch a child iterator through one
    of their own parameters → analysed as separate roots.  Returns (roots, problems)."""
    roots, problems = [], []
    inline_args = set()
    for cs in calls(b["body"]):
        if cs.callee in m.inline_once:
            for a in cs.all_args():
                a = hirq.strip(a)
                if is_node(a) and a[0] == "closure":
                    inline_args.add(id(a))
    for n in hirq.walk(b["body"]):
        if n[0] != "closure" or id(n) in inline_args:
            continue
        used = iter_names_used(m, n[3])
        if not used:
            continue
        pn = []
        for q in n[2]:
            _pat_names(q, pn)
        own = used & set(pn)
        captured = used - set(pn)
        # names bound inside the closure body itself are fine
        inner = []
        for x in hirq.walk(n[3]):
            if x[0] == "let":
                _pat_names(x[1], inner)
        captured -= set(inner)
        if captured:
            problems.append((n[1], "closure captures the child iterator(s) %s but is not run in place by a "
                                   "Formatter combinator" % sorted(captured)))
        roots.append((n[1], n, own))
    return roots, problems


class Analysis:
    """runs every root to the EMITS fixpoint and keeps the per-root results"""

    def __init__(self, m):
        self.m = m
        self.roots = {}          # key → (path, hb, closure node | None, iter param names)
        self.query = []          # functions that create an iterator but cannot emit (no Formatter in reach)
        self.problems = []       # (fn, text)
        self.results = {}        # key → dict(final, returned, interp, error)
        self.emits = {}
        for p, b in sorted(m.fns.items()):
            if p.startswith("dora_format::doc::print::") or p.startswith("dora_format::doc::DocBuilder::"):
                continue            # the Doc debug printer and the free-standing Doc builder: no syntax tree in reach
            has_fmt, has_iter, creates = fn_roles(m, p, b)
            if not (has_fmt or has_iter):
                if creates:
                    self.query.append(p)
                continue
            self.roots[p] = (p, b, None, ())
            cr, pr = closure_roots(m, p, b)
            for (cpath, node, own) in cr:
                self.roots[cpath] = (cpath, b, node, tuple(sorted(own)))
            for (cpath, txt) in pr:
                self.problems.append((cpath, txt))

    def run(self):
        m = self.m
        # greatest fixpoint: start from "every parameter is emitted"
        emits = {}
        for k, (p, b, cl, ip) in self.roots.items():
            if cl is None:
                emits[p] = set(range(len(b["params"])))
        for p, i in m.base_emit.items():
            emits[p] = {i}
        for p in m.accessor_formatters:
            if p in emits:
                emits[p] = {0}
        self.copen, self.ckinds, self.retopen = {}, {}, set()
        for rnd in range(12):
            changed = False
            n_copen, n_ckinds, n_ret = {}, {}, set()
            for k, (p, b, cl, ip) in self.roots.items():
                it = Interp(m, emits)
                it.copen, it.ckinds, it.retopen_in = self.copen, self.ckinds, self.retopen
                try:
                    res = it.run_root(p, b, closure=cl, iter_params=ip)
                    res["error"] = None
                except Unsupported as ex:
                    res = {"final": None, "returned": set(), "error": str(ex)}
                res["interp"] = it
                res["param_ids"] = dict(getattr(it, "param_ids", {}))
                self.results[k] = res
                for ctor, fns in it.doc_carried_open.items():
                    n_copen.setdefault(ctor, set()).update(fns)
                for ctor, ks in it.carried_kinds.items():
                    n_ckinds.setdefault(ctor, set()).update(ks)
                if res.get("ret_open") and cl is None:
                    n_ret.add(p)
                if cl is not None or p in m.base_emit or p in m.accessor_formatters:
                    continue
                fin = res["final"]
                new = set()
                for i, eid in res["param_ids"].items():
                    if res["error"] is None and (fin is None or eid not in fin.pend):
                        new.add(i)
                if new != emits.get(p):
                    emits[p] = new
                    changed = True
            if n_copen != self.copen or n_ckinds != self.ckinds or n_ret != self.retopen:
                self.copen, self.ckinds, self.retopen = n_copen, n_ckinds, n_ret
                changed = True
            if not changed:
                break
        else:
            raise Unsupported("EMITS does not stabilise")
        self.emits = emits
        return self


# --------------------------------------------------------------------------- R1 drop discipline
def root_kind(A, key):
    p, b, cl, ip = A.roots[key]
    if cl is not None:
        return "closure"
    return "helper" if any(I.is_iter_ty(ty) for (_p, ty) in b["params"]) else "owner"


def kinds_text(ks):
    ks = sorted(ks)
    return "{%s}" % ", ".join(ks) if len(ks) <= 8 else "<%d kinds: not established by a test>" % len(ks)


def run_r1(chk, cf, m, A):
    r = chk.rule("C17.R1", "every element taken from a child iterator is emitted on every non-panicking path, or its "
                           "kind is established by a dominating test and is layout / an optional separator / a frozen "
                           "reasoned exception — never a comment")
    droppable = m.droppable
    for (fn, txt) in A.problems:
        analysis(r, "%s:closure-captures-iterator" % short(fn), txt, where(cf, fn.split("::{closure")[0]))
    for key, res in sorted(A.results.items()):
        if res["error"]:
            analysis(r, "%s:unsupported" % short(key), "cannot interpret: %s" % res["error"],
                     where(cf, key.split("::{closure")[0]))
    # every consuming call site that was evaluated (per site function)
    sites = {}
    for key, res in A.results.items():
        for (sk, info) in res["interp"].sites.items():
            sites.setdefault(sk, info["line"])
    # 1. the site's own (helper) root: concrete kind sets are final there and reported once
    reported = set()          # (site fn, site node id, kind)
    drops = []                # (root key, rootkind, site fn, site id, line, kinds)
    for key, res in sorted(A.results.items()):
        fin = res["final"]
        if fin is None:
            continue
        it = res["interp"]
        rk = root_kind(A, key)
        entries = [(eid, ks) for eid, ks in fin.pend.items()] + list(fin.leaked)
        for eid, ks in entries:
            info = it.eleminfo[eid]
            if info["origin"] == "param":
                continue
            ks = frozenset(k for k in ks if k != END)
            if not ks or ks <= droppable:
                continue
            drops.append((key, rk, info, ks))
    used_exc = set()
    n_param_sites = set()

    def judge(key, rk, info, ks, final_here):
        site_fn, line = info["fn"], info["line"]
        sid = info.get("site")
        symbolic = any(I.is_sym(k) for k in ks)
        unknown = len(ks) > 8
        if not final_here and (symbolic or unknown):
            return                      # decided in the callers' contexts (the helper is inlined there)
        origin = info["origin"]
        if origin.startswith("carrier:"):
            ctor = origin.split(":", 1)[1]
            ikey = "%s:carried:%s:not-emitted" % (short(key), "::".join(ctor.split("::")[-2:]))
            r.instance(ikey)
            r.violation(ikey, "a syntax element taken out of its carrier %s is not emitted on some non-panicking "
                              "path of %s: the token stored there is lost" % (ctor, short(key)), where(cf, key))
            return
        what = "element taken at %s (in %s)" % (where(cf, site_fn, line) or "?", short(site_fn))
        for k in sorted(ks):
            if k in droppable:
                continue
            if (site_fn, sid, k) in reported:
                continue
            ikey = "%s:%s:drop:%s" % (short(key), last(site_fn), k) if key != site_fn else \
                "%s:drop:%s" % (short(key), k)
            if unknown or I.is_sym(k):
                ukey = "%s:drop:unknown-kind" % short(site_fn)
                r.instance(ukey)
                r.violation(ukey,
                            "%s is not emitted on some non-panicking path (reached from %s) and its kind is not "
                            "established by a dominating test on the peeked kind: any code token, node or comment at "
                            "that position is lost" % (what, short(key)), where(cf, site_fn, line))
                reported.add((site_fn, sid, k))
                if unknown:
                    for k2 in ks:
                        reported.add((site_fn, sid, k2))
                    return
                continue
            r.instance(ikey, sample={"root": key, "site": site_fn, "kind": k})
            reported.add((site_fn, sid, k))
            if k in COMMENT_KINDS:
                r.violation(ikey, "%s can be a %s and is not emitted on some non-panicking path: the comment is "
                                  "missing from the output" % (what, k), where(cf, site_fn, line))
            elif (key, k) in DROP_EXCEPTIONS:
                used_exc.add((key, k))
                n_param_sites.add((key, k))
            else:
                kind = "node" if k in m.nodek else "code token"
                r.violation(ikey, "%s can be the %s %s and is not emitted on some non-panicking path of %s: it is "
                                  "missing from the output" % (what, kind, k, short(key)), where(cf, site_fn, line))

    # helpers that are also reached without being inlined (passed as a function value, or recursive): their own
    # analysis from an unknown state is final
    final_helpers = set()
    for key, res in A.results.items():
        final_helpers |= res["interp"].unsummarised
    for p, b in m.fns.items():
        callee_ids = {id(n[2]) for n in hirq.walk(b["body"]) if n[0] == "call"}
        for n in hirq.walk(b["body"]):
            if n[0] == "def" and n[1] == "fn" and id(n) not in callee_ids and n[2] in A.roots:
                final_helpers.add(n[2])
    for h in sorted(final_helpers):
        r.observe("%s is reached without being inlined (function value / recursion): judged from an unknown state"
                  % short(h))
    for (key, rk, info, ks) in drops:
        if rk == "helper" and key == info["fn"]:
            judge(key, rk, info, ks, key in final_helpers)
    for (key, rk, info, ks) in drops:
        if rk == "helper":
            if key != info["fn"]:
                judge(key, rk, info, ks, key in final_helpers)
        else:
            judge(key, rk, info, ks, True)
    # the generic primitive(s): sites whose kind is a parameter in their own analysis
    param_sites = set()
    for (key, rk, info, ks) in drops:
        if rk == "helper" and any(I.is_sym(k) for k in ks):
            param_sites.add((info["fn"], info.get("site")))
    for (key, rk, info, ks) in drops:
        if rk != "helper" and (info["fn"], info.get("site")) in param_sites:
            for k in ks:
                n_param_sites.add((key, k))
    # benign drops (layout / separators) are instances too: one per site and kind
    ben = {}
    for key, res in A.results.items():
        it = res["interp"]
        for (sk, rks) in it.benign.items():
            ben.setdefault(sk, set()).update(k for (_r, k) in rks)
            if sk in param_sites and rk_is_final(A, key):
                for (_r, k) in rks:
                    n_param_sites.add((key, k))
        fin = res["final"]
        if fin is not None:
            for eid, ks in list(fin.pend.items()) + list(fin.leaked):
                info = it.eleminfo[eid]
                ks2 = frozenset(k for k in ks if k != END)
                if info["origin"] == "consumed" and ks2 and ks2 <= droppable:
                    ben.setdefault((info["fn"], info.get("site")), set()).update(ks2)
    for (sfn, sid), ks in sorted(ben.items(), key=lambda x: (x[0][0], sites.get(x[0], 0))):
        for k in sorted(ks):
            r.instance("%s:line%d:drop:%s" % (short(sfn), sites.get((sfn, sid), 0), k), nontrivial=True)
    for sk in sorted(sites, key=lambda x: (x[0], sites[x])):
        if sk not in ben and not any(d[2]["fn"] == sk[0] and d[2].get("site") == sk[1] for d in drops):
            r.instance("%s:line%d:emitted" % (short(sk[0]), sites[sk]))
    # carriers: a token parked in an enum variant must be taken out again (and emitted: judged above) somewhere
    filled, opened = {}, {}
    for key, res in A.results.items():
        it = res["interp"]
        for ctor, fns in it.carried.items():
            filled.setdefault(ctor, set()).update(fns)
        for eid, info in it.eleminfo.items():
            if info["origin"].startswith("carrier:"):
                opened.setdefault(info["origin"].split(":", 1)[1], set()).add(info["fn"])
    for ctor in sorted(filled):
        ikey = "carrier:%s" % "::".join(ctor.split("::")[-2:])
        r.instance(ikey, sample={"carrier": ctor, "filled_in": sorted(filled[ctor]), "opened_in": sorted(opened.get(ctor, ()))})
        if ctor not in opened:
            r.violation(ikey + ":never-opened",
                        "tokens are stored in %s (by %s) but no function of the formatter takes them out again: they "
                        "never reach the output" % (ctor, ", ".join(short(x) for x in sorted(filled[ctor]))))
    for (key, k), why in sorted(DROP_EXCEPTIONS.items()):
        if (key, k) not in used_exc:
            analysis(r, "%s:stale-exception:%s" % (short(key), k),
                     "the frozen exception (%s drops %s: %s) no longer matches any drop site — re-read the code"
                     % (short(key), k, why))
        else:
            r.observe("excused: %s drops %s — %s" % (short(key), k, why))
    hv = set()
    for key, res in A.results.items():
        for h in res["interp"].havocs:
            hv.add((h[1], h[3]))
    for (fn, whatx) in sorted(hv):
        r.observe("%s: %s — the iterator state is forgotten there; the callee's own drops are judged in its own "
                  "analysis" % (short(fn), whatx))
    for q in A.query:
        r.observe("%s walks children_with_tokens() without a Formatter in reach: a query, cannot emit or drop" % short(q))
    r.floor("consuming call sites evaluated", len(sites), 30)
    r.floor("roots analysed", len(A.results), 120)
    r.floor("kinds passed to the generic eat primitive", len(n_param_sites), 5)
    return r


def rk_is_final(A, key):
    return root_kind(A, key) != "helper"


# --------------------------------------------------------------------------- R2 trivia loops emit comments
def _peek_matches(m, body):
    """match nodes whose scrutinee is the peeked kind of a child iterator (directly, or a variable bound from it by an
    enclosing `while let Some(k) = it.peek_kind()` / `let k = it.peek_kind()`), or the kind of a token just taken
    (`tok.syntax_kind()`), and that have an arm for a layout kind.  Yields (match node, mode, name, wrapped)."""
    bound = {}      # variable → iterator name
    for n in hirq.walk(body):
        if n[0] in ("letx", "let") and n[2] is not None:
            init = hirq.strip(n[2])
            if is_node(init) and init[0] == "mcall" and init[2] in m.peek_h:
                itn = hirq.local_name(init[4])
                names = []
                _pat_names(n[1], names)
                for nm in names:
                    bound[nm] = itn
    for n in hirq.walk(body):
        if n[0] != "match":
            continue
        arms = hirq.match_arms(n)
        if all(is_node(hirq.strip(a)) and hirq.strip(a)[0] == "lit" and hirq.strip(a)[1] == "bool"
               for (_p, _g, a) in arms):
            continue                      # matches!(..): a condition, not a dispatch
        kinds = set()
        for (pat, guard, arm) in arms:
            kinds |= _deep_kinds(pat)
        if not (kinds & set(LAYOUT_KINDS)):
            continue
        sc = hirq.strip(n[1])
        if is_node(sc) and sc[0] == "mcall" and sc[2] in m.peek_h and hirq.local_name(sc[4]):
            yield n, "peek", hirq.local_name(sc[4]), True
        elif is_node(sc) and sc[0] == "local" and sc[1] in bound and bound[sc[1]]:
            yield n, "peek", bound[sc[1]], False
        elif is_node(sc) and sc[0] == "mcall" and sc[2] in m.syntax_kind_fns and hirq.local_name(sc[4]):
            yield n, "taken", hirq.local_name(sc[4]), False


def _deep_kinds(p):
    """TokenKind constants named anywhere in a pattern (through Some(..), or-patterns, bindings)"""
    out = set()
    if not is_node(p):
        return out
    if p[0] == "ppath":
        d = hirq.def_path(p[1])
        if d and "::TokenKind::" in d:
            out.add(last(d))
    elif p[0] == "pts":
        for q in p[2]:
            out |= _deep_kinds(q)
    elif p[0] == "pstruct":
        for fld in p[2]:
            out |= _deep_kinds(fld[1])
    elif p[0] in ("por", "ptuple"):
        for q in p[1]:
            out |= _deep_kinds(q)
    elif p[0] == "pbind" and p[2] is not None:
        out |= _deep_kinds(p[2])
    elif p[0] == "pref":
        out |= _deep_kinds(p[1])
    return out


def _arm_for(m, arms, ck, wrapped):
    """index of the arm an element of kind ck takes: (index, explicit?) — guarded/wild arms are candidates in order"""
    cands = []
    for i, (pat, guard, arm) in enumerate(arms):
        ks = _deep_kinds(pat)
        if ck in ks and guard is None:
            return [(i, True)]
        if ck in ks and guard is not None:
            cands.append((i, False))
        elif not ks:
            cands.append((i, False))
            if guard is None and hirq.pat_is_wild(pat):
                break
    return cands


def run_r2(chk, cf, m, A):
    r = chk.rule("C17.R2", "in every dispatch on the kind of the next/taken trivia element (arms for WHITESPACE/NEWLINE) "
                           "the arm a comment takes emits, with Formatter::token, the very token it took — or "
                           "leaves the comment unconsumed")
    loops = 0
    for p, b in sorted(m.fns.items()):
        found = list(_peek_matches(m, b["body"]))
        for idx, (mt, mode, name, wrapped) in enumerate(found):
            loops += 1
            arms = hirq.match_arms(mt)
            for ck in COMMENT_KINDS:
                ikey = "%s:dispatch%d:%s" % (short(p), idx, ck)
                cands = _arm_for(m, arms, ck, wrapped)
                verdicts = []
                for (ai, explicit) in cands:
                    it = Interp(m, A.emits)
                    S = I.St()
                    fr = I.Frame(p, ())
                    fr.loops.append({"breaks": [], "conts": [], "depth": 0})
                    if mode == "peek":
                        key = ("param", p, "r2")
                        S.iters[key] = (frozenset({ck}), it.top, None)
                        it.iterinfo[key] = {"fn": p, "line": 0, "owned": False, "ctx": (), "root": p}
                        S.env[name] = ("iter", key)
                        for nm in _bound_names_for(mt, m):
                            S.env[nm] = ("peek", key, "H", False)
                        target = None
                    else:
                        target = ("r2", "taken")
                        it.eleminfo[target] = {"fn": p, "line": 0, "itkey": None, "origin": "consumed", "root": p,
                                               "site": None}
                        S.pend[target] = frozenset({ck})
                        S.env[name] = ("elem", target, None)
                    pat, guard, body = arms[ai]
                    try:
                        if guard is not None:
                            S, _f = it.cond(guard, S, fr)
                        out = None
                        if S is not None:
                            _v, out = it.eval(body, S, fr)
                    except Unsupported as ex:
                        analysis(r, ikey + ":unsupported", str(ex), where(cf, p))
                        continue
                    outs = [s for s in [out] + fr.loops[0]["breaks"] + fr.loops[0]["conts"] +
                            [s for (_v, s) in fr.rets] if s is not None]
                    taken = [e for e in it.consumed_order] if mode == "peek" else [target]
                    first = taken[0] if taken else None
                    if first is None:
                        verdicts.append(("unconsumed", ai, explicit))
                        continue
                    pending = any(first in s.pend for s in outs) or any(first == e for s in outs for (e, _k) in s.leaked)
                    via = it.emitted_via.get(first, set())
                    others = [e for e in taken[1:] if any(e in s.pend and (s.pend[e] & set(COMMENT_KINDS))
                                                          for s in outs)]
                    if not outs:
                        verdicts.append(("panics", ai, explicit))
                    elif pending or not via:
                        verdicts.append(("dropped", ai, explicit))
                    elif via != {"token"}:
                        verdicts.append(("other:" + ",".join(sorted(via)), ai, explicit))
                    elif others:
                        verdicts.append(("second-dropped", ai, explicit))
                    else:
                        verdicts.append(("emitted", ai, explicit))
                r.instance(ikey, sample={"fn": p, "kind": ck, "verdicts": [v[0] for v in verdicts]})
                for (v, ai, explicit) in verdicts:
                    if v in ("emitted", "unconsumed", "panics"):
                        continue
                    armtxt = "its explicit arm" if explicit else "the catch-all/guarded arm #%d" % ai
                    if v == "dropped":
                        msg = ("a %s reaching %s of this dispatch is taken from the iterator but not pushed with "
                               "Formatter::token on every path: the comment is missing from the output" % (ck, armtxt))
                    elif v == "second-dropped":
                        msg = "%s of this dispatch takes a further comment token and does not emit it" % armtxt
                    else:
                        msg = ("a %s reaching %s is not emitted by Formatter::token on the token that was taken (%s): "
                               "the emitted text is not the comment's own text" % (ck, armtxt, v))
                    r.violation("%s:%s:%s" % (short(p), ck, "comment-arm-does-not-emit"), msg, where(cf, p))
    r.floor("kind dispatches with layout arms", loops, 7)
    return r


def _bound_names_for(mt, m):
    sc = hirq.strip(mt[1])
    if is_node(sc) and sc[0] == "local":
        return [sc[1]]
    return []


# --------------------------------------------------------------------------- R3 exhaustive consumption
def run_r3(chk, cf, m, A):
    r = chk.rule("C17.R3", "a child iterator created by a formatter is exhausted when it goes out of scope on every "
                           "non-panicking path: handed to print_rest / `assert!(it.next().is_none())` / looped until "
                           "None (else the remaining tokens and comments are dropped silently)")
    created = {}      # (fn, name) → {"line", "H": set, "after": [elem-is-node flags], "deaths": n}
    for key, res in sorted(A.results.items()):
        it = res["interp"]
        for ikey, info in it.iterinfo.items():
            if not info["owned"]:
                continue
            ck = (info["fn"], info.get("name", "<temporary>"))
            c = created.setdefault(ck, {"line": info["line"], "H": set(), "after": [], "deaths": 0, "roots": set()})
            c["roots"].add(key)
            for (H, L) in it.deaths.get(ikey, ()):
                c["deaths"] += 1
                c["H"] |= set(H)
                c["after"].append(bool(L))
    used = set()
    for (fn, name), c in sorted(created.items()):
        ikey = "%s:%s" % (short(fn), name)
        w = where(cf, fn, c["line"])
        if c["deaths"] == 0:
            roots_exit = any(A.results[k]["final"] is not None for k in c["roots"])
            errs = any(A.results[k]["error"] for k in c["roots"])
            r.instance(ikey, nontrivial=False)
            if roots_exit and not errs:
                analysis(r, ikey + ":scope-end-not-seen", "the interpreter did not see this iterator go out of scope", w)
            continue
        H = c["H"]
        if H <= {END}:
            status = "exhausted"
        elif not (H & m.trivia):
            status = "drained"
        elif all(c["after"]):
            status = "after-node"
        else:
            status = "open"
        r.instance(ikey, sample={"fn": fn, "iterator": name, "status": status})
        if status == "exhausted":
            continue
        dk = "%s:%s" % (fn, name)
        if status in ("drained", "after-node") and dk in DRAINED_OK:
            used.add(dk)
            r.observe("%s is not asserted to be exhausted, only %s — accepted: %s" % (
                ikey, "drained of trivia" if status == "drained" else "abandoned right after a child node",
                DRAINED_OK[dk]))
            continue
        if status == "open":
            left = sorted(H & set(COMMENT_KINDS))
            msg = ("the iterator `%s` created in %s can go out of scope while its next element is still trivia (%s "
                   "possible): a trailing comment that the parser attached there (same-line comment after the last "
                   "token of the node) is silently dropped, and nothing asserts that no token remains"
                   % (name, short(fn), ", ".join(left) or "layout"))
        else:
            msg = ("the iterator `%s` created in %s is abandoned without asserting exhaustion (it is only %s): the "
                   "elements that follow — e.g. a separator and the comments after it — are silently dropped"
                   % (name, short(fn), "drained of leading trivia" if status == "drained" else "left after a node"))
        r.violation(ikey + ":not-exhausted", msg, w)
    for dk, why in sorted(DRAINED_OK.items()):
        if dk not in used:
            analysis(r, "%s:stale-exception" % short(dk), "the frozen reason for %s no longer applies (iterator is "
                                                           "now asserted, open, or gone) — re-read the code" % short(dk))
    r.floor("child iterators created by formatters", len(created), 75)
    return r


# --------------------------------------------------------------------------- R4 dispatch coverage
# Frozen: kinds whose format_node arm may panic because no such node can reach format_node.
UNREACHABLE_ARMS = {
    "LIST_ITEM": "LIST_ITEM only occurs as a direct child of the comma-list nodes (AstCommaList impls), and every "
                 "formatter of those takes the item out of the iterator itself and walks its children (checked below: "
                 "each list kind's formatter reaches a LIST_ITEM handler without going through format_node)",
}


def hir_callgraph(m):
    g = {}
    for p, b in m.fns.items():
        out = set()
        for n in hirq.walk(b["body"]):
            if n[0] == "def" and n[1] == "fn" and n[2] in m.fns:
                out.add(n[2])
            elif n[0] == "mcall" and n[2] in m.fns:
                out.add(n[2])
        g[p] = out
    return g


def run_r4(chk, cf, cp, m, A):
    r = chk.rule("C17.R4", "every node kind the parser can close (except ERROR_*) has an explicit format_node arm that "
                           "emits the node through a formatter; an arm may panic only for a kind that provably never "
                           "reaches format_node")
    fb = m.fns[FORMAT_NODE]
    pname = fb["params"][0][0][1]
    mt = None
    for n in hirq.walk(fb["body"]):
        if n[0] == "match":
            sc = hirq.strip(n[1])
            if is_node(sc) and sc[0] == "mcall" and sc[2] in m.syntax_kind_fns and hirq.local_name(sc[4]) == pname:
                mt = n
                break
    if not r.anchor("format_node: match node.syntax_kind()", mt):
        return r
    arms = hirq.match_arms(mt)
    arm_of = {}
    for i, (pat, guard, body) in enumerate(arms):
        for k in _deep_kinds(pat):
            if guard is None:
                arm_of.setdefault(k, i)
    closable = sorted(k for k in m.nodek if not k.startswith("ERROR"))
    r.floor("node kinds closed by the parser", len(closable), 85)
    g = hir_callgraph(m)
    targets = {}
    for k in closable:
        ikey = "format_node:%s" % k
        if k not in arm_of:
            r.instance(ikey, sample={"kind": k, "arm": None})
            r.violation(ikey + ":no-arm",
                        "the parser closes %s nodes but format_node has no arm for the kind: the catch-all panics "
                        "(\"unsupported node\") on every valid file that contains one" % k, where(cf, FORMAT_NODE))
            continue
        pat, guard, body = arms[arm_of[k]]
        it = Interp(m, A.emits)
        S = I.St()
        eid = ("param", 0)
        it.eleminfo[eid] = {"fn": FORMAT_NODE, "line": 0, "itkey": None, "origin": "param", "root": FORMAT_NODE}
        S.pend[eid] = frozenset({k})
        S.env[pname] = ("elem", eid, None)
        for i, (pp, ty) in enumerate(fb["params"][1:], 1):
            S.env[pp[1]] = I.UNK
        fr = I.Frame(FORMAT_NODE, ())
        try:
            _v, out = it.eval(body, S, fr)
        except Unsupported as ex:
            analysis(r, ikey + ":unsupported", str(ex), where(cf, FORMAT_NODE))
            continue
        outs = [s for s in [out] + [s for (_v2, s) in fr.rets] if s is not None]
        callee = [cs.callee for cs in calls(body) if cs.callee in m.fns]
        targets[k] = callee
        if not outs:
            r.instance(ikey, sample={"kind": k, "arm": "panics"})
            if k not in UNREACHABLE_ARMS:
                r.violation(ikey + ":arm-panics", "the arm for %s panics although the parser produces such nodes" % k,
                            where(cf, FORMAT_NODE))
            continue
        r.instance(ikey, sample={"kind": k, "formatter": callee[:1]})
        if any(eid in s.pend for s in outs):
            r.violation(ikey + ":arm-emits-nothing",
                        "the arm for %s does not hand the node to a formatter that emits it (callee: %s): every token "
                        "below such a node is missing from the output" % (k, ", ".join(short(c) for c in callee) or "none"),
                        where(cf, FORMAT_NODE))
    # the formatters the dispatch relies on must really walk the node (EMITS) — except the frozen accessor formatters
    for p, why in sorted(ACCESSOR_FORMATTERS.items()):
        hb = m.fns.get(p)
        if not r.anchor(p, hb):
            continue
        emitters = [cs.callee for cs in calls(hb["body"]) if cs.callee in A.emits and A.emits[cs.callee]
                    and cs.callee not in (p,)]
        r.instance("accessor-formatter:%s" % short(p), sample={"emits_through": emitters[:3]})
        if not emitters:
            r.violation("%s:emits-nothing" % short(p), "%s neither walks its node's children nor calls a formatter "
                                                        "for them" % short(p), where(cf, p))
        r.observe("%s reaches its children through a parser accessor, not the child iterator — accepted: %s"
                  % (short(p), why))
    # justification of the LIST_ITEM arm
    for k, why in sorted(UNREACHABLE_ARMS.items()):
        if k not in arm_of:
            continue
        sets, _raw = c06.cast_sets(cp)
        parents = []
        for im in cp.items["impls"]:
            if im["trait"] == "dora_parser::ast::AstCommaList":
                ks = sets.get(im["self_ty"], set())
                parents += sorted(ks)
        r.floor("comma-list node kinds (AstCommaList impls)", len(parents), 12)
        handlers = list_item_handlers(cf, m, A, k)
        r.floor("%s handlers" % k, len(handlers), 4)
        for h in sorted(handlers):
            r.observe("%s takes %s nodes out of the iterator and formats their children itself" % (short(h), k))
        for pk in parents:
            ikey = "format_node:%s:parent:%s" % (k, pk)
            reach = set()
            st = list(targets.get(pk, ()))
            while st:
                x = st.pop()
                if x in reach or x == FORMAT_NODE:
                    continue
                reach.add(x)
                st += list(g.get(x, ()))
            ok = bool(reach & handlers)
            r.instance(ikey, sample={"list_kind": pk, "handler": sorted(reach & handlers)[:2]})
            if not ok:
                r.violation(ikey + ":item-reaches-unreachable-arm",
                            "%s nodes have %s children, but the formatter of %s (%s) reaches no function that takes "
                            "the item and walks its children itself: the item is handed to format_node, whose %s arm "
                            "is unreachable!()" % (pk, k, pk, ", ".join(short(t) for t in targets.get(pk, ())) or "none", k),
                            where(cf, FORMAT_NODE))
    return r


def list_item_handlers(cf, m, A, kind):
    """functions that consume an element from a child iterator, are written for `kind` items (they name the kind
    constant, or instantiate a helper with AstListItem) and emit the element by walking its children / handing it
    to a formatter other than format_node"""
    ast_ty = "dora_parser::ast::Ast" + "".join(w.capitalize() for w in kind.lower().split("_"))
    mention = set()
    for p, b in m.fns.items():
        for n in hirq.walk(b["body"]):
            if n[0] == "def" and n[2].endswith("::TokenKind::" + kind):
                mention.add(p)
    for p, mb in cf.mir.items():
        base = p.split("::{closure")[0]
        for blk in mb["blocks"]:
            t = blk["t"]
            if t[0] == "call":
                fn = cfg.callee_of(t[1]["f"])
                if fn and ast_ty in (fn.get("g") or ""):
                    mention.add(base)
    out = set()
    for key, res in A.results.items():
        it = res["interp"]
        for eid, vias in it.emitted_via.items():
            info = it.eleminfo.get(eid)
            if not info or info["origin"] != "consumed":
                continue
            fn = info["fn"]
            if fn not in mention:
                continue
            if any(v == "children" or (v.startswith("fn:") and v != "fn:" + FORMAT_NODE) for v in vias):
                out.add(fn)
    return out


# --------------------------------------------------------------------------- R5 output self-check
ENTRY = "dora_format::format_source_with_line_length"
PARSE = "dora_parser::parser::Parser::parse"
FROM_SHARED = "dora_parser::parser::Parser::from_shared_string"
# std functions that hand on (a copy of) the same text (std semantics, trusted)
SAME_TEXT = ("alloc::sync::Arc::<T>::new", "core::clone::Clone::clone", "alloc::string::ToString::to_string",
             "alloc::borrow::ToOwned::to_owned", "core::convert::Into::into", "core::convert::From::from",
             "core::ops::deref::Deref::deref", "core::convert::AsRef::as_ref", "alloc::string::String::from",
             "alloc::sync::Arc::<T, A>::clone")


def text_root(body, op, defs, depth=0):
    """where the text in operand `op` comes from: ('param', i) | ('call', id, name) | ('other', ..)"""
    o = origin(body, op, defs)
    if o[0] == "param":
        return ("param", o[1])
    if o[0] == "call":
        c = o[1]
        fn = cfg.callee_of(c["f"])
        decl = fn.get("d") if fn else None
        if decl in SAME_TEXT and c["a"] and depth < 12:
            return text_root(body, c["a"][0], defs, depth + 1)
        return ("call", id(c), cfg.callee_name(fn))
    return ("other", str(o[:2]))


def parse_wrappers(cf):
    """functions of the analysed crate that are `Parser::from_shared_string(<param 1>).parse()`"""
    out = set()
    for p, mb in cf.mir.items():
        b = Body(mb)
        ps = b.calls_to(PARSE)
        fs = b.calls_to(FROM_SHARED)
        if len(ps) != 1 or len(fs) != 1 or b.argc != 1:
            continue
        defs = simple_defs(b)
        if text_root(b, fs[0].args[0], defs) != ("param", 1):
            continue
        o = origin(b, ps[0].args[0], defs)
        if not (o[0] == "call" and o[1] is fs[0].t):
            continue
        if ps[0].dest == [0, []]:
            out.add(p)
    return out


def run_r5(chk, cf, cp, m, A):
    r = chk.rule("C17.R5", "format_source_with_line_length returns Ok(text) only after (a) the input parsed without "
                           "errors (else Err) and (b) `text` itself was parsed again and its error list was checked "
                           "to be empty")
    mb = cf.mir.get(ENTRY)
    if not r.anchor(ENTRY, mb):
        return r
    b = Body(mb)
    defs = simple_defs(b)
    dom = b.dominators()
    wrappers = parse_wrappers(cf)
    oks, errs = [], []
    for i, blk in enumerate(b.blocks):
        if blk["c"] or i not in dom:
            continue
        for s in blk["s"]:
            if s[0] == "a" and s[1] == [0, []] and s[2][0] == "agg" and s[2][1][0] == "adt" \
                    and s[2][1][1] == "core::result::Result":
                (oks if s[2][1][2] == "Ok" else errs).append((i, s[2][2][0]))
    if not r.anchor("an Ok(..) return", oks):
        return r
    # parses of some text: (call, text root, errors local)
    parses = []
    for c in b.calls:
        src = None
        if c.name == PARSE or c.decl == PARSE:
            o = origin(b, c.args[0], defs)
            if o[0] == "call":
                fn = cfg.callee_of(o[1]["f"])
                if fn and fn.get("d") == FROM_SHARED:
                    src = text_root(b, o[1]["a"][0], defs)
        elif c.name in wrappers:
            src = text_root(b, c.args[0], defs)
        if src is None:
            continue
        if c.dest[1]:
            continue
        errloc = None
        for i, blk in enumerate(b.blocks):
            for s in blk["s"]:
                if s[0] == "a" and not s[1][1] and s[2][0] == "use" and s[2][1][0] in ("c", "m") \
                        and s[2][1][1] == [c.dest[0], [".1"]]:
                    errloc = s[1][0]
        parses.append((c, src, errloc))
    r.floor("parse calls in the entry point", len(parses), 2)

    def checks_on(errloc):
        """[(block of the is_empty call, successor when NOT empty, successor when empty)]"""
        out = []
        for c in b.calls:
            if not (c.name and c.name.endswith("::is_empty")) or not c.args:
                continue
            o = origin(b, c.args[0], defs)
            if not (o[0] == "local" and o[1] == errloc or (o[0] == "local" and False)):
                # origin() stops at a multiply-defined / non-call local: compare the base local
                base = c.args[0][1][0] if c.args[0][0] in ("c", "m") else None
                d = defs.get(base, [])
                ok = False
                if len(d) == 1 and d[0][1][0] == "a" and d[0][1][2][0] == "ref" and d[0][1][2][2] == [errloc, []]:
                    ok = True
                if not ok:
                    continue
            if c.target is None or c.dest[1]:
                continue
            t = b.blocks[c.target]["t"]
            if t[0] != "switch" or t[1][0] not in ("c", "m") or t[1][1] != [c.dest[0], []]:
                continue
            nonempty = [bb for (v, bb) in t[2] if v == 0]
            if len(nonempty) != 1:
                continue
            out.append((c.block, nonempty[0], t[3]))
        return out

    def guarded(ok_block, errloc):
        """an emptiness check of errloc dominates ok_block and its not-empty side cannot reach ok_block"""
        for (cb, ne, em) in checks_on(errloc):
            if b.dominates(cb, ok_block) and ok_block not in b.reachable(ne):
                return (cb, ne)
        return None

    # the default-width entry point is the same function with a constant width
    fs = cf.mir.get("dora_format::format_source")
    if fs is not None:
        fb = Body(fs)
        cs = fb.calls_to(ENTRY)
        fdefs = simple_defs(fb)
        r.instance("format_source:delegates")
        if not (len(cs) == 1 and cs[0].dest == [0, []] and text_root(fb, cs[0].args[0], fdefs) == ("param", 1)
                and len([c for c in fb.calls if c.name and c.name.startswith("dora_")]) == 1):
            r.violation("format_source:does-not-delegate",
                        "format_source no longer returns format_source_with_line_length(input, <width>) unchanged: "
                        "its result is not covered by the self-check", where(cf, "dora_format::format_source"))
    for (okb, op) in oks:
        ret_root = text_root(b, op, defs)
        ikey_a = "%s:input-parse-errors-lead-to-Err" % short(ENTRY)
        ikey_b = "%s:output-reparsed-and-checked" % short(ENTRY)
        # (a)
        ins = [(c, src, e) for (c, src, e) in parses if src == ("param", 1) and b.dominates(c.block, okb)]
        r.instance(ikey_a, sample={"input_parses": len(ins)})
        a_ok = False
        for (c, src, e) in ins:
            g = guarded(okb, e) if e is not None else None
            if not g:
                continue
            reach = b.reachable(g[1])
            for (eb, eop) in errs:
                o = origin(b, eop, defs)
                if eb in reach and ((o[0] == "local" and o[1] == e) or eop[1][0] == e or _moved_from(b, eop, e, defs)):
                    a_ok = True
        if not a_ok:
            r.violation(ikey_a, "no parse of the *input* dominates the Ok return with its non-empty error list leading "
                                "to the Err return: input that does not parse could be formatted and reported as success",
                        where(cf, ENTRY))
        # (b)
        r.instance(ikey_b, sample={"returned_text_root": str(ret_root[:1] + ret_root[2:])})
        outs = [(c, src, e) for (c, src, e) in parses if src == ret_root and src[0] == "call"
                and b.dominates(c.block, okb)]
        if ret_root[0] != "call":
            r.violation(ikey_b, "the text returned in Ok(..) is not the result of a call (the renderer): cannot relate "
                                "it to the re-parsed text", where(cf, ENTRY))
        elif not outs:
            others = [src for (c, src, e) in parses if src != ("param", 1)]
            r.violation(ikey_b, "no parse of the *returned text* dominates the Ok return (parses seen: %s): an output "
                                "that does not parse would be returned as success" % (
                                    ", ".join(sorted({str(s[0]) + (":" + str(s[-1]) if s[0] == "call" else str(s[1]))
                                                      for (c, s, e) in parses})) or "none"), where(cf, ENTRY))
        else:
            if not any(e is not None and guarded(okb, e) for (c, src, e) in outs):
                r.violation(ikey_b, "the rendered output is parsed again, but no check that *its* error list is empty "
                                    "dominates the Ok return with the non-empty side unable to reach it (assert or Err "
                                    "return missing, or applied to the input's errors): an output that does not parse "
                                    "is returned as success", where(cf, ENTRY))
    return r


def _moved_from(b, op, loc, defs):
    if op[0] not in ("c", "m"):
        return False
    base = op[1][0]
    d = defs.get(base, [])
    return len(d) == 1 and d[0][1][0] == "a" and d[0][1][2][0] == "use" and d[0][1][2][1][0] in ("c", "m") \
        and d[0][1][2][1][1] == [loc, []]


# --------------------------------------------------------------------------- R6 emitted text
LAYOUT_CHARS = " ,"          # the property: "only layout, blank lines and optional trailing separators may differ"


def token_texts(cp):
    """kind → text, from the parser's own token_name table"""
    tn = cp.hir_fn("parser::token_name")
    out = {}
    if not tn:
        return out
    for n in hirq.walk(tn["body"]):
        if n[0] == "match":
            for (pat, guard, arm) in hirq.match_arms(n):
                lits = [x[2] for x in hirq.walk(arm) if x[0] == "lit" and x[1] == "str"]
                if len(lits) == 1 and guard is None:
                    for d in hirq.pat_paths(pat):
                        out[last(d)] = lits[0]
    return out


def enclosing_roots(A, m):
    """call node id → root key (function, or closure analysed as its own root) for every Formatter::text call"""
    out = []
    for p, b in sorted(m.fns.items()):
        def walk(e, root):
            if not isinstance(e, list):
                return
            if is_node(e):
                if e[0] == "closure" and e[1] in A.roots:
                    root = e[1]
                if e[0] == "mcall" and e[2] == TEXT:
                    out.append((root, p, e))
                elif e[0] == "call" and is_node(e[2]) and e[2][0] == "def" and e[2][2] == TEXT:
                    out.append((root, p, e))
            for c in e:
                if isinstance(c, list):
                    walk(c, root)
        walk(b["body"], p)
    return out


def run_r6(chk, cf, cp, m, A):
    r = chk.rule("C17.R6", "text pushed into the document is the token's own text (Formatter::token) or a synthesised "
                           "literal made of layout/separator characters, or the re-emission of a token kind the same "
                           "function eats")
    tb = m.fns[TOKEN]
    pn = tb["params"][1][0][1]
    texts = [n for n in hirq.walk(tb["body"]) if n[0] == "struct" and hirq.def_path(n[1]) == "dora_format::doc::Doc::Text"]
    ok = False
    if len(texts) == 1:
        for (fname, val) in texts[0][2]:
            v = hirq.strip(val)
            if fname == "text" and is_node(v) and v[0] == "call" and len(v[3]) == 1:
                a = hirq.strip(v[3][0])
                if is_node(a) and a[0] == "mcall" and a[2] == "dora_parser::ast::SyntaxToken::text" \
                        and hirq.local_name(a[4]) == pn:
                    ok = True
    pushes = [cs for cs in calls(tb["body"]) if cs.name == "push"]
    r.instance("Formatter::token:text-is-token.text()")
    if not (ok and len(pushes) == 1):
        r.violation("Formatter::token:text-is-not-token.text()",
                    "Formatter::token no longer pushes exactly one Doc::Text built from `token.text()` of its "
                    "argument: the emitted text is not the input token's text", where(cf, TOKEN))
    # every construction of Doc::Text in the crate
    n_text = 0
    for p, b in sorted(m.fns.items()):
        for n in hirq.walk(b["body"]):
            if not (n[0] == "struct" and hirq.def_path(n[1]) == "dora_format::doc::Doc::Text"):
                continue
            n_text += 1
            if p == TOKEN:
                continue
            val = None
            for (fname, v) in n[2]:
                if fname == "text":
                    val = hirq.strip(v)
            src = val
            if is_node(src) and src[0] in ("call", "mcall"):
                cs = hirq.CallSite(src)
                args = cs.all_args()
                src = hirq.strip(args[0]) if len(args) == 1 else src
            ikey = "%s:Doc::Text" % short(p)
            r.instance(ikey)
            if is_node(src) and src[0] == "lit" and src[1] == "str":
                if all(ch in LAYOUT_CHARS for ch in src[2]):
                    continue
                r.violation(ikey + ":literal", "%s builds a Doc::Text from the literal %r: text that is not in the input"
                            % (short(p), src[2]), where(cf, p))
            elif is_node(src) and src[0] == "local" and p in (TEXT, "dora_format::doc::DocBuilder::text"):
                continue            # the parameter: judged at the call sites below
            else:
                r.violation(ikey + ":unknown-source", "%s builds a Doc::Text from something that is neither its "
                                                      "parameter nor a layout literal" % short(p), where(cf, p))
    r.floor("Doc::Text constructions", n_text, 4)
    bcalls = [p for p, b in m.fns.items() for cs in calls(b["body"])
              if cs.callee and cs.callee.startswith("dora_format::doc::DocBuilder::") and not
              p.startswith("dora_format::doc::DocBuilder::")]
    if bcalls:
        r.violation("DocBuilder:used-by-formatter", "the free-text builder DocBuilder is used by %s: its text is not "
                                                    "token text" % ", ".join(sorted(set(short(x) for x in bcalls))))
    # synthesised text
    names = token_texts(cp)
    r.floor("token_name entries", len(names), 15)
    by_text = {}
    for k, t in names.items():
        by_text.setdefault(t, set()).add(k)
    sites = enclosing_roots(A, m)
    r.floor("Formatter::text call sites", len(sites), 105)
    lits = {}
    used_syn = set()
    for (root, p, e) in sites:
        cs = hirq.CallSite(e)
        arg = hirq.strip(cs.args[0] if cs.is_method else cs.args[1]) if (cs.args) else None
        if not (is_node(arg) and arg[0] == "lit" and arg[1] == "str"):
            r.instance("%s:text(<non-literal>)" % short(root))
            r.violation("%s:text(<non-literal>)" % short(root),
                        "Formatter::text is called with a computed string (%s): text that does not come from a token "
                        "can enter the output" % hirq.render(arg), where(cf, p, cs.line))
            continue
        lits.setdefault((root, arg[2]), []).append((p, cs.line))
    for (root, lit), ws in sorted(lits.items()):
        ikey = "%s:text(%r)" % (short(root), lit)
        p, line = ws[0]
        if all(ch in LAYOUT_CHARS for ch in lit):
            r.instance(ikey, nontrivial=True, sample={"fn": root, "literal": lit, "class": "layout/separator"})
            continue
        k = SYNTHESISED.get((root, lit))
        r.instance(ikey, sample={"fn": root, "literal": lit, "class": "re-emission of %s" % k})
        if k is not None and (root, k) in DROP_EXCEPTIONS and names.get(k, lit) == lit and k in m.allk:
            used_syn.add((root, lit))
            r.observe("%s synthesises %r: re-emission of the %s it eats (%s)" % (short(root), lit, k,
                                                                                DROP_EXCEPTIONS[(root, k)]))
            continue
        r.violation(ikey, "%s pushes the literal %r, which is not layout or a separator and not the re-emission of a "
                          "token kind that %s eats (R1 exceptions): a code token that was not in the input is inserted"
                    % (short(root), lit, short(root)), where(cf, p, line))
    for (root, lit), k in sorted(SYNTHESISED.items()):
        if (root, lit) not in used_syn:
            analysis(r, "%s:stale-synthesised:%s" % (short(root), k),
                     "the frozen entry (%s synthesises %r for %s) matches no call of Formatter::text any more"
                     % (short(root), lit, k))
    return r


# --------------------------------------------------------------------------- entry point
def run(chk, F):
    cf = F.crate(CF)
    cp = F.crate(CP)
    r0 = chk.rule("C17.R0", "the mechanism the rules interpret is where they expect it (kinds, trivia, child-iterator "
                            "methods, identity conversions, emitters) and every formatter is inside the interpreted "
                            "fragment")
    m = build_model(r0, cf, cp)
    if m is None:
        return
    r0.instance("model", sample={"kinds": len(m.allk), "node_kinds": len(m.nodek),
                                 "identity_conversions": len(m.identity),
                                 "consuming": sorted(m.consuming)[:2], "comment_predicates": sorted(m.comment_preds)})
    r0.floor("TokenKind variants", len(m.allk), 190)
    r0.floor("identity conversions derived from dora_parser", len(m.identity), 600)
    r0.floor("Formatter combinators that run their closure once", len(m.inline_once), 4)
    if not r0.anchor("has_comment-like predicate (guards the compact single-item paths)", m.comment_preds):
        return
    try:
        A = Analysis(m).run()
    except Unsupported as ex:
        analysis(r0, "interpreter", str(ex))
        return
    for k in sorted(A.roots):
        r0.instance("root:%s" % short(k), nontrivial=True)
    run_r1(chk, cf, m, A)
    run_r2(chk, cf, m, A)
    run_r3(chk, cf, m, A)
    run_r4(chk, cf, cp, m, A)
    run_r5(chk, cf, cp, m, A)
    run_r6(chk, cf, cp, m, A)
    run_r7(chk, cf, m, A)
    from rules import c17_sep
    c17_sep.run(chk, F)
    c17_sep.run_r9(chk, F)
    chk.assumptions.append("rustc's HIR/MIR of the host configuration is the code that runs; std Option/Clone/Arc "
                           "conversions hand on the same value")
    chk.extra["not_decided"] = ("idempotence; width-dependent layout; order of emitted tokens (use declarations and "
                                "modifiers are sorted on purpose); duplication of tokens; Doc → text rendering; flow of "
                                "docs/tokens through containers (Vec) between the function that fills and the one that "
                                "empties them; grammar facts quoted as frozen one-line reasons")


# --------------------------------------------------------------------------- R7 a line comment ends its line
# Frozen: functions whose token arm can structurally see a LINE_COMMENT but never does (grammar fact, read from the parser)
NO_DIRECT_COMMENT = {
    "dora_format::doc::expr::format_template":
        "TEMPLATE_EXPR has no direct token children: parse_template wraps every literal part in a LIT_STR_EXPR node "
        "(opened before the token is advanced, so its leading trivia lands inside) and every interpolation is an "
        "expression node; trailing trivia is taken by the inner close first — the generic token arm only ever sees "
        "nothing (confirmed: `\"a${x\\n// c\\n}b\"` keeps the comment on its own line via format_lit_str)",
}


def doc_consumers(m, ctor):
    """functions (of the analysed crate) that take the Doc out of carrier `ctor` by a pattern"""
    out = set()
    for p, b in m.fns.items():
        for n in hirq.walk(b["body"]):
            if n[0] in ("pts", "pstruct") and hirq.def_path(n[1]) == ctor:
                names = []
                _pat_names(n, names)
                if names:
                    out.add(p)
    return out


def run_r7(chk, cf, m, A):
    r = chk.rule("C17.R7", "after a token that can be a LINE_COMMENT is pushed (Formatter::token), the next thing pushed "
                           "to the output on every non-panicking path is a hard line — before any other token/text/doc "
                           "and before the function returns; a deferred doc ending in a line comment is followed by a "
                           "hard line (or tested to end with one) by every consumer that appends it")
    hard = [p for p, k in m.fmt_push.items() if k == "hard"]
    if not r.anchor("Formatter method that pushes only Doc::HardLine", len(hard) == 1):
        return r
    if not r.anchor("Formatter::append / concat (deferred docs)", "append" in m.fmt_push.values()
                    and "detach" in m.comb_kind.values()):
        return r
    sites = {}
    events = {}
    for key, res in sorted(A.results.items()):
        it = res["interp"]
        for (sfn, sid), info in it.r7_emits.items():
            sites.setdefault((sfn, info["line"]), set()).update(info["roots"])
        for (kind, fn, what, origins, line) in it.r7_events:
            events.setdefault(kind, set()).add((key, fn, what, origins, line))
    # 1. emission sites
    bad_origin = {}
    for (key, fn, what, origins, line) in events.get("push", set()) | events.get("return", set()):
        for o in origins:
            bad_origin.setdefault(o, set()).add((key, fn, what, line))
    for (sfn, line) in sorted(sites):
        r.instance("%s:line%d:token(LINE_COMMENT?)" % (short(sfn), line),
                   sample={"fn": sfn, "reached_from": len(sites[(sfn, line)]),
                           "ok": sfn not in bad_origin or sfn in NO_DIRECT_COMMENT})
    used_exempt = set()
    for o in sorted(bad_origin):
        evs = sorted(bad_origin[o], key=lambda x: (x[0] != o, x[1] != o, x[1], x[2]))
        if o.startswith("carrier:"):
            ctor = o.split(":", 1)[1]
            for consumer in sorted({k for (k, fn, what, line) in evs}):
                ex = [e for e in evs if e[0] == consumer][0]
                r.violation("%s:%s:appended-without-hard-line" % (short(consumer), "::".join(ctor.split("::")[-2:])),
                            "%s appends a deferred doc taken from %s, which can end in a line comment, and on some "
                            "path the next output (%s in %s) is not a hard line and the doc was not tested to end "
                            "with one: what follows is rendered on the comment's line, i.e. commented out"
                            % (short(consumer), ctor, ex[2], short(ex[1])), where(cf, consumer.split("::{closure")[0]))
            continue
        if o in NO_DIRECT_COMMENT:
            used_exempt.add(o)
            r.observe("%s can push a LINE_COMMENT without a hard line — accepted: %s" % (short(o), NO_DIRECT_COMMENT[o]))
            continue
        nexts = []
        for (k, fn, what, line) in evs:
            t = ("%s in %s" % (what, short(fn))) if what != "return" else ("the return of %s to its caller" % short(fn))
            if t not in nexts:
                nexts.append(t)
        r.violation("%s:LINE_COMMENT:not-followed-by-hard-line" % short(o),
                    "%s pushes a token that can be a LINE_COMMENT and on some non-panicking path the next thing that "
                    "happens to the output is %s instead of a hard line (a break that depends on the *next* element "
                    "being a NEWLINE does not count: the comment may be the last child of its node): whatever is "
                    "rendered next lands on the comment's line and is commented out — code tokens vanish although "
                    "every token was emitted" % (short(o), "; ".join(nexts[:3])), where(cf, o))
    for o in sorted(NO_DIRECT_COMMENT):
        if o not in used_exempt:
            analysis(r, "%s:stale-exception" % short(o), "the frozen reason for %s no longer matches anything" % short(o))
    # 2. deferred docs that may end in a line comment, and their consumers
    for ctor in sorted(A.copen):
        cons = doc_consumers(m, ctor)
        for c in sorted(cons):
            r.instance("carrier:%s:consumer:%s" % ("::".join(ctor.split("::")[-2:]), short(c)),
                       sample={"carrier": ctor, "filled_by": sorted(A.copen[ctor]), "consumer": c})
            if c not in A.roots:
                analysis(r, "%s:consumer-not-analysed" % short(c),
                         "%s takes docs out of %s (which can end in a line comment) but is outside the interpreted "
                         "functions" % (short(c), ctor), where(cf, c))
        r.observe("docs that can end in a line comment are stored in %s by %s; consumers checked: %s"
                  % (ctor, ", ".join(short(x) for x in sorted(A.copen[ctor])), ", ".join(short(c) for c in sorted(cons))))
        if not cons:
            analysis(r, "%s:no-consumer" % "::".join(ctor.split("::")[-2:]), "no consumer of %s found" % ctor)
    for fn in sorted(A.retopen):
        r.instance("returns-open-doc:%s" % short(fn))
        r.observe("%s can return a deferred doc ending in a line comment; its callers carry the obligation" % short(fn))
    # 3. fail closed
    for (key, fn, what, origins, line) in sorted(events.get("escape", set()), key=lambda x: (x[1], x[2])):
        analysis(r, "%s:open-deferred-doc-escapes" % short(fn),
                 "%s (built by %s) — it leaves the tracked carriers, so its consumers cannot be checked"
                 % (what, ", ".join(short(o) for o in origins) or "?"), where(cf, fn, line))
    for (key, fn, what, origins, line) in sorted(events.get("untracked-token", set()), key=lambda x: x[1]):
        analysis(r, "%s:token-of-untracked-value" % short(fn), what + ": cannot tell whether it is a line comment",
                 where(cf, fn, line))
    if m.ehl_preds:
        r.observe("doc-ends-with-hard-line predicate(s): %s" % ", ".join(short(x) for x in sorted(m.ehl_preds)))
    r.floor("Formatter::token sites that can push a LINE_COMMENT", len(sites), 7)
    r.floor("carriers of docs that can end in a line comment", len(A.copen), 1)
    r.floor("consumers of such carriers", sum(len(doc_consumers(m, c)) for c in A.copen), 3)
    return r

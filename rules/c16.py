"""C16 — "the syntax tree loses nothing of the text": structural (partial) rules.

The lossless-tree mechanism of dora-parser is a chain of conservation laws:

  lexer      `lex` pushes one (kind, start) pair per token; starts are the lexer offset *before* the token is read; the
             offset only grows by the UTF-8 length of the character at the offset                       (C16.R4)
  parser     a cursor `token_idx` walks the tokens; trivia is counted in `leading` until attached; every token is
             represented by exactly one `Event::Advance`:   #Advance + leading == token_idx             (C16.R1, R2)
  replay     `build_tree` consumes tokens[i] for the i-th Advance, i += 1 per Advance only, and every child pushed
             onto a node adds exactly its own length to the node's length; the root length is checked against
             content.len()                                                                             (C16.R3)
  red tree   offsets of SyntaxNode/SyntaxToken are running sums of the green children's lengths           (C16.R5)

R1 enumerates *who may write* the cursor state (MIR, no frozen list), R2 proves the conservation equation for every
writer on every path with a symbolic (linear-expression) evaluator over HIR (rules/c16_sym.py), R3–R5 evaluate the
replay / lexer / offset code symbolically and compare the added lengths with the lengths of the very child pushed.
Everything outside the evaluator's fragment is an ANALYSIS failure (fail closed), not a pass and not a violation.
"""
import glob
import os
import re

import cfg
import hirq
from callgraph import CallGraph
from cfg import Body, origin, simple_defs
from hirq import is_node, last
from rules import c16_sym as S
from rules.c16_sym import Ev, St, Unsupported, add, sub, const, as_const, is_zero, show, strip_generics, strip_ref

CR = "dora_parser"
F_CURSOR = "token_idx"      # named by the property's mechanism description (anchors: fail closed when renamed)
F_LEADING = "leading"


def where(c, path, line=None):
    fb = c.hir.get(path) or c.mir.get(path)
    if not fb:
        return None
    return "%s:%d" % (fb["file"], line or fb["line"])


def analysis(r, key, msg, w=None):
    r.violation("ANALYSIS:" + key, msg, w)


# --------------------------------------------------------------------------- MIR type walking
def deref_ty(ty):
    ty = ty.strip()
    if ty.startswith("&"):
        return strip_ref_once(ty)
    for pre in ("*mut ", "*const "):
        if ty.startswith(pre):
            return ty[len(pre):]
    m = re.match(r"^(?:alloc::boxed::Box|alloc::rc::Rc|alloc::sync::Arc)<(.*)>$", ty)
    if m:
        inner = m.group(1)
        depth = 0
        for i, ch in enumerate(inner):
            if ch == "<":
                depth += 1
            elif ch == ">":
                depth -= 1
            elif ch == "," and depth == 0:
                return inner[:i].strip()
        return inner
    return None


def strip_ref_once(ty):
    ty = ty.strip()
    if ty.startswith("&mut "):
        return ty[5:]
    if ty.startswith("&"):
        ty = ty[1:].strip()
        if ty.startswith("'"):
            ty = ty.split(" ", 1)[1] if " " in ty else ty
        if ty.startswith("mut "):
            ty = ty[4:]
        return ty
    return ty


class Types:
    def __init__(self, c):
        self.adts = {a["path"]: a for a in c.items["adts"]}

    def field_ty(self, ty, f, variant=None):
        a = self.adts.get(strip_generics(ty))
        if a is None:
            return None
        vs = a["variants"]
        v = None
        if variant is not None:
            v = next((x for x in vs if x["name"] == variant), None)
        elif len(vs) == 1:
            v = vs[0]
        if v is None:
            return None
        for fld in v["fields"]:
            if fld["name"] == f:
                return fld["ty"]
        return None

    def place_types(self, body, place):
        """types of every prefix of the place: list of length len(proj)+1 (None when unknown)"""
        ty = body.locals[place[0]][0]
        out = [ty]
        variant = None
        for p in place[1]:
            if ty is None:
                out.append(None)
                continue
            if p == "*":
                ty = deref_ty(ty)
            elif p.startswith("."):
                ty = self.field_ty(ty, p[1:], variant)
                variant = None
            elif p.startswith("@"):
                variant = p[1:]
            else:
                ty = None
            out.append(ty)
        return out

    def field_hits(self, body, place, adt_path, fields):
        """[(index into proj, field)] where the projection selects one of `fields` of `adt_path` (conservatively also
        when the base type cannot be resolved)"""
        tys = None
        hits = []
        for i, p in enumerate(place[1]):
            if p.startswith(".") and p[1:] in fields:
                if tys is None:
                    tys = self.place_types(body, place)
                base = tys[i]
                if base is None or strip_generics(strip_ref(base)) == adt_path:
                    hits.append((i, p[1:]))
        return hits


# --------------------------------------------------------------------------- roles (derived, fail closed)
class Roles:
    """the types/functions the rules talk about, derived from the repository's own declarations"""

    def __init__(self, c):
        self.c = c
        self.problems = []
        self.types = Types(c)
        adts = self.types.adts
        self.parser = c.adt("parser::Parser")
        self.event = None
        self.f_events = None
        self.replay = None
        self.advance = None
        self.kinds_param = self.starts_param = self.content_param = self.events_param = None
        if not self.parser or self.parser["kind"] != "struct":
            self.problems.append("struct parser::Parser")
            return
        self.parser_path = self.parser["path"]
        pf = {f["name"]: f["ty"] for f in self.parser["variants"][0]["fields"]}
        self.parser_fields = [f["name"] for f in self.parser["variants"][0]["fields"]]
        for f in (F_CURSOR, F_LEADING):
            if pf.get(f) != "usize":
                self.problems.append("Parser.%s: usize" % f)
        # the event list: the Parser field that is a Vec of a crate enum
        for n, ty in pf.items():
            m = re.match(r"^alloc::vec::Vec<([\w:]+)>$", ty)
            if m and m.group(1) in adts and adts[m.group(1)]["kind"] == "enum" \
                    and m.group(1).rsplit("::", 1)[0] == self.parser_path.rsplit("::", 1)[0]:
                if self.event is not None:
                    self.problems.append("a single Vec<enum> field in Parser")
                self.event, self.f_events = adts[m.group(1)], n
        if self.event is None:
            self.problems.append("Parser field holding the event list")
            return
        self.event_path = self.event["path"]
        # the replay function: takes the event list by type
        cands = []
        for p, fb in c.hir.items():
            if any(self.event_path in ty for (_pat, ty) in fb["params"]) and "{closure" not in p:
                cands.append(p)
        if len(cands) != 1:
            self.problems.append("exactly one function taking the event list (found %d)" % len(cands))
            return
        self.replay = cands[0]
        fb = c.hir[self.replay]
        tk = None
        for (pat, ty) in fb["params"]:
            names = S.pat_names(pat)
            if len(names) != 1:
                continue
            inner = strip_ref(ty)
            if self.event_path in ty:
                self.events_param = names[0]
            elif inner == "str" or inner.endswith("String"):
                self.content_param = names[0]
            elif inner in ("[u32]", "alloc::vec::Vec<u32>", "[usize]", "alloc::vec::Vec<usize>"):
                self.starts_param = names[0]
            elif inner.startswith("[") or inner.startswith("alloc::vec::Vec<"):
                el = inner[1:-1] if inner.startswith("[") else inner[len("alloc::vec::Vec<"):-1]
                if el in adts and adts[el]["kind"] == "enum":
                    self.kinds_param, tk = names[0], el
        for n, v in (("content", self.content_param), ("token kinds", self.kinds_param),
                     ("token starts", self.starts_param), ("events", self.events_param)):
            if v is None:
                self.problems.append("replay parameter for the %s" % n)
        self.tokenkind = tk
        # the token-consuming event variant: the arm of the match over the event enum that indexes the kinds slice
        variants = {self.event_path + "::" + v["name"] for v in self.event["variants"]}
        adv = set()
        for n in S.walk(fb["body"]):
            if n[0] != "match":
                continue
            for arm in n[2]:
                ps = [p for p in hirq.pat_paths(arm[0]) if p in variants]
                if not ps:
                    continue
                for x in S.walk(arm[2]):
                    if x[0] == "index" and hirq.local_name(x[1]) == self.kinds_param:
                        adv.update(ps)
        if len(adv) != 1:
            self.problems.append("exactly one event variant whose replay arm reads the token kinds (found %s)"
                                 % sorted(adv))
            return
        self.advance = adv.pop()
        self.advance_name = last(self.advance)


# --------------------------------------------------------------------------- C16.R1: who may write
def mir_callee(t):
    fn = cfg.callee_of(t["f"])
    return cfg.callee_name(fn), fn


def trace_through(body, op, defs, depth=0):
    """origin of an operand, looking through value-preserving std calls (deref / as_str / clone)"""
    o = origin(body, op, defs)
    while o[0] == "call" and depth < 8:
        nm = cfg.callee_name(cfg.callee_of(o[1]["f"])) or ""
        dn = (cfg.callee_of(o[1]["f"]) or {}).get("d") or ""
        if (dn in S.IDENTITY or nm in S.IDENTITY) and o[1]["a"]:
            o = origin(body, o[1]["a"][0], defs)
            depth += 1
            continue
        break
    return o


def scan_writers(c, roles):
    """→ (writers {fn: info}, constructors [(fn, line, problems)], others [(fn, msg, line)])"""
    T = roles.types
    P = roles.parser_path
    writers = {}
    ctors = []
    fidx = {n: i for i, n in enumerate(roles.parser_fields)}

    def info(p):
        return writers.setdefault(p, {F_CURSOR: 0, F_LEADING: 0, "adv": 0, "unsupported": [], "line": None})

    for path, b in c.mir.items():
        body = Body(b)
        defs = None
        ev_borrows = {}         # local -> line
        for bi, blk in enumerate(body.blocks):
            if blk["c"]:
                continue
            for s in blk["s"]:
                if s[0] != "a":
                    continue
                place, rv, line = s[1], s[2], s[3]
                hits = T.field_hits(body, place, P, (F_CURSOR, F_LEADING, roles.f_events))
                for (i, f) in hits:
                    if i == len(place[1]) - 1:
                        if f == roles.f_events:
                            info(path)["unsupported"].append(("assigns the whole event list `%s`" % f, line))
                        else:
                            info(path)[f] += 1
                            info(path)["line"] = info(path)["line"] or line
                # whole-struct overwrite through a reference
                if place[1] and place[1][-1] == "*":
                    tys = T.place_types(body, place)
                    if tys[-1] is not None and strip_generics(tys[-1]) == P:
                        info(path)["unsupported"].append(("overwrites the whole Parser through a reference", line))
                    if tys[-1] is not None and strip_generics(tys[-1]) == roles.event_path:
                        info(path)["unsupported"].append(("overwrites an event in place", line))
                if rv[0] in ("ref", "rawptr"):
                    mut = rv[1] if rv[0] == "ref" else True
                    pl = rv[2] if rv[0] == "ref" else rv[1]
                    if rv[0] == "rawptr" and isinstance(rv[1], (bool, str)) and len(rv) > 2:
                        mut, pl = rv[1], rv[2]
                    if mut and isinstance(pl, list):
                        for (i, f) in T.field_hits(body, pl, P, (F_CURSOR, F_LEADING, roles.f_events)):
                            if i != len(pl[1]) - 1:
                                continue
                            if f == roles.f_events:
                                if not place[1]:
                                    ev_borrows[place[0]] = line
                                else:
                                    info(path)["unsupported"].append(("stores a `&mut` to the event list", line))
                            else:
                                info(path)["unsupported"].append(
                                    ("takes `&mut self.%s` (writes through the reference are not tracked)" % f, line))
                if rv[0] == "agg" and rv[1][0] == "adt" and rv[1][1] == P:
                    probs = []
                    ops = rv[2]
                    if defs is None:
                        defs = simple_defs(body)
                    for f in (F_CURSOR, F_LEADING):
                        o = origin(body, ops[fidx[f]], defs) if fidx[f] < len(ops) else ("?",)
                        if not (o[0] == "const" and o[1].get("v") == 0):
                            probs.append((f, "is not initialised to the constant 0"))
                    o = origin(body, ops[fidx[roles.f_events]], defs)
                    nm = cfg.callee_name(cfg.callee_of(o[1]["f"])) if o[0] == "call" else None
                    if not (nm and re.search(r"Vec::<T(, A)?>::(new|with_capacity)$", nm)):
                        probs.append((roles.f_events, "is not initialised to an empty vector"))
                    ctors.append((path, line, probs))
            t = blk["t"]
            if t[0] == "call":
                cd = t[1]
                for (i, f) in T.field_hits(body, cd["d"], P, (F_CURSOR, F_LEADING, roles.f_events)):
                    if i == len(cd["d"][1]) - 1:
                        if f == roles.f_events:
                            info(path)["unsupported"].append(("assigns the whole event list", cd["l"]))
                        else:
                            info(path)[f] += 1
        # uses of the `&mut events` borrows and pushes of events
        for call in body.calls:
            nm = call.name or ""
            g = (call.fn or {}).get("g") or ""
            uses = [a for a in call.args if a[0] in ("m", "c") and not a[1][1] and a[1][0] in ev_borrows]
            is_push = bool(re.search(r"Vec::<T(, A)?>::push$", nm))
            is_event_vec = g.startswith("[" + roles.event_path + ",") or g.startswith("[" + roles.event_path + "]")
            if is_push and is_event_vec:
                if defs is None:
                    defs = simple_defs(body)
                on_parser = bool(uses) and call.args[0] in uses
                o = origin(body, call.args[1], defs)
                variant = o[1][2] if (o[0] == "agg" and o[1][0] == "adt" and o[1][1] == roles.event_path) else None
                if not on_parser:
                    # a Vec<Event> that is not (visibly) Parser.events — the replay's own stack etc. are other types
                    info(path)["unsupported"].append(("pushes an event onto a vector that is not Parser.%s"
                                                      % roles.f_events, call.line))
                elif variant is None:
                    info(path)["unsupported"].append(("pushes an event whose variant is not a literal", call.line))
                elif variant == roles.advance_name:
                    info(path)["adv"] += 1
                    info(path)["line"] = info(path)["line"] or call.line
            elif uses:
                dn = (call.fn or {}).get("d") or ""
                if dn.endswith("IndexMut::index_mut") or nm.endswith("::index_mut"):
                    pass        # in-place access; whole-element overwrites are caught above
                else:
                    info(path)["unsupported"].append(("mutates the event list through %s" % (last(nm) or "?"),
                                                      call.line))
        used = set()
        for call in body.calls:
            for a in call.args:
                if a[0] in ("m", "c") and not a[1][1]:
                    used.add(a[1][0])
        for loc, line in ev_borrows.items():
            if loc not in used:
                info(path)["unsupported"].append(("keeps a `&mut` to the event list", line))
    return writers, ctors


def rule_r1(chk, c, roles):
    r = chk.rule("C16.R1", "who may write the cursor state: every function that assigns Parser.token_idx / "
                           "Parser.leading or pushes the token-consuming event is a cursor primitive (subject to R2); "
                           "constructors start at token_idx = leading = 0 with no events")
    for pr in roles.problems:
        r.anchor(pr, False)
    if roles.problems:
        return None
    r.anchor("Parser.%s / Parser.%s / event list Parser.%s: Vec<%s>" % (F_CURSOR, F_LEADING, roles.f_events,
                                                                        last(roles.event_path)), True)
    r.anchor("token-consuming event variant (derived from the replay arm that reads the kinds): %s"
             % roles.advance, True)
    writers, ctors = scan_writers(c, roles)
    for p in sorted(writers):
        w = writers[p]
        r.instance(p, sample={"fn": p, F_CURSOR: w[F_CURSOR], F_LEADING: w[F_LEADING], "advance_pushes": w["adv"]})
        for (msg, line) in w["unsupported"]:
            analysis(r, "%s:%s" % (p, re.sub(r"[^a-z]+", "-", msg.lower())[:48].strip("-")),
                     "%s %s — the conservation proof (R2) cannot account for it" % (p, msg), where(c, p, line))
    for (p, line, probs) in ctors:
        r.instance(p + ":constructor", sample={"constructor": p})
        for (f, msg) in probs:
            r.violation("%s:init:%s" % (p, f),
                        "constructor %s: Parser.%s %s — the invariant #Advance + leading == token_idx does not hold "
                        "initially, the replay attaches every token to the wrong event (text lost or panic)"
                        % (p, f, msg), where(c, p, line))
    nw = sum(1 for w in writers.values() if w[F_CURSOR] or w[F_LEADING] or w["adv"])
    r.floor("cursor primitives (writers of token_idx/leading/Advance)", nw, 4)
    r.floor("Parser constructors", len(ctors), 1)
    return writers



# --------------------------------------------------------------------------- C16.R2: conservation
ADV = ("counter", "advances")


class CursorEv(Ev):
    """Symbolic execution of one cursor primitive.  Tracked: Parser.token_idx (T), Parser.leading (L) as linear
    terms over their entry values, and the number of token-consuming events pushed (A).  Invariant to prove on every
    non-panicking exit:  ΔT == ΔA + ΔL."""

    def __init__(self, c, roles, maymove, parser_term):
        super().__init__(c, inline=None, depth=0)
        self.roles = roles
        self.maymove = maymove
        self.P = parser_term
        self.sites = {F_CURSOR: 0, F_LEADING: 0, "adv": 0}

    # --- state helpers
    def adv(self, st):
        return st.store.get(ADV, const(0))

    def is_parser(self, term):
        return term == self.P or (term[0] == "obj" and self.P[0] == "param" and term[1] == self.P[1])

    def cur_parser(self, st):
        v = st.get(self.P[1])
        return v if v is not None else self.P

    def neutral_havoc(self, st, why):
        """a call to (something that reaches) another cursor primitive: conservation-neutral by R2 applied to the
        callee, but token_idx/leading take unknown new values"""
        base = self.cur_parser(st)
        t_old = self.read_field(st, base, F_CURSOR)
        l_old = self.read_field(st, base, F_LEADING)
        t_new, l_new = self.fresh("token_idx after " + why), self.fresh("leading after " + why)
        st.store[(base, F_CURSOR)] = t_new
        st.store[(base, F_LEADING)] = l_new
        st.store[ADV] = add(self.adv(st), sub(sub(t_new, t_old), sub(l_new, l_old)))

    def mutate(self, st, pl, path, target, node):
        # a `&mut` use of the parser by a callee that cannot move the cursor keeps token_idx / leading (R1 is complete)
        if pl is not None and pl[0] == "local" and pl[1] == self.P[1]:
            base = self.cur_parser(st)
            keep = {f: self.read_field(st, base, f) for f in (F_CURSOR, F_LEADING)}
            self.havoc(st, pl)
            nb = self.cur_parser(st)
            for f, v in keep.items():
                st.store[(nb, f)] = v
            return
        if pl is not None and pl[0] == "field" and self.is_parser_term(pl[1]) and pl[2] in (F_CURSOR, F_LEADING):
            raise Unsupported("`&mut self.%s` handed to %s" % (pl[2], last(path or "?")))
        self.havoc(st, pl)

    def is_parser_term(self, t):
        return t == self.P or (t[0] == "obj" and t[1] == self.P[1])

    def passes_parser(self, ts):
        return any(self.is_parser_term(t) for t in ts)

    def call_hook(self, node, st, path, target, recv, recv_ty, args, ts, mut_places):
        ro = self.roles
        # push of an event onto the event list
        if path and re.search(r"Vec::<T(, A)?>::push$", path) and recv is not None:
            ru = hirq.strip(recv)
            if is_node(ru) and ru[0] == "field" and ru[2] == ro.f_events \
                    and strip_generics(ru[3] if len(ru) > 3 else "") == ro.parser_path:
                arg = ts[1]
                if arg[0] == "ctor" and arg[1].rsplit("::", 1)[0] == ro.event_path:
                    if arg[1] == ro.advance:
                        st.store[ADV] = add(self.adv(st), const(1))
                        self.sites["adv"] += 1
                    return [(st, ("tup", ()))]
                raise Unsupported("pushes an event that is not a literal variant (%s)" % show(arg))
        tgt = target or path
        if tgt in self.maymove:
            if not self.passes_parser(ts):
                raise Unsupported("calls %s (moves the cursor) on something that is not this parser" % last(tgt))
            self.neutral_havoc(st, last(tgt) + "()")
            return [(st, ("app", tgt, tuple(ts)))]
        if path is None and self.passes_parser(ts):
            raise Unsupported("hands the parser to a callee that is not statically known")
        return None

    # --- writes to the tracked fields are counted (cross-check with MIR)
    def write(self, st, pl, val, node):
        if pl is not None and pl[0] == "field" and self.is_parser_term(pl[1]) and pl[2] in (F_CURSOR, F_LEADING):
            self.sites[pl[2]] += 1
        if pl is not None and pl[0] == "field" and self.is_parser_term(pl[1]) and pl[2] == self.roles.f_events:
            raise Unsupported("assigns the whole event list")
        super().write(st, pl, val, node)

    # --- loops
    def loop_writes(self, node):
        """(direct writes/pushes, cursor-moving calls) inside a loop — syntactic"""
        ro = self.roles
        direct, moving = [], []
        for n in S.walk(node):
            if n[0] in ("assign", "assignop"):
                lhs = hirq.unmacro(n[1] if n[0] == "assign" else n[2])
                if is_node(lhs) and lhs[0] == "field" and lhs[2] in (F_CURSOR, F_LEADING, ro.f_events) \
                        and strip_generics(lhs[3] if len(lhs) > 3 else "") == ro.parser_path:
                    direct.append(n)
            elif n[0] == "mcall":
                ru = hirq.strip(n[4])
                if re.search(r"Vec::<T(, A)?>::push$", n[2] or "") and is_node(ru) and ru[0] == "field" \
                        and ru[2] == ro.f_events and strip_generics(ru[3] if len(ru) > 3 else "") == ro.parser_path:
                    direct.append(n)
                elif (n[2] in self.maymove) or (self.impl_method(n[2] or "", n[6] if len(n) > 6 else None) in self.maymove):
                    moving.append(n)
                elif n[2] is None:
                    moving.append(n)
            elif n[0] == "call":
                cu = hirq.unmacro(n[2])
                if is_node(cu) and cu[0] == "def":
                    if cu[2] in self.maymove:
                        moving.append(n)
                elif any(hirq.local_name(a) == self.P[1] for a in n[3]):
                    moving.append(n)
            elif n[0] == "closure":
                for x in S.walk(n[3] if len(n) > 3 else n):
                    if x[0] == "local" and x[1] == self.P[1]:
                        moving.append(n)
                        break
        return direct, moving

    def for_loop(self, node, st, it, pat, body):
        direct, moving = self.loop_writes(body)
        if not direct:
            return super().for_loop(node, st, it, pat, body)
        # the push loop:  for _ in 0..E { self.events.push(Event::Advance) }
        itu = hirq.strip(it)
        if not (is_node(itu) and itu[0] == "struct" and hirq.def_path(itu[1]) == "core::ops::range::Range"):
            raise Unsupported("a loop that writes the cursor state iterates over something other than `a..b`")
        if moving:
            raise Unsupported("a loop both writes the cursor state and calls cursor-moving functions")
        outs = []
        for (s, rng) in self.ev(it, st):
            lo, hi = self.reduce(("fld", rng, "start")), self.reduce(("fld", rng, "end"))
            if as_const(lo) != 0:
                raise Unsupported("push loop whose range does not start at the literal 0 (%s..)" % show(lo))
            bu = hirq.unmacro(body)
            stmts = (list(bu[1]) + ([bu[2]] if bu[2] is not None else [])) if is_node(bu) and bu[0] == "block" else [bu]
            k = 0
            for sn in stmts:
                su = hirq.unmacro(sn)
                if su in direct and su[0] == "mcall":
                    arg = hirq.strip(su[5][0])
                    if hirq.def_path(arg) == self.roles.advance and is_node(arg) and arg[0] == "def":
                        k += 1
                        self.sites["adv"] += 1
                        continue
                    if hirq.def_path(arg) and hirq.def_path(arg).rsplit("::", 1)[0] == self.roles.event_path \
                            and is_node(arg) and arg[0] == "def":
                        continue
                raise Unsupported("loop body writes the cursor state with something other than "
                                  "`self.%s.push(<event literal>)` (%s)" % (self.roles.f_events, hirq.render(su)[:50]))
            s.store[ADV] = add(self.adv(s), S.scale(hi, k))
            s.log.append(("pushloop", hi, k))
            outs.append((s, ("tup", ())))
        return outs

    def check_loop(self, node, kind, st, parts):
        direct, moving = self.loop_writes(node)
        if kind != "For" and direct:
            raise Unsupported("a `%s` loop writes token_idx/leading/events directly (only `for _ in 0..E { push }` "
                              "is interpreted)" % kind.lower())
        if moving:
            # iterations are conservation-neutral (callees proven by R2); values unknown afterwards
            self._neutral_after_loop = True

    def summarise_loop(self, node, kind, st, parts, it_term=None):
        self._neutral_after_loop = False
        outs = super().summarise_loop(node, kind, st, parts, it_term)
        if self._neutral_after_loop:
            for (s, _t) in outs:
                self.neutral_havoc(s, "a loop of cursor-moving calls")
        return outs

    def ev_closure(self, e, st):
        for x in S.walk(e[3] if len(e) > 3 else e):
            if x[0] == "local" and x[1] == self.P[1]:
                raise Unsupported("a closure captures the parser inside a cursor primitive")
        return super().ev_closure(e, st)


def hir_site_counts(c, roles, fb):
    """syntactic counts of cursor-state write sites in a HIR body (cross-check against MIR)"""
    n = {F_CURSOR: 0, F_LEADING: 0, "adv": 0}
    for x in S.walk(fb["body"]):
        if x[0] in ("assign", "assignop"):
            lhs = hirq.unmacro(x[1] if x[0] == "assign" else x[2])
            if is_node(lhs) and lhs[0] == "field" and lhs[2] in (F_CURSOR, F_LEADING) \
                    and strip_generics(lhs[3] if len(lhs) > 3 else "") == roles.parser_path:
                n[lhs[2]] += 1
        elif x[0] == "mcall" and re.search(r"Vec::<T(, A)?>::push$", x[2] or ""):
            a = hirq.strip(x[5][0]) if x[5] else None
            if a is not None and is_node(a) and a[0] == "def" and a[2] == roles.advance:
                n["adv"] += 1
    return n


def rule_r2(chk, c, roles, writers, F):
    r = chk.rule("C16.R2", "conservation: every cursor primitive keeps #Advance + leading == token_idx on every "
                           "non-panicking path (Δtoken_idx == Δadvances + Δleading, proven symbolically)")
    if writers is None:
        r.anchor("cursor primitives from R1", False)
        return
    cg = CallGraph(F, libs=[CR], bins=[])
    prims = sorted(p for p, w in writers.items() if w[F_CURSOR] or w[F_LEADING] or w["adv"])
    maymove = cg.callers_closure(prims)
    proven = 0
    for p in prims:
        w = writers[p]
        fb = c.hir.get(p)
        r.instance(p, sample={"primitive": p})
        wh = where(c, p)
        if fb is None:
            analysis(r, p + ":no-hir", "%s writes the cursor state but has no HIR body (closure?): cannot be proven" % p, wh)
            continue
        pparams = [S.pat_names(pat) for (pat, ty) in fb["params"]
                   if strip_generics(strip_ref(ty)) == roles.parser_path]
        if len(pparams) != 1 or len(pparams[0]) != 1:
            analysis(r, p + ":parser-param", "%s: cannot identify the single Parser parameter" % p, wh)
            continue
        hc = hir_site_counts(c, roles, fb)
        if any(hc[k] != w[k] for k in hc):
            analysis(r, p + ":sites", "%s: write sites seen in HIR %s differ from MIR %s (macro/closure?)"
                     % (p, hc, {k: w[k] for k in hc}), wh)
            continue
        P = ("param", pparams[0][0])
        ev = CursorEv(c, roles, maymove, P)
        try:
            outs = ev.run_fn(p)
        except Unsupported as e:
            analysis(r, p + ":unsupported", "%s is a cursor primitive but %s — outside the evaluator's fragment, "
                     "conservation is NOT proven" % (p, e), wh)
            continue
        except RecursionError:
            analysis(r, p + ":unsupported", "%s: evaluator recursion limit" % p, wh)
            continue
        if not outs:
            analysis(r, p + ":no-exit", "%s has no non-panicking exit" % p, wh)
            continue
        t0, l0 = ("fld", P, F_CURSOR), ("fld", P, F_LEADING)
        bad = None
        effects = set()
        for (s, _v) in outs:
            base = s.get(P[1]) or P
            dT = sub(ev.read_field(s, base, F_CURSOR), t0)
            dL = sub(ev.read_field(s, base, F_LEADING), l0)
            dA = s.store.get(ADV, const(0))
            res = sub(dT, add(dA, dL))
            effects.add("Δtoken_idx=%s Δadvances=%s Δleading=%s" % (show(dT), show(dA), show(dL)))
            if not is_zero(res):
                nonlin = any(x[0] == "nonlin" for x in S.subterms(res))
                bad = (res, dT, dA, dL, nonlin)
                break
        if bad:
            res, dT, dA, dL, nonlin = bad
            if nonlin:
                analysis(r, p + ":nonlinear", "%s: arithmetic outside the linear fragment (%s)" % (p, show(res)), wh)
            else:
                r.violation(p + ":conservation",
                            "%s has a path with Δtoken_idx = %s, Δadvances = %s, Δleading = %s: the invariant "
                            "#Advance + leading == token_idx is off by %s afterwards — the replay attaches tokens to "
                            "the wrong events (a token's text is lost/duplicated in the tree or build_tree panics)"
                            % (last(p), show(dT), show(dA), show(dL), show(res)), wh)
        else:
            proven += 1
            r.observe("%s: %s" % (last(p), "; ".join(sorted(effects))))
    r.floor("cursor primitives evaluated", len(prims), 4)



# --------------------------------------------------------------------------- C16.R3: replay
PUSH_RE = re.compile(r"Vec::<T(, A)?>::push$")
# std constructors that copy a `str` into an owned string type: the result has the length of the argument
STR_COPY = {"smol_str::SmolStr::new", "alloc::string::String::from", "alloc::string::ToString::to_string",
            "alloc::borrow::ToOwned::to_owned", "alloc::str::<impl str>::to_string", "smol_str::SmolStr::from"}
LEN_RE = re.compile(r"(^|::)len$")


def text_len(t):
    """length (linear term) of a string-valued term, or None when it is not of an understood shape"""
    if t[0] == "app" and t[1] in STR_COPY and t[2]:
        return text_len(t[2][0])
    if t[0] == "idx":
        rng = t[2]
        if rng[0] == "rec" and rng[1] == "core::ops::range::Range":
            d = dict(rng[2])
            return sub(d["end"], d["start"])
        if rng[0] == "rec" and rng[1] == "core::ops::range::RangeFrom":
            d = dict(rng[2])
            return sub(("app", "core::str::<impl str>::len", (t[1],)), d["start"])
    return None


def is_len_of(t, what):
    return t[0] == "app" and LEN_RE.search(t[1] or "") and len(t[2]) == 1 and t[2][0] == what


def canon_len(t):
    """rewrite `len(<string built from content[a..b]>)` atoms to b - a"""
    c0, d = S.lin_parts(t)
    out = const(c0)
    for a, k in d.items():
        v = a
        if a[0] == "app" and LEN_RE.search(a[1] or "") and len(a[2]) == 1 and text_len(a[2][0]) is not None:
            v = canon_len(text_len(a[2][0]))
        out = add(out, S.scale(v, k))
    return out


def length_mismatch(r, key, msg, delta, want, wh):
    """delta != want: a violation when the two are comparable (constant, or built from the same atoms), otherwise the
    evaluator simply cannot relate them ⇒ analysis failure"""
    if as_const(delta) is None and not (set(S.atoms(delta)) & set(S.atoms(want))):
        analysis(r, key, msg + " [the added value could not be related to the child's length: not proven]", wh)
    else:
        r.violation(key, msg, wh)


class ReplayEv(Ev):
    def __init__(self, c, roles):
        super().__init__(c, inline=lambda p: p.startswith(CR + "::") or p.startswith("<" + CR), depth=3)
        self.roles = roles

    def call_hook(self, node, st, path, target, recv, recv_ty, args, ts, mut_places):
        if path and PUSH_RE.search(path) and recv is not None:
            pl = mut_places[0] if mut_places else None
            st.log.append(("push", pl, ts[1], recv_ty))
            self.havoc(st, pl)
            return [(st, ("tup", ()))]
        return None


def path_arm(st, scrut, variants):
    for ev_ in st.log:
        if ev_[0] == "matched" and ev_[1] == scrut and ev_[2] in variants:
            return ev_[2]
    return None


def rule_r3(chk, c, roles, F=None):
    r = chk.rule("C16.R3", "replay: one token is consumed per Advance event and by no other event; every child pushed "
                           "onto a node adds exactly its own length to the node's length; a token's text is "
                           "content[starts[i]..starts[i+1] or len]; the root length is checked against content.len()")
    out = {"green_len": None, "token_text": None, "green_node": None, "green_token": None, "green_elem": None}
    if roles.problems or not roles.replay:
        r.anchor("replay function", False)
        return out
    p = roles.replay
    wh = where(c, p)
    r.anchor("replay function (takes Vec<%s>): %s" % (last(roles.event_path), p), True)
    ev = ReplayEv(c, roles)
    try:
        rets = ev.run_fn(p)
    except Unsupported as e:
        analysis(r, p + ":unsupported", "%s: %s" % (p, e), wh)
        return out
    ev_param = ("param", roles.events_param)
    main = [lp for lp in ev.loops if lp[1] == "For" and lp[4] is not None
            and (lp[4] == ev_param or (lp[4][0] == "obj" and lp[4][1] == roles.events_param))]
    if not r.anchor("the loop over the event list in %s" % last(p), len(main) == 1):
        return out
    loop = main[0]
    item = ev.fresh("event")
    try:
        cont, exits = ev.iterate(loop, bind_term=item)
    except Unsupported as e:
        analysis(r, p + ":loop-unsupported", "%s: event loop: %s" % (p, e), wh)
        return out
    variants = {roles.event_path + "::" + v["name"] for v in roles.event["variants"]}
    gst = loop[2]
    kinds_t, starts_t, content_t = ("param", roles.kinds_param), ("param", roles.starts_param), ("param", roles.content_param)
    # the running token index: the local whose entry value indexes the kinds slice on the Advance arm
    idx_local = None
    for s in cont:
        if path_arm(s, item, variants) != roles.advance:
            continue
        for e_ in s.log:
            if e_[0] == "index" and e_[1] == kinds_t:
                for a in S.atoms(e_[2]):
                    for d in gst.env:
                        for nme, v in d.items():
                            if v == a:
                                idx_local = nme
    if not r.anchor("running token index local of %s" % last(p), idx_local is not None):
        return out
    I = gst.get(idx_local)
    content_len = ("app", "core::str::<impl str>::len", (content_t,))
    arms_seen = set()
    nb_fields = {}          # (children field, length field) of the node builder
    green_fields = set()
    n_paths = 0
    for kind_, s, _t in exits:
        if kind_ in ("break", "ret"):
            arm = path_arm(s, item, variants)
            if arm is not None:
                analysis(r, "%s:%s:leaves-loop" % (p, last(arm)), "an event arm leaves the replay loop early", wh)
    for s in cont:
        arm = path_arm(s, item, variants)
        if arm is None:
            continue
        n_paths += 1
        arms_seen.add(arm)
        an = last(arm)
        # (a) index movement
        d_idx = sub(s.get(idx_local), I)
        want = 1 if arm == roles.advance else 0
        r.instance("%s:%s:index" % (p, an), sample={"arm": an, "Δ" + idx_local: show(d_idx)})
        if as_const(d_idx) is None:
            analysis(r, "%s:%s:index" % (p, an), "%s arm: the token index changes by %s (not a constant)" % (an, show(d_idx)), wh)
        elif as_const(d_idx) != want:
            r.violation("%s:%s:index" % (p, an),
                        "replay arm %s moves the token index `%s` by %d (must be %d): every later Advance reads the "
                        "wrong token — text is duplicated/lost or the final length check panics"
                        % (an, idx_local, as_const(d_idx), want), wh)
        # (b) pushes of green children paired with length increments
        pushes = [e_ for e_ in s.log if e_[0] == "push" and e_[2][0] == "ctor" and e_[1] is not None
                  and e_[1][0] == "field"]
        incs = [e_ for e_ in s.log if e_[0] == "fieldwrite"]
        elem_pushes = []
        for e_ in pushes:
            enum_path = e_[2][1].rsplit("::", 1)[0]
            a = c.adt(enum_path) if enum_path.startswith(CR) else None
            if a and a["kind"] == "enum" and a["path"] != roles.event_path:
                elem_pushes.append(e_)
                out["green_elem"] = a["path"]
        for e_ in elem_pushes:
            base, chf, child = e_[1][1], e_[1][2], e_[2]
            vname = last(child[1])
            key = "%s:%s:push-%s" % (p, an, vname)
            r.instance(key, sample={"arm": an, "child": show(child)[:80]})
            mine = [w for w in incs if w[1] == base and w[2] != chf]
            payload = child[2][0] if child[2] else None
            # length of the pushed child
            want_len, how = None, None
            if payload is not None and payload[0] == "rec":
                flds = dict(payload[2])
                txt = [(f, v) for f, v in flds.items() if text_len(v) is not None]
                bld = [(f, v) for f, v in flds.items() if v[0] == "fld"]
                if len(txt) == 1:
                    want_len, how = text_len(txt[0][1]), ("token", payload[1], txt[0][0], txt[0][1], flds)
                elif bld:
                    how = ("node", payload[1], flds)
            if how is None:
                analysis(r, key, "cannot see how the pushed child is built (%s)" % show(child)[:100], wh)
                continue
            if len(mine) != 1:
                r.violation(key, "replay arm %s pushes a %s child onto a node but adds to the node's length %d times "
                            "on that path (must be exactly once): the node's length is no longer the sum of its "
                            "children's" % (an, vname, len(mine)), wh)
                continue
            lf = mine[0][2]
            delta = sub(mine[0][4], mine[0][3])
            nb_fields[(chf, lf)] = nb_fields.get((chf, lf), 0) + 1
            if how[0] == "token":
                out["green_token"], out["token_text"] = how[1], how[2]
                if canon_len(delta) != canon_len(want_len):
                    length_mismatch(r, key, "replay arm %s pushes a token with text %s (length %s) but adds %s to the "
                                    "node's length: node lengths/offsets no longer tile the text"
                                    % (an, show(how[3])[:80], show(want_len), show(delta)), canon_len(delta),
                                    canon_len(want_len), wh)
                # (c) the text is content[starts[i] .. starts[i+1] | content.len()], kind is kinds[i]
                ckey = "%s:%s:token-span" % (p, an)
                r.instance(ckey, sample={"text": show(how[3])[:100]})
                tv = how[3]
                while tv[0] == "app" and tv[1] in STR_COPY:
                    tv = tv[2][0]
                ok_shape = tv[0] == "idx" and tv[1] == content_t and tv[2][0] == "rec" and tv[2][1] == "core::ops::range::Range"
                if not ok_shape:
                    analysis(r, ckey, "token text is not a `content[a..b]` slice (%s)" % show(tv)[:80], wh)
                else:
                    d = dict(tv[2][2])
                    st_ok = d["start"] == ("idx", starts_t, I)
                    en_ok = d["end"] in (("idx", starts_t, add(I, const(1))), content_len)
                    if not st_ok:
                        r.violation(ckey + ":start", "the token's text starts at %s, not at starts[%s]: consecutive "
                                    "tokens leave a gap or overlap" % (show(d["start"]), idx_local), wh)
                    if not en_ok:
                        r.violation(ckey + ":end", "the token's text ends at %s, not at starts[%s+1] / content.len(): "
                                    "consecutive tokens leave a gap or overlap" % (show(d["end"]), idx_local), wh)
                kinds = [v for f, v in how[4].items() if f != how[2]]
                if kinds and not all(v == ("idx", kinds_t, I) for v in kinds):
                    r.violation(ckey + ":kind", "the token's kind is %s, not kinds[%s]" % (show(kinds[0]), idx_local), wh)
            else:
                out["green_node"] = how[1]
                flds = how[2]
                g = [f for f, v in flds.items() if v[0] == "fld" and v[2] == lf]
                gc = [f for f, v in flds.items() if v[0] == "fld" and v[2] == chf]
                if len(g) != 1 or len(gc) != 1 or flds[g[0]][1] != flds[gc[0]][1]:
                    r.violation(key + ":finish", "the finished node does not take both its children and its length "
                                "from the same node builder (%s)" % show(child)[:100], wh)
                    continue
                green_fields.add((g[0], gc[0]))
                out["green_len"], out["green_children"] = g[0], gc[0]
                if delta != flds[g[0]]:
                    length_mismatch(r, key, "replay arm %s pushes a finished node (length %s) but adds %s to the "
                                    "parent's length: the parent's length is no longer the sum of its children's"
                                    % (an, show(flds[g[0]]), show(delta)), delta, flds[g[0]], wh)
        # increments of a builder length without a push
        for w in incs:
            if not any(e_[1][1] == w[1] for e_ in elem_pushes) and any(w[2] == lf for (_c, lf) in nb_fields):
                r.violation("%s:%s:length-without-child" % (p, an), "replay arm %s changes a node's length without "
                            "pushing a child" % an, wh)
    r.anchor("event arms evaluated (Advance = %s)" % last(roles.advance), roles.advance in arms_seen and len(arms_seen) >= 2)
    # (d) the final check
    r.instance(p + ":final-length-check", sample={"returns": len(rets)})
    if not rets:
        analysis(r, p + ":no-exit", "%s has no non-panicking exit" % p, wh)
    g = out.get("green_len")
    for (s, v) in rets:
        lenv = None
        if v[0] == "rec" and g:
            lenv = dict(v[2]).get(g)
        if lenv is None:
            analysis(r, p + ":final-length-check", "cannot see the length of the returned root (%s)" % show(v)[:80], wh)
            break
        ok = any(pol and cnd[0] == "bin" and cnd[1] == "Eq" and {cnd[2], cnd[3]} == {lenv, content_len}
                 for (cnd, pol) in s.pc)
        if not ok:
            r.violation(p + ":final-length-check",
                        "%s can return a root whose length was not compared with content.len(): a lost or duplicated "
                        "token would yield a silently shorter/longer tree instead of a refusal" % last(p), wh)
            break
    # node-builder fields are written nowhere else; builders start empty; green nodes are only built from builders
    if nb_fields and out.get("green_node"):
        (chf, lf) = sorted(nb_fields)[0]
        nb_path = None
        for a in c.items["adts"]:
            if a["kind"] == "struct" and a["path"].startswith(CR) and a["path"] != out["green_node"]:
                fn = {f["name"] for f in a["variants"][0]["fields"]}
                if chf in fn and lf in fn and any(out["green_elem"] in f["ty"] for f in a["variants"][0]["fields"]):
                    nb_path = a["path"]
        if r.anchor("node builder struct with fields %s/%s" % (chf, lf), nb_path is not None):
            T = roles.types
            nfields = [f["name"] for f in c.adt(nb_path)["variants"][0]["fields"]]
            gfields = [f["name"] for f in c.adt(out["green_node"])["variants"][0]["fields"]]
            for path, b in c.mir.items():
                body = Body(b)
                defs = None
                for blk in body.blocks:
                    if blk["c"]:
                        continue
                    for s_ in blk["s"]:
                        if s_[0] != "a":
                            continue
                        place, rv, line = s_[1], s_[2], s_[3]
                        if path != p:
                            for (i, f) in T.field_hits(body, place, nb_path, (lf, chf)):
                                analysis(r, "%s:writes-builder-%s" % (path, f), "%s writes %s.%s outside the replay "
                                         "function" % (path, last(nb_path), f), where(c, path, line))
                            if rv[0] == "ref" and rv[1]:
                                for (i, f) in T.field_hits(body, rv[2], nb_path, (lf, chf)):
                                    analysis(r, "%s:borrows-builder-%s" % (path, f), "%s mutably borrows %s.%s outside "
                                             "the replay function" % (path, last(nb_path), f), where(c, path, line))
                            for (i, f) in T.field_hits(body, place, out["green_node"], (out["green_len"],)):
                                if i == len(place[1]) - 1:
                                    r.violation("%s:writes-node-length" % path, "%s assigns %s.%s after construction: "
                                                "the node's length is no longer the sum of its children's"
                                                % (path, last(out["green_node"]), f), where(c, path, line))
                        if rv[0] == "agg" and rv[1][0] == "adt" and rv[1][1] == nb_path:
                            if defs is None:
                                defs = simple_defs(body)
                            r.instance("%s:builder-init" % path, sample={"site": path})
                            o1 = origin(body, rv[2][nfields.index(lf)], defs)
                            o2 = origin(body, rv[2][nfields.index(chf)], defs)
                            nm = cfg.callee_name(cfg.callee_of(o2[1]["f"])) if o2[0] == "call" else ""
                            if not (o1[0] == "const" and o1[1].get("v") == 0) or not re.search(r"Vec::<T(, A)?>::(new|with_capacity)$", nm or ""):
                                r.violation("%s:builder-init" % path, "a node builder does not start with no children "
                                            "and length 0", where(c, path, line))
                        if rv[0] == "agg" and rv[1][0] == "adt" and rv[1][1] == out["green_node"]:
                            if defs is None:
                                defs = simple_defs(body)
                            r.instance("%s:node-construction" % path, sample={"site": path})
                            ol = trace_through(body, rv[2][gfields.index(out["green_len"])], defs)
                            oc = trace_through(body, rv[2][gfields.index(out["green_children"])], defs)

                            def src(o):
                                if o[0] in ("param", "local"):
                                    pr = [x for x in o[2] if x.startswith(".")]
                                    return (o[0], o[1], pr[-1][1:] if pr else None)
                                return None
                            a1, a2 = src(ol), src(oc)
                            copy_ok = a1 and a2 and a1[:2] == a2[:2] and (
                                (a1[2], a2[2]) == (lf, chf) or (a1[2], a2[2]) == (out["green_len"], out["green_children"]))
                            if not copy_ok:
                                analysis(r, "%s:node-construction" % path, "%s builds a %s whose length/children do not "
                                         "visibly come from one node builder (or one cloned node)"
                                         % (path, last(out["green_node"])), where(c, path, line))
    # green nodes are public types: other crates must not build them or assign their length (raw scan of their facts)
    if out.get("green_node") and F is not None:
        n_other = 0
        for fp_ in sorted(glob.glob(os.path.join(F.dir, "rs", "*.json"))):
            base = os.path.basename(fp_)
            if base.split(".")[0] == CR and "Rlib" in base:
                continue
            try:
                raw = open(fp_).read()
            except OSError:
                continue
            n_other += 1
            if out["green_node"] not in raw:
                continue
            crate = base.split(".")[0]
            if re.search(r'\["adt",\s*"%s"' % re.escape(out["green_node"]), raw):
                analysis(r, "%s:node-construction" % crate, "crate %s builds a %s directly: its length is not visibly "
                         "the sum of its children's" % (crate, last(out["green_node"])), None)
            if ('".%s"' % out["green_len"]) in raw or ('".%s"' % out.get("green_children")) in raw:
                try:
                    oc = F.crate(crate, "bin" if "Executable" in base else "lib")
                except Exception:
                    continue
                for path, b in oc.mir.items():
                    body = Body(b)
                    for blk in body.blocks:
                        for s_ in blk["s"]:
                            if s_[0] != "a":
                                continue
                            pls = [s_[1]] + ([s_[2][2]] if s_[2][0] == "ref" and s_[2][1] else [])
                            for pl in pls:
                                tys = None
                                for i, pr in enumerate(pl[1]):
                                    if pr in ("." + out["green_len"], "." + str(out.get("green_children"))):
                                        tys = tys or roles.types.place_types(body, pl)
                                        if tys[i] and strip_generics(strip_ref(tys[i])) == out["green_node"]:
                                            r.violation("%s:writes-node-%s" % (path, pr[1:]), "%s (crate %s) writes %s%s of "
                                                        "a finished green node" % (path, crate, last(out["green_node"]), pr),
                                                        "%s:%d" % (b["file"], s_[3]))
        r.instance("other-crates:green-node-construction", sample={"fact files scanned": n_other})
    r.floor("replay arm paths evaluated", n_paths, 4)
    r.floor("rule instances", r.instances, 9)
    return out



# --------------------------------------------------------------------------- C16.R4: the lexer partitions the text
class LexEv(Ev):
    def __init__(self, c):
        super().__init__(c, inline=lambda p: p.startswith(CR + "::") or p.startswith("<" + CR), depth=3)

    def call_hook(self, node, st, path, target, recv, recv_ty, args, ts, mut_places):
        if path and PUSH_RE.search(path) and recv is not None:
            st.log.append(("push", hirq.local_name(recv), ts[1], ts[0]))
            self.havoc(st, mut_places[0] if mut_places else None)
            return [(st, ("tup", ()))]
        return None


def first_char_at(t, self_t, off_field, content_fields):
    """t == the `char` at self.<off_field> of self.<content>:  Some-payload of content[offset..].chars().next()"""
    if t[0] == "proj" and t[2] == S.SOME:
        t = t[1]
    elif t[0] == "app" and t[1] == "unwrap":
        t = t[2][0]
    else:
        return False
    if not (t[0] == "app" and last(t[1]) == "next" and t[2]):
        return False
    t = t[2][0]
    if not (t[0] == "app" and last(t[1]) == "chars" and t[2]):
        return False
    t = t[2][0]
    if not (t[0] == "idx" and t[1][0] == "fld" and t[1][1] == self_t and t[1][2] in content_fields):
        return False
    rng = t[2]
    return rng[0] == "rec" and rng[1] == "core::ops::range::RangeFrom" and dict(rng[2]).get("start") == ("fld", self_t, off_field)


def rule_r4(chk, c, roles):
    r = chk.rule("C16.R4", "the lexer partitions the text: each iteration of the token loop pushes one kind and one "
                           "start, the start is the lexer offset read before the token is read, the offset starts at 0 "
                           "and every write to it adds the UTF-8 length of the character at the offset")
    if roles.problems:
        r.anchor("roles", False)
        return
    T = roles.types
    # the lexer entry: origin of the token-starts operand in the Parser constructor
    fidx = {n: i for i, n in enumerate(roles.parser_fields)}
    into = None
    # which Parser fields feed the replay's kinds/starts parameters
    kinds_f = starts_f = None
    for path, b in c.mir.items():
        body = Body(b)
        for call in body.calls:
            if call.name == roles.replay:
                defs = simple_defs(body)
                pnames = [S.pat_names(pt)[0] for (pt, _ty) in c.hir[roles.replay]["params"]]
                for i, a in enumerate(call.args):
                    o = trace_through(body, a, defs)
                    fl = [x[1:] for x in (o[2] if o[0] in ("param", "local") else []) if x.startswith(".")]
                    if fl and pnames[i] == roles.kinds_param:
                        kinds_f = fl[-1]
                    if fl and pnames[i] == roles.starts_param:
                        starts_f = fl[-1]
    if not r.anchor("Parser fields handed to the replay as kinds/starts", kinds_f in fidx and starts_f in fidx):
        return
    lexfn = res_starts = res_kinds = None
    for path, b in c.mir.items():
        body = Body(b)
        for blk in body.blocks:
            for s_ in blk["s"]:
                if s_[0] == "a" and s_[2][0] == "agg" and s_[2][1][0] == "adt" and s_[2][1][1] == roles.parser_path:
                    defs = simple_defs(body)
                    o1 = origin(body, s_[2][2][fidx[starts_f]], defs)
                    o2 = origin(body, s_[2][2][fidx[kinds_f]], defs)
                    if o1[0] == "call" and o2[0] == "call" and o1[1] is o2[1]:
                        lexfn = cfg.callee_name(cfg.callee_of(o1[1]["f"]))
                        res_starts = [x[1:] for x in o1[2] if x.startswith(".")]
                        res_kinds = [x[1:] for x in o2[2] if x.startswith(".")]
    if not r.anchor("lexer entry (origin of Parser.%s/%s in the constructor)" % (kinds_f, starts_f),
                    lexfn in c.hir and res_starts and res_kinds):
        return
    # nobody mutates Parser.tokens / token_starts after construction
    for path, b in c.mir.items():
        body = Body(b)
        for blk in body.blocks:
            if blk["c"]:
                continue
            for s_ in blk["s"]:
                if s_[0] != "a":
                    continue
                for (i, f) in T.field_hits(body, s_[1], roles.parser_path, (kinds_f, starts_f)):
                    analysis(r, "%s:writes-%s" % (path, f), "%s writes Parser.%s after construction" % (path, f),
                             where(c, path, s_[3]))
                if s_[2][0] == "ref" and s_[2][1]:
                    for (i, f) in T.field_hits(body, s_[2][2], roles.parser_path, (kinds_f, starts_f)):
                        analysis(r, "%s:borrows-%s" % (path, f), "%s mutably borrows Parser.%s" % (path, f),
                                 where(c, path, s_[3]))
    p = lexfn
    wh = where(c, p)
    fb = c.hir[p]
    ev = LexEv(c)
    try:
        rets = ev.run_fn(p)
    except Unsupported as e:
        analysis(r, p + ":unsupported", "%s: %s" % (p, e), wh)
        return
    # result fields → local vectors (syntactic: the struct literal names locals)
    vs = vt = None
    for n in S.walk(fb["body"]):
        if n[0] == "struct":
            d = {f[0]: hirq.local_name(f[1]) for f in n[2]}
            if res_starts[-1] in d and res_kinds[-1] in d:
                vs, vt = d[res_starts[-1]], d[res_kinds[-1]]
    if not r.anchor("locals of %s returned as .%s/.%s" % (last(p), res_starts[-1], res_kinds[-1]), bool(vs and vt)):
        return
    loops = [lp for lp in ev.loops if any(x[0] == "mcall" and PUSH_RE.search(x[2] or "") and hirq.local_name(x[4]) == vs
                                          for x in S.walk(lp[0]))]
    if not r.anchor("the token loop of %s (pushes onto `%s`)" % (last(p), vs), len(loops) == 1):
        return
    loop = loops[0]
    # pushes outside the loop
    inside = {id(x) for x in S.walk(loop[0])}
    seen_loop = False
    for n in S.walk(fb["body"]):
        if n is loop[0]:
            seen_loop = True
        if n[0] == "mcall" and PUSH_RE.search(n[2] or "") and id(n) not in inside:
            tgt = hirq.local_name(n[4])
            if tgt == vs:
                r.violation(p + ":start-outside-loop", "%s pushes onto `%s` outside the token loop: starts and kinds "
                            "no longer pair up" % (last(p), vs), wh)
            elif tgt == vt and not seen_loop:
                r.violation(p + ":kind-before-loop", "%s pushes a kind before the token loop: kinds[i] no longer "
                            "belongs to starts[i]" % last(p), wh)
    gst = loop[2]
    try:
        cont, exits = ev.iterate(loop)
    except Unsupported as e:
        analysis(r, p + ":loop-unsupported", "%s: token loop: %s" % (p, e), wh)
        return
    off_field = lexer_local = None
    npaths = 0
    for s in cont + [s for (k, s, _t) in exits]:
        ps = [e_ for e_ in s.log[len(gst.log):] if e_[0] == "push" and e_[1] == vs]
        pt = [e_ for e_ in s.log[len(gst.log):] if e_[0] == "push" and e_[1] == vt]
        if not ps and not pt:
            continue
        npaths += 1
        key = p + ":iteration"
        r.instance(key, sample={"starts": [show(e_[2]) for e_ in ps], "kinds": [show(e_[2])[:60] for e_ in pt]})
        if len(ps) != 1 or len(pt) != 1:
            r.violation(key + ":pairing", "an iteration of the token loop pushes %d starts and %d kinds (must be one "
                        "each): kinds[i] and starts[i] stop describing the same token" % (len(ps), len(pt)), wh)
            continue
        sv = ps[0][2]
        if not (sv[0] == "fld" and sv[1][0] in ("obj", "app", "sym", "param")):
            analysis(r, key + ":start-origin", "the pushed start is not a field of the lexer read through an accessor "
                     "(%s)" % show(sv), wh)
            continue
        name = sv[1][1] if sv[1][0] == "obj" else None
        entry = None
        if name is not None:
            entry = gst.get(name)
        else:
            for d in gst.env:
                for nme, v in d.items():
                    if v == sv[1]:
                        name, entry = nme, v
        off_field, lexer_local = sv[2], name
        if entry is None or sv[1] != entry:
            r.violation(key + ":start-after-read", "the pushed start is the lexer offset %s — read after the lexer was "
                        "advanced in this iteration, not before the token was read: every token starts where it "
                        "ends, its text is attributed to the next token" % show(sv), wh)
            continue
        # the kind comes from a call that advances the lexer from the entry state
        kv = pt[0][2]
        muts = [e_ for e_ in s.log[len(gst.log):] if e_[0] == "call" and any(pl == ("local", name) for pl in e_[5])]
        if not muts:
            r.violation(key + ":no-read", "an iteration pushes a token without advancing the lexer", wh)
        elif muts[0][4] != kv:
            r.observe("the pushed kind is %s, the first lexer-advancing call is %s" % (show(kv)[:60], last(muts[0][1] or "?")))
    if not r.anchor("iteration paths that push a token", npaths >= 1 and off_field is not None):
        return
    # the lexer object is fresh from its constructor when the loop is entered, constructor sets offset 0
    pre = loop[2]
    lex_adt = None
    init_ok = None
    # find constructor by type: local `lexer_local` in MIR of lex
    mb = Body(c.mir[p])
    lty = [l[0] for l in mb.locals if l[1] == lexer_local]
    lex_adt = c.adt(strip_generics(lty[0])) if lty else None
    if not r.anchor("lexer struct (type of `%s`) with field %s" % (lexer_local, off_field),
                    bool(lex_adt) and any(f["name"] == off_field for f in lex_adt["variants"][0]["fields"])):
        return
    LP = lex_adt["path"]
    lfields = [f["name"] for f in lex_adt["variants"][0]["fields"]]
    content_fields = {f["name"] for f in lex_adt["variants"][0]["fields"] if strip_ref(f["ty"]).endswith("str")
                      or strip_ref(f["ty"]).endswith("String")}
    # no mutation of the lexer between construction and the loop: syntactic (no &mut use of the local before the loop)
    pre_mut = False
    for n in S.walk(fb["body"]):
        if n is loop[0]:
            break
        if n[0] == "mcall" and len(n) > 6 and (n[6] or "").startswith("&mut") and S.place_root(n[4]) == lexer_local:
            pre_mut = True
        if n[0] == "addr" and n[1] and S.place_root(n[2]) == lexer_local:
            pre_mut = True
    r.instance(p + ":first-start")
    if pre_mut:
        r.violation(p + ":first-start", "the lexer is advanced before the token loop: the first start is not 0, the "
                    "text before it is in no token", wh)
    nctor = 0
    writers = {}
    for path, b in c.mir.items():
        body = Body(b)
        defs = None
        for blk in body.blocks:
            if blk["c"]:
                continue
            for s_ in blk["s"]:
                if s_[0] != "a":
                    continue
                place, rv, line = s_[1], s_[2], s_[3]
                for (i, f) in T.field_hits(body, place, LP, (off_field,)):
                    if i == len(place[1]) - 1:
                        writers.setdefault(path, []).append(line)
                if rv[0] == "ref" and rv[1]:
                    for (i, f) in T.field_hits(body, rv[2], LP, (off_field,)):
                        if i == len(rv[2][1]) - 1:
                            analysis(r, "%s:borrows-offset" % path, "%s takes `&mut` to the lexer offset" % path,
                                     where(c, path, line))
                if place[1] and place[1][-1] == "*":
                    tys = T.place_types(body, place)
                    if tys[-1] is not None and strip_generics(tys[-1]) == LP:
                        analysis(r, "%s:overwrites-lexer" % path, "%s overwrites the whole lexer" % path, where(c, path, line))
                if rv[0] == "agg" and rv[1][0] == "adt" and rv[1][1] == LP:
                    nctor += 1
                    if defs is None:
                        defs = simple_defs(body)
                    o = origin(body, rv[2][lfields.index(off_field)], defs)
                    r.instance(path + ":lexer-init")
                    if not (o[0] == "const" and o[1].get("v") == 0):
                        r.violation(path + ":lexer-init", "%s does not start the lexer offset at 0: the text before the "
                                    "first start is in no token" % path, where(c, path, line))
            t = blk["t"]
            if t[0] == "call":
                for (i, f) in T.field_hits(body, t[1]["d"], LP, (off_field,)):
                    if i == len(t[1]["d"][1]) - 1:
                        writers.setdefault(path, []).append(t[1]["l"])
    r.floor("lexer constructors", nctor, 1)
    # every writer of the offset adds the length of the char at the offset
    nw = 0
    for wpath in sorted(writers):
        nw += 1
        key = wpath + ":offset-write"
        wwh = where(c, wpath, writers[wpath][0])
        r.instance(key, sample={"writer": wpath})
        wfb = c.hir.get(wpath)
        if wfb is None:
            analysis(r, key, "%s writes the lexer offset but has no HIR body" % wpath, wwh)
            continue
        sp = [S.pat_names(pt) for (pt, ty) in wfb["params"] if strip_generics(strip_ref(ty)) == LP]
        if len(sp) != 1 or len(sp[0]) != 1:
            analysis(r, key, "%s: cannot identify the lexer parameter" % wpath, wwh)
            continue
        me = ("param", sp[0][0])
        wev = Ev(c, inline=lambda q: q.startswith(CR + "::") or q.startswith("<" + CR), depth=2)
        try:
            outs = wev.run_fn(wpath)
        except Unsupported as e:
            analysis(r, key, "%s: %s" % (wpath, e), wwh)
            continue
        nhir = sum(1 for x in S.walk(wfb["body"]) if x[0] in ("assign", "assignop")
                   and is_node(hirq.unmacro(x[1] if x[0] == "assign" else x[2]))
                   and hirq.unmacro(x[1] if x[0] == "assign" else x[2])[0] == "field"
                   and hirq.unmacro(x[1] if x[0] == "assign" else x[2])[2] == off_field)
        if nhir != len(writers[wpath]):
            analysis(r, key, "%s: offset writes in HIR (%d) and MIR (%d) differ" % (wpath, nhir, len(writers[wpath])), wwh)
            continue
        o0 = ("fld", me, off_field)
        for (s, _v) in outs:
            ws = [e_ for e_ in s.log if e_[0] == "fieldwrite" and e_[2] == off_field]
            if not ws:
                continue
            cur = o0
            for e_ in ws:
                if e_[1] != me or e_[3] != cur or cur != o0:
                    analysis(r, key, "%s writes the offset more than once on a path / through another object" % wpath, wwh)
                    break
                delta = sub(e_[4], e_[3])
                cur = e_[4]
                good = delta[0] == "app" and last(delta[1]) == "len_utf8" and len(delta[2]) == 1 \
                    and first_char_at(delta[2][0], me, off_field, content_fields)
                if good:
                    continue
                derived = all(a[0] == "app" and last(a[1]) in ("len_utf8", "len") and
                              any(x[0] == "fld" and x[1] == me and x[2] in content_fields for x in S.subterms(a))
                              for a in S.atoms(delta)) and as_const(delta) is None and S.lin_parts(delta)[0] == 0
                if derived:
                    analysis(r, key, "%s adds %s to the offset: a text length, but not visibly the length of the "
                             "character at the offset" % (wpath, show(delta)), wwh)
                else:
                    r.violation(key, "%s sets the lexer offset to offset + (%s), which is not the UTF-8 length of the "
                                "character at the offset: the next token start can fall inside a character "
                                "(content[start..end] panics) or skip/repeat text" % (last(wpath), show(delta)), wwh)
    r.floor("writers of the lexer offset", nw, 1)



# --------------------------------------------------------------------------- C16.R5: red-tree offsets
class RedEv(Ev):
    def __init__(self, c, wrappers, depth=4):
        super().__init__(c, inline=lambda p: (p.startswith(CR + "::") or p.startswith("<" + CR)) and p not in wrappers
                         or p in self.wrap_inline, depth=depth)
        self.wrappers = wrappers
        self.wrap_inline = set()
        self.inlined = set()

    def inline(self, target, s, ts):
        self.inlined.add(target)
        return super().inline(target, s, ts)

    def call_hook(self, node, st, path, target, recv, recv_ty, args, ts, mut_places):
        if path in self.wrappers:
            st.log.append(("wrap", path, tuple(ts)))
        return None


def child_len(G, green):
    """canonical length term of the green child G (payload of a GreenElement variant)"""
    if green["green_node"] in green["variant_ty"].get(G[2], ""):
        return ("fld", G, green["green_len"])
    return ("app", "core::str::<impl str>::len", (("fld", G, green["token_text"]),))


def canon_child_len(delta):
    """all `…::len(x)` applications are the same function for our purposes"""
    c0, d = S.lin_parts(delta)
    out = const(c0)
    for a, k in d.items():
        if a[0] == "app" and LEN_RE.search(a[1] or "") and len(a[2]) == 1:
            a = ("app", "core::str::<impl str>::len", a[2])
        out = add(out, S.scale(a, k))
    return out


def child_len_ok(delta, G, variant, green):
    return G[0] == "proj" and canon_child_len(delta) == child_len(G, green)


def rule_r5(chk, c, roles, green):
    r = chk.rule("C16.R5", "red-tree offsets accumulate child lengths: the element iterator hands out each green child "
                           "at the running offset and then adds exactly that child's length; the manual descents "
                           "(find_*) add a skipped child's length and wrap a child at the offset before it")
    need = ("green_elem", "green_node", "green_token", "green_len", "token_text")
    if not r.anchor("green element/node/token types and their length fields (derived by R3)",
                    all(green.get(k) for k in need)):
        return
    GE, GN, GT = green["green_elem"], green["green_node"], green["green_token"]
    ge = c.adt(GE)
    green["variant_ty"] = {GE + "::" + v["name"]: (v["fields"][0]["ty"] if v["fields"] else "") for v in ge["variants"]}
    # wrapper constructors: (green payload, offset newtype, …) → wrapper
    wrappers = {}
    off_types = set()
    for f in c.items["fns"]:
        ins = f.get("inputs") or []
        gi = [i for i, t in enumerate(ins) if (GN in t or GT in t) and GE not in t]
        oi = []
        for i, t in enumerate(ins):
            a = c.adt(t) if re.match(r"^[\w:]+$", t) else None
            if a and a["path"] == t and a["kind"] == "struct" and len(a["variants"][0]["fields"]) == 1 \
                    and a["variants"][0]["fields"][0]["ty"] in S.INT_TYPES and a["variants"][0]["ctor"] == "Fn":
                oi.append(i)
        if len(gi) == 1 and len(oi) == 1 and f.get("has_body") and f["path"] in c.hir and strip_generics(f["output"]) == strip_generics(f.get("self_ty") or ""):
            wrappers[f["path"]] = (gi[0], oi[0])
            off_types.add(ins[oi[0]])
    if not r.anchor("wrapper constructors taking (green child, offset newtype)", len(wrappers) >= 2 and len(off_types) == 1):
        return
    TOFF = off_types.pop()
    wtypes = {strip_generics(c.fn(p)["output"]) for p in wrappers}
    elems = []
    for a in c.items["adts"]:
        if a["kind"] == "enum" and a["path"].startswith(CR) and len(a["variants"]) == len(wtypes) \
                and all(len(v["fields"]) == 1 for v in a["variants"]) \
                and {v["fields"][0]["ty"] for v in a["variants"]} == wtypes:
            elems.append(a)
    if not r.anchor("exactly one element enum with one variant per wrapper type", len(elems) == 1):
        return
    elem = elems[0]
    EL = elem["path"]
    me = ("param", "self")

    def offsets_in(t):
        return {x for x in S.subterms(t) if x[0] == "ctor" and x[1] == TOFF}

    def greens_in(t):
        return {x for x in S.subterms(t) if x[0] == "proj" and x[2] in green["variant_ty"]}

    # ---- (a) the iterator
    handled = set()
    iter_info = {}
    n_iter = 0
    for im in c.items["impls"]:
        if im["trait"] != "core::iter::traits::iterator::Iterator":
            continue
        nxt = [pth for (nm, pth) in im["methods"] if nm == "next"]
        if not nxt or nxt[0] not in c.hir:
            continue
        p = nxt[0]
        ev = RedEv(c, wrappers)
        ev.wrap_inline = set(wrappers)
        try:
            rets = ev.run_fn(p)
        except Unsupported as e:
            if strip_generics(im["self_ty"]).startswith(CR + "::ast"):
                analysis(r, p + ":unsupported", "%s: %s" % (p, e), where(c, p))
            continue
        somes = [(s, v) for (s, v) in rets if v[0] == "ctor" and v[1] == S.SOME and v[2]
                 and v[2][0][0] == "ctor" and v[2][0][1].rsplit("::", 1)[0] == EL]
        if not somes:
            continue
        n_iter += 1
        wh = where(c, p)
        handled.add(p)
        handled |= ev.inlined
        for (s, v) in rets:
            if (s, v) in somes:
                continue
            if not (v[0] == "failure" or (v[0] == "ctor" and v[1] == S.NONE)):
                analysis(r, p + ":return", "%s returns %s: neither None nor Some(element)" % (p, show(v)[:80]), wh)
        for (s, v) in somes:
            E = v[2][0]
            vn = last(E[1])
            key = "%s:%s" % (p, vn)
            r.instance(key, sample={"element": show(E)[:120]})
            offs, gs = offsets_in(E), greens_in(E)
            if len(offs) != 1 or len(gs) != 1:
                analysis(r, key, "cannot identify the offset / the green child inside the returned element (%d offsets, "
                         "%d children)" % (len(offs), len(gs)), wh)
                continue
            off, G = offs.pop(), gs.pop()
            V = off[2][0]
            if not (V[0] == "fld" and V[1] == me):
                r.violation(key + ":offset", "the element is handed out at offset %s, which is not the iterator's running "
                            "offset on entry: spans of siblings overlap or leave gaps" % show(V), wh)
                continue
            F = V[2]
            delta = sub(ev.read_field(s, me, F), V)
            if not child_len_ok(delta, G, vn, green):
                length_mismatch(r, key + ":advance", "next() returns a %s element but moves the running offset `%s` by "
                                "%s, not by the length of that green child: every following sibling gets a wrong "
                                "offset — spans no longer tile the text" % (vn, F, show(delta)),
                                canon_child_len(delta), child_len(G, green), wh)
            iter_info.update({"self_ty": strip_generics(im["self_ty"]), "acc": F, "next": p})
            # the child is elements[index] and index moves by one
            X = G[1]
            idxf = None
            for x in S.subterms(X):
                if x[0] in ("app", "idx"):
                    argl = x[2] if x[0] == "app" else (x[1], x[2])
                    if isinstance(argl, tuple) and len(argl) == 2 and all(a[0] == "fld" and a[1] == me for a in argl):
                        idxf = argl[1][2]
            if idxf is None:
                analysis(r, key + ":index", "cannot see which child index the element comes from (%s)" % show(X)[:80], wh)
            else:
                di = sub(ev.read_field(s, me, idxf), ("fld", me, idxf))
                if as_const(di) != 1:
                    r.violation(key + ":index", "next() returns elements[%s] but moves `%s` by %s (must be 1): a child "
                                "is handed out twice or skipped while the offset moves on" % (idxf, idxf, show(di)), wh)
                iter_info["idx"] = idxf
    if not r.anchor("Iterator impl whose items are %s" % last(EL), n_iter >= 1):
        return
    # ---- (a') who may write the iterator's running offset / child index; how the iterator starts
    it_adt = c.adt(iter_info.get("self_ty", "?")) if iter_info.get("self_ty") else None
    if r.anchor("iterator struct with running offset `%s` and child index `%s`" % (iter_info.get("acc"), iter_info.get("idx")),
                bool(it_adt) and iter_info.get("acc") and iter_info.get("idx")):
        ITP = it_adt["path"]
        ifields = [f["name"] for f in it_adt["variants"][0]["fields"]]
        T = roles.types
        for path, b in c.mir.items():
            body = Body(b)
            defs = None
            for blk in body.blocks:
                if blk["c"]:
                    continue
                for s_ in blk["s"]:
                    if s_[0] != "a":
                        continue
                    place, rv, line = s_[1], s_[2], s_[3]
                    pls = [(place, "writes")] + ([(rv[2], "mutably borrows")] if rv[0] == "ref" and rv[1] else [])
                    for (pl, verb) in pls:
                        for (i, f) in T.field_hits(body, pl, ITP, (iter_info["acc"], iter_info["idx"])):
                            if i == len(pl[1]) - 1 and path != iter_info["next"]:
                                analysis(r, "%s:%s-%s" % (path, verb.split()[-1], f), "%s %s %s.%s outside next(): the "
                                         "pairing offset/child proven for next() no longer covers every change"
                                         % (path, verb, last(ITP), f), where(c, path, line))
                    if rv[0] == "agg" and rv[1][0] == "adt" and rv[1][1] == ITP:
                        if defs is None:
                            defs = simple_defs(body)
                        r.instance(path + ":iterator-init", sample={"site": path})
                        o = origin(body, rv[2][ifields.index(iter_info["idx"])], defs)
                        if not (o[0] == "const" and o[1].get("v") == 0):
                            r.violation(path + ":iterator-init", "%s starts the element iterator at a child index that is "
                                        "not the constant 0 while the offset starts at the parent's start: the skipped "
                                        "children's lengths are missing from every offset" % path, where(c, path, line))
    # ---- (b) every other wrapper construction site
    sites = {}
    for fp, fb in c.hir.items():
        for n in S.walk(fb["body"]):
            if n[0] == "call" and hirq.def_path(n[2]) in wrappers and is_node(hirq.unmacro(n[2])) and hirq.unmacro(n[2])[0] == "def":
                sites.setdefault(fp, []).append(n)
    n_desc = 0
    for fp in sorted(sites):
        if fp in handled or fp in wrappers:
            continue
        fb = c.hir[fp]
        wh = where(c, fp)
        # a function over the iterator's own state (peek): wraps elements[index] at the running offset, moves nothing
        itparams = [S.pat_names(pt) for (pt, ty) in fb["params"]
                    if iter_info.get("self_ty") and strip_generics(strip_ref(ty)) == iter_info["self_ty"]]
        if len(itparams) == 1 and len(itparams[0]) == 1 and iter_info.get("acc") and iter_info.get("idx"):
            me2 = ("param", itparams[0][0])
            key = fp + ":at-iterator-state"
            r.instance(key, sample={"site": fp})
            ev = RedEv(c, wrappers, depth=0)
            try:
                rets = ev.run_fn(fp)
            except Unsupported as e:
                analysis(r, key, "%s: %s" % (fp, e), wh)
                continue
            for (s, _v) in rets:
                for e_ in s.log:
                    if e_[0] == "fieldwrite" and e_[1] == me2 and e_[2] in (iter_info["acc"], iter_info["idx"]):
                        analysis(r, key, "%s moves the iterator state" % fp, wh)
                    if e_[0] != "wrap":
                        continue
                    gi, oi = wrappers[e_[1]]
                    Gs = greens_in(e_[2][gi]) | ({e_[2][gi]} if e_[2][gi][0] == "proj" else set())
                    ok_child = len(Gs) == 1 and any(x == ("fld", me2, iter_info["idx"]) for x in S.subterms(list(Gs)[0]))
                    if e_[2][oi] != ("ctor", TOFF, (("fld", me2, iter_info["acc"]),)):
                        r.violation(key + ":offset", "%s wraps the current child at %s, not at the iterator's running "
                                    "offset `%s`" % (last(fp), show(e_[2][oi]), iter_info["acc"]), wh)
                    elif not ok_child:
                        analysis(r, key + ":child", "%s: cannot see that the wrapped child is elements[%s]"
                                 % (fp, iter_info["idx"]), wh)
            continue
        gm = [n for n in S.walk(fb["body"]) if n[0] == "match"
              and any(pp in green["variant_ty"] for arm in n[2] for pp in hirq.pat_paths(arm[0]))]
        in_match = set()
        for M in gm:
            in_match |= {id(x) for x in S.walk(M)}
        outside = [n for n in sites[fp] if id(n) not in in_match]
        if outside:
            key = fp + ":root"
            r.instance(key, sample={"site": fp})
            ev = RedEv(c, wrappers, depth=0)
            try:
                rets = ev.run_fn(fp)
                wraps = [e_ for (s, _v) in rets for e_ in s.log if e_[0] == "wrap"]
                bad = [e_ for e_ in wraps if not (e_[2][wrappers[e_[1]][1]] == ("ctor", TOFF, (const(0),)))]
                if bad or not wraps:
                    analysis(r, key, "%s wraps a green node at an offset that is neither a running sum nor the "
                             "constant 0 (%s)" % (fp, show(bad[0][2][wrappers[bad[0][1]][1]]) if bad else "?"), wh)
                else:
                    r.observe("%s wraps a green node at the constant offset 0 (taken to be the root)" % fp)
            except Unsupported as e:
                analysis(r, key, "%s: %s" % (fp, e), wh)
        for mi, M in enumerate(gm):
            msites = [n for n in sites[fp] if id(n) in {id(x) for x in S.walk(M)}]
            accs = set()
            okshape = True
            for n in msites:
                oa = hirq.strip(n[3][wrappers[hirq.def_path(n[2])][1]])
                if is_node(oa) and oa[0] == "call" and hirq.def_path(oa[2]) == TOFF and hirq.local_name(oa[3][0]):
                    accs.add(hirq.local_name(oa[3][0]))
                else:
                    okshape = False
            base_key = "%s:descent%s" % (fp, "" if len(gm) == 1 else "-%d" % mi)
            if not okshape or len(accs) != 1:
                analysis(r, base_key, "%s: cannot identify the running offset of the descent (offset arguments: %s)"
                         % (fp, sorted(accs)), wh)
                continue
            acc = accs.pop()
            ev = RedEv(c, wrappers, depth=3)
            st = St()
            assigned, _pl, _ret = ev.loop_effects(M, st)
            for nme in assigned | {acc}:
                st.declare(nme, ("free", nme))
            ev.frames.append([])
            try:
                outs = ev.ev(M, st)
                exits = ev.frames[-1]
            except Unsupported as e:
                analysis(r, base_key, "%s: %s" % (fp, e), wh)
                ev.frames.pop()
                continue
            ev.frames.pop()
            A0 = ("free", acc)
            paths = [("end", s) for (s, _v) in outs] + [(k, s) for (k, s, _t) in exits]
            for (kind_, s) in paths:
                arm = next((e_[2] for e_ in s.log if e_[0] == "matched" and e_[2] in green["variant_ty"]), None)
                if arm is None:
                    continue
                G = next(e_ for e_ in s.log if e_[0] == "matched" and e_[2] == arm)
                G = ("proj", G[1], arm, 0)
                vn = last(arm)
                key = "%s:%s" % (base_key, vn)
                n_desc += 1
                delta = sub(s.get(acc) or A0, A0)
                wraps = [e_ for e_ in s.log if e_[0] == "wrap"]
                r.instance(key, sample={"arm": vn, "exit": kind_, "Δ" + acc: show(delta), "wraps": len(wraps)})
                wrapped_here = False
                for e_ in wraps:
                    gi, oi = wrappers[e_[1]]
                    if e_[2][gi] != G:
                        analysis(r, key + ":wrap", "%s wraps %s, not the matched child" % (fp, show(e_[2][gi])[:60]), wh)
                        continue
                    wrapped_here = True
                    if e_[2][oi] != ("ctor", TOFF, (A0,)):
                        r.violation(key + ":wrap-offset", "%s wraps the %s child at offset %s instead of the running "
                                    "offset before the child: the element's span is shifted"
                                    % (last(fp), vn, show(e_[2][oi])), wh)
                if kind_ in ("break", "ret"):
                    continue
                if child_len_ok(delta, G, vn, green):
                    continue
                if is_zero(delta) and wrapped_here:
                    continue            # descent into the child: its children start at the same offset
                length_mismatch(r, key + ":skip", "%s passes over a %s child but moves the running offset `%s` by %s "
                                "instead of the child's length: everything found after it is reported at a wrong offset"
                                % (last(fp), vn, acc, show(delta)), canon_child_len(delta), child_len(G, green), wh)
    r.floor("descent arm paths evaluated", n_desc, 7)
    r.floor("rule instances", r.instances, 9)


def run(chk, F):
    c = F.crate(CR)
    roles = Roles(c)
    writers = rule_r1(chk, c, roles)
    rule_r2(chk, c, roles, writers, F)
    green = rule_r3(chk, c, roles, F)
    rule_r4(chk, c, roles)
    rule_r5(chk, c, roles, green)
    from rules import c16_text
    c16_text.run(chk, F)
    chk.assumptions += [
        "PARTIAL: decides the structural conservation laws of the lossless-tree mechanism (who may write the cursor "
        "state; Δtoken_idx == Δadvances + Δleading per cursor primitive; one token per Advance and child-length "
        "pairing in the replay; lexer start/offset discipline; offset/child-length pairing in the red tree). It does "
        "NOT decide: that parse_file ends with every token advanced (leading == 0 at EOF) — the replay's final length "
        "assertion turns that into a panic, which is C06's subject; open/close balance; error spans lying inside the "
        "text; re-parse idempotence; integer truncation/overflow (u32 offsets, usize subtraction) — arithmetic is "
        "over the integers; labelled break/continue targets in the manual descents (the facts carry no labels)",
        "calls from a cursor primitive into functions that reach another primitive are taken as conservation-neutral "
        "(each primitive is proven separately: partial-correctness induction over terminating executions)",
        "std functions in rules/c16_sym.py IDENTITY/TRY_CONV/UNWRAP and STR_COPY are taken at their documented meaning",
    ]

"""C18.R1 helper: a small abstract interpreter over HIR s-expressions that summarises byte-stream producers and
consumers into operand signatures.  Nothing of /repo is executed: the interpreter walks the *facts* of function bodies.

Stream tokens
    B   one byte                       (writer: one `push` on the Vec<u8> field; reader: stream[cursor] + cursor += 1)
    F   fixed 4-byte scalar            (a function whose whole effect is four straight bytes of ONE scalar)
    V   variable-length scalar         (bytes produced/consumed inside a data-dependent loop)
    x*  a counted repetition of x      (loop over a slice parameter / over 0..count / over a list with such elements)
    N   a V that is the count of a later x*   (writer: `slice.len()`; reader: the upper bound of the 0..count loop)
Values carry the tokens they derive from (reader) or the parameters they derive from (writer), so the caller can tell
which field each operand flows into and which parameter each emitted operand came from.

Undecidable conditions are explored path by path (a decision oracle re-runs the entry function); all paths of one
dispatch arm must agree on the signature, otherwise the function is reported as not summarisable (never guessed).
"""
import re

import hirq
from hirq import def_path, is_node, last


class Unsupported(Exception):
    pass


class _Return(Exception):
    def __init__(self, v):
        Exception.__init__(self)
        self.v = v


class _Break(Exception):
    pass


class _Continue(Exception):
    pass


class _Diverge(Exception):
    pass


class _TrialAbort(Exception):
    pass


class Val:
    __slots__ = ("k", "a", "toks", "deps", "lanes", "shr", "direct", "bits")

    def __init__(self, k, a=None, toks=(), deps=frozenset(), lanes=None, shr=0, direct=None, bits=None):
        self.k = k
        self.a = a
        self.toks = tuple(toks)
        self.deps = deps
        self.lanes = lanes
        self.shr = shr
        self.direct = direct
        self.bits = bits        # upper bound on the number of significant bits of an unsigned scalar (None: unknown)

    def with_(self, **kw):
        v = Val(self.k, self.a, self.toks, self.deps, self.lanes, self.shr, self.direct, self.bits)
        for k, x in kw.items():
            setattr(v, k, x)
        return v


def unk(*vals, **kw):
    toks = []
    deps = set()
    for v in vals:
        if v is None:
            continue
        for t in v.toks:
            if t not in toks:
                toks.append(t)
        deps |= v.deps
    return Val("unk", None, toks, frozenset(deps), **kw)


UNIT = Val("unit")

INT_WIDTH = {"u8": 8, "u16": 16, "u32": 32, "u64": 64, "u128": 128, "usize": 64,
             "i8": 8, "i16": 16, "i32": 32, "i64": 64, "i128": 128, "isize": 64}
LOOP_CAP = 64      # a loop that still runs after this many iterations is treated as unbounded
_CORE_NUM = re.compile(r"^core::num::<impl ([ui])(8|16|32|64|128|size)>::(BITS|MAX|MIN)$")


def core_num_const(path):
    """associated constants of the primitive integer types (language facts; core's items are not in the crate facts;
    usize = 64 because facts are produced for the 64-bit host build only)"""
    m = _CORE_NUM.match(path or "")
    if not m:
        return None
    w = 64 if m.group(2) == "size" else int(m.group(2))
    signed = m.group(1) == "i"
    if m.group(3) == "BITS":
        return w
    if m.group(3) == "MAX":
        return (1 << (w - 1)) - 1 if signed else (1 << w) - 1
    return -(1 << (w - 1)) if signed else 0

# std API whose meaning the interpreter relies on (std, not repository code)
VEC_PUSH = "alloc::vec::Vec::<T, A>::push"
VEC_NEW = ("alloc::vec::Vec::<T>::new", "alloc::vec::Vec::<T>::with_capacity")
PASS_THROUGH = {"iter", "into_iter", "clone", "as_slice", "to_vec", "as_ref", "iter_mut", "to_owned", "borrow",
                "deref", "copied", "cloned"}
PANICS = ("core::panicking::", "std::rt::begin_panic", "core::option::expect_failed", "core::option::unwrap_failed",
          "core::result::unwrap_failed", "std::process::abort", "std::process::exit")


class State:
    def __init__(self):
        self.scopes = [{}]
        self.toks = []
        self.alias = {}
        self.events = []
        self.star = []

    def snapshot(self):
        return ([dict(s) for s in self.scopes], [dict(t) for t in self.toks], dict(self.alias), list(self.events),
                list(self.star))

    def restore(self, snap):
        self.scopes = [dict(s) for s in snap[0]]
        self.toks = [dict(t) for t in snap[1]]
        self.alias = dict(snap[2])
        self.events = list(snap[3])
        self.star = list(snap[4])


class Interp:
    """mode 'w': the stream is a Vec<u8> field that is pushed to; mode 'r': the stream is a slice field indexed by a
    cursor field.  `methods`: {path: hir body} of the inherent impl that may be interpreted."""

    def __init__(self, c, methods, stream, mode, opc_enum, cursor=None):
        self.c = c
        self.methods = methods
        self.stream = stream
        self.cursor = cursor
        self.mode = mode
        self.opc_enum = opc_enum
        self.consts = {k["path"]: k for k in c.items.get("consts", [])}
        self.vprims = set()
        self.fprims = {}
        self._ids = 0
        self.maxmode = False
        self.max_inf = False
        self.loop_depth = 0
        # methods that (transitively) mention the stream or the cursor field
        direct = set()
        callees = {}
        for p, b in methods.items():
            cs = set()
            for n in hirq.walk(b["body"]):
                if n[0] == "field" and hirq.local_name(n[1]) == "self" and n[2] in (stream, cursor):
                    direct.add(p)
                elif n[0] == "mcall" and n[2] in methods:
                    cs.add(n[2])
                elif n[0] == "call" and def_path(n[2]) in methods:
                    cs.add(def_path(n[2]))
            callees[p] = cs
        self.may_touch = set(direct)
        changed = True
        while changed:
            changed = False
            for p, cs in callees.items():
                if p not in self.may_touch and cs & self.may_touch:
                    self.may_touch.add(p)
                    changed = True

    # ------------------------------------------------------------------ driver
    def run(self, entry, args, decisions):
        self.st = State()
        self.decisions = decisions
        self.trace = []
        self.trial = 0
        self.stack = []
        try:
            v = self.call_method(entry, args)
        except _Diverge:
            return {"outcome": "diverge", "trace": self.trace}
        except Unsupported as e:
            return {"outcome": "unsupported", "why": str(e), "trace": self.trace}
        except RecursionError:
            return {"outcome": "unsupported", "why": "recursion too deep", "trace": self.trace}
        for t in self.st.toks:
            if t.get("peek"):
                return {"outcome": "unsupported", "why": "stream byte inspected without advancing the cursor",
                        "trace": self.trace}
        return {"outcome": "ok", "toks": self.st.toks, "value": v, "events": self.st.events, "trace": self.trace,
                "alias": self.st.alias}

    def explore(self, entry, args, limit=2048):
        """all paths of `entry`: list of run results"""
        out = []
        stack = [[]]
        while stack:
            d = stack.pop()
            res = self.run(entry, args, d)
            out.append(res)
            tr = res["trace"]
            for i in range(len(d), len(tr)):
                for alt in range(tr[i][0] + 1, tr[i][1]):
                    stack.append([t[0] for t in tr[:i]] + [alt])
            if len(out) > limit:
                out.append({"outcome": "unsupported", "why": "more than %d paths" % limit, "trace": []})
                break
        return out

    def decide(self, n, kind, infos):
        if self.trial > 0:
            raise _TrialAbort()
        i = len(self.trace)
        ch = self.decisions[i] if i < len(self.decisions) else 0
        self.trace.append((ch, n, kind, infos[ch] if infos else None))
        return ch

    # ------------------------------------------------------------------ tokens
    def new_id(self):
        self._ids += 1
        return self._ids

    def canon(self, t):
        seen = 0
        while t in self.st.alias and seen < 50:
            t = self.st.alias[t]
            seen += 1
        return t

    def canon_toks(self, v):
        out = []
        for t in v.toks:
            t = self.canon(t)
            if t not in out:
                out.append(t)
        return out

    def emit(self, cls, **kw):
        t = {"id": self.new_id(), "cls": cls, "op": None, "star": None, "deps": frozenset(), "direct": None,
             "shr": None, "fn": self.stack[-1] if self.stack else None}
        t.update(kw)
        self.st.toks.append(t)
        return t

    def _replace(self, start, newtok):
        old = self.st.toks[start:]
        del self.st.toks[start:]
        self.st.toks.append(newtok)
        for t in old:
            self.st.alias[t["id"]] = newtok["id"]

    @staticmethod
    def _plain_bytes(ts):
        return all(t["cls"] == "B" and t["op"] is None and t["star"] is None and not t.get("peek") for t in ts)

    def collapse_loop(self, start):
        new = self.st.toks[start:]
        if not new or self.maxmode:
            return
        if not self._plain_bytes(new):
            raise Unsupported("loop with an unknown trip count emits %s" % "".join(t["cls"] for t in new))
        deps = frozenset().union(*[t["deps"] for t in new])
        directs = {t["direct"] for t in new}
        tok = {"id": self.new_id(), "cls": "V", "op": None, "star": None, "deps": deps,
               "direct": directs.pop() if len(directs) == 1 else None, "shr": None,
               "fn": self.stack[-1] if self.stack else None}
        self._replace(start, tok)
        if self.stack:
            self.vprims.add(self.stack[-1])

    def collapse_fixed(self, start, retval, callid, path):
        new = self.st.toks[start:]
        if len(new) != 4 or not self._plain_bytes(new) or self.maxmode:
            return
        shifts = None
        if self.mode == "w":
            labels = [{d for d in t["deps"] if d[0] == "p" and d[1] == callid} for t in new]
            if not all(len(l) == 1 for l in labels) or len(set.union(*labels)) != 1:
                return
            shifts = [t["shr"] for t in new]
        else:
            if retval is None:
                return
            rt = self.canon_toks(retval)
            if not all(t["id"] in rt for t in new):
                return
            if retval.lanes:
                shifts = [retval.lanes.get(t["id"]) for t in new]
        deps = frozenset().union(*[t["deps"] for t in new])
        directs = {t["direct"] for t in new}
        tok = {"id": self.new_id(), "cls": "F", "op": None, "star": None, "deps": deps,
               "direct": directs.pop() if len(directs) == 1 else None, "shr": None, "fn": path, "shifts": shifts}
        self._replace(start, tok)
        self.fprims[path] = shifts

    def star_exec(self, key, fn):
        start = len(self.st.toks)
        self.st.star.append(key)
        try:
            try:
                fn()
            except (_Break, _Continue):
                pass
        finally:
            self.st.star.pop()
        new = self.st.toks[start:]
        if not new:
            return
        if key is None:
            raise Unsupported("loop over a collection of unknown length emits %s" % "".join(t["cls"] for t in new))
        if len(new) > 1:
            raise Unsupported("counted loop body emits %d tokens" % len(new))
        if new[0]["star"] is not None or new[0]["op"] is not None:
            raise Unsupported("nested repetition")
        new[0]["star"] = key

    # ------------------------------------------------------------------ scopes
    def lookup(self, name):
        for s in reversed(self.st.scopes):
            if name in s:
                return s[name]
        return unk()

    def set_local(self, name, v, declare=False):
        if not declare:
            for s in reversed(self.st.scopes):
                if name in s:
                    s[name] = v
                    return
        self.st.scopes[-1][name] = v

    def bind(self, pat, v):
        pat = hirq.unmacro(pat)
        if not is_node(pat):
            return
        k = pat[0]
        if k == "pbind":
            self.set_local(pat[1], v, declare=True)
            if pat[2] is not None:
                self.bind(pat[2], v)
        elif k == "pref":
            self.bind(pat[1], v)
        elif k == "ptuple":
            for i, p in enumerate(pat[1]):
                if v.k == "tuple" and i < len(v.a):
                    self.bind(p, v.a[i])
                else:
                    sfs = tuple(sorted(d[1] for d in v.deps if d[0] == "sfield"))
                    self.bind(p, unk(v).with_(deps=v.deps | {("comp", sfs, i)}))
        elif k == "pts":
            subs = pat[2]
            for i, p in enumerate(subs):
                if v.k == "some" and i == 0:
                    self.bind(p, v.a)
                elif v.k == "struct" and i < len(v.a[1]):
                    self.bind(p, v.a[1][i][1])
                else:
                    self.bind(p, unk(v))
        elif k == "pstruct":
            for (fname, p) in pat[2]:
                if v.k == "some" and fname == "0":
                    self.bind(p, v.a)
                elif v.k == "struct" and fname in dict(v.a[1]):
                    self.bind(p, dict(v.a[1])[fname])
                else:
                    self.bind(p, unk(v))
        elif k == "por":
            if pat[1]:
                self.bind(pat[1][0], v)

    def match_pat(self, pat, v):
        """True / False / None (cannot tell)"""
        pat = hirq.unmacro(pat)
        if not is_node(pat):
            return None
        k = pat[0]
        if k == "pwild":
            return True
        if k == "pbind":
            return True if pat[2] is None else self.match_pat(pat[2], v)
        if k == "pref":
            return self.match_pat(pat[1], v)
        if k == "por":
            rs = [self.match_pat(p, v) for p in pat[1]]
            if any(r is True for r in rs):
                return True
            if all(r is False for r in rs):
                return False
            return None
        if k == "lit":
            if v.k in ("int", "bool") and pat[1] in ("int", "bool"):
                return v.a == pat[2]
            return None
        if k in ("ppath", "pts", "pstruct"):
            d = def_path(pat[1])
            if d is None:
                return None
            if v.k == "opc" and d.startswith(self.opc_enum + "::"):
                return last(d) == v.a
            if v.k in ("none", "some"):
                if d.endswith("Option::None"):
                    return v.k == "none"
                if d.endswith("Option::Some"):
                    return v.k == "some"
            if v.k == "struct" and v.a[0] and "::" in v.a[0]:
                if d == v.a[0]:
                    return True
                if d.rsplit("::", 1)[0] == v.a[0].rsplit("::", 1)[0]:
                    return False
            return None
        return None

    # ------------------------------------------------------------------ calls
    def call_method(self, path, args):
        b = self.methods[path]
        if len(self.stack) > 30:
            raise Unsupported("call depth")
        callid = self.new_id()
        scope = {}
        saved = self.st.scopes
        self.st.scopes = [scope]
        self.stack.append(path)
        start = len(self.st.toks)
        v = UNIT
        try:
            for i, (pat, _ty) in enumerate(b["params"]):
                a = args[i] if i < len(args) else unk()
                nm = pat[1] if is_node(pat) and pat[0] == "pbind" else None
                if nm is not None and a.k != "self":
                    # an argument that is not a pure shift of something is a fresh scalar for the callee
                    a = a.with_(deps=a.deps | {("p", callid, nm)}, shr=a.shr if a.shr is not None else 0)
                    if a.bits is None and a.k == "unk" and _ty in INT_WIDTH and _ty[0] == "u":
                        a.bits = INT_WIDTH[_ty]
                self.bind(pat, a)
            try:
                v = self.ev(b["body"])
            except _Return as r:
                v = r.v
        finally:
            self.st.scopes = saved
            self.stack.pop()
        self.collapse_fixed(start, v, callid, path)
        return v

    def _touches_writer(self, e):
        for n in hirq.walk(e):
            if n[0] == "field" and hirq.local_name(n[1]) == "self" and n[2] in (self.stream, self.cursor):
                return True
            if n[0] == "mcall" and n[2] in self.may_touch:
                return True
            if n[0] == "call" and def_path(n[2]) in self.may_touch:
                return True
        return False

    def ev_call(self, e):
        callee, args = e[2], e[3]
        d = def_path(callee) if is_node(callee) and hirq.strip(callee)[0] == "def" else None
        if d is None:
            vs = [self.ev(callee)] + [self.ev(a) for a in args]
            return unk(*vs)
        kind = hirq.strip(callee)[1]
        if any(d.startswith(p) for p in PANICS):
            for a in args:
                self.ev(a)
            raise _Diverge()
        if d in self.methods:
            return self.call_method(d, [self.ev(a) for a in args])
        if d in VEC_NEW:
            for a in args:
                self.ev(a)
            return Val("list", ())
        vs = [self.ev(a) for a in args]
        if kind in ("ctor", "variant", "struct"):
            if d.endswith("Option::Some") and len(vs) == 1:
                return Val("some", vs[0], vs[0].toks, vs[0].deps)
            u = unk(*vs)
            return Val("struct", (d, tuple((str(i), v) for i, v in enumerate(vs))), u.toks, u.deps,
                       direct=vs[0].direct if len(vs) == 1 else None)
        for a, v in zip(args, vs):
            if v.k == "self" or (v.k == "sfield" and v.a == self.stream and is_node(a) and a[0] == "addr" and a[1]):
                raise Unsupported("opaque function %s receives the stream" % d)
        if len(vs) == 1 and vs[0].k in ("list", "slice") and last(d) in PASS_THROUGH:
            return vs[0]
        if len(vs) == 1 and vs[0].k == "opc" and last(d) in ("from", "into"):
            return Val("opcbyte", vs[0].a, deps=vs[0].deps)
        return unk(*vs)

    def ev_mcall(self, e):
        path, name, recv, args = e[2], e[3], e[4], e[5]
        recv_ty = e[6] if len(e) > 6 else ""
        r0 = hirq.strip(recv)
        if name == "push" and path == VEC_PUSH and len(args) == 1:
            if is_node(r0) and r0[0] == "field" and hirq.local_name(r0[1]) == "self":
                v = self.ev(args[0])
                if r0[2] == self.stream:
                    if self.mode != "w":
                        raise Unsupported("push on the reader's stream")
                    self.emit("B", op=v.a if v.k == "opcbyte" else None, deps=v.deps, direct=v.direct, shr=v.shr)
                else:
                    self.st.events.append(("sfpush", r0[2], v))
                return UNIT
            ln = hirq.local_name(r0)
            if ln is not None:
                lv = self.lookup(ln)
                v = self.ev(args[0])
                if lv.k == "list":
                    key = self.st.star[-1] if self.st.star else None
                    if self.st.star and key is None:
                        raise Unsupported("list built inside a loop of unknown length")
                    nl = Val("list", lv.a + ((v, key),), unk(lv, v).toks, lv.deps | v.deps)
                    self.set_local(ln, nl)
                else:
                    self.set_local(ln, unk(lv, v))
                return UNIT
        if path in self.methods:
            return self.call_method(path, [self.ev(recv)] + [self.ev(a) for a in args])
        rv = self.ev(recv)
        vs = [self.ev(a) for a in args]
        if rv.k == "self" and recv_ty.startswith("&mut"):
            raise Unsupported("opaque &mut self call %s" % (path or name))
        if rv.k == "sfield" and rv.a == self.stream:
            if name == "len" and not recv_ty.startswith("&mut"):
                lastid = self.st.toks[-1]["id"] if self.st.toks else 0
                return Val("unk", deps=frozenset({("pos", lastid)}))
            if recv_ty.startswith("&mut") or self.mode == "r":
                raise Unsupported("stream used through %s" % (path or name))
        if rv.k == "opc" and name in ("into", "from") and not vs:
            # Into<u8>/From for the opcode enum is the table checked by C18.R2
            return Val("opcbyte", rv.a, deps=rv.deps)
        if name == "len" and not vs:
            if rv.k == "slice":
                return Val("len", rv.a, deps=rv.deps | {("len", rv.a)})
            if rv.k == "list" and all(k is None for (_v, k) in rv.a):
                return Val("int", len(rv.a))
        if name in ("expect", "unwrap") and rv.k == "some":
            return rv.a
        if name in PASS_THROUGH and not vs and rv.k in ("list", "slice"):
            return rv
        if not vs:
            return unk(rv, direct=rv.direct)
        return unk(rv, *vs)

    # ------------------------------------------------------------------ loops
    def ev_for(self, e):
        m = hirq.unmacro(e)
        try:
            x = m[1][3][0]
            loop = m[2][0][2]
            assert loop[0] == "loop"
            blk = loop[2]
            inner = None
            for s in list(blk[1]) + ([blk[2]] if blk[2] is not None else []):
                if is_node(s) and s[0] == "match":
                    inner = s
            some = None
            for arm in inner[2]:
                ps = hirq.pat_paths(arm[0])
                if ps and ps[0].endswith("Option::Some"):
                    some = arm
            pat0 = some[0]
            if pat0[0] == "pstruct":
                ipat = pat0[2][0][1]
            else:
                ipat = pat0[2][0]
            body = some[2]
        except (IndexError, TypeError, AssertionError):
            raise Unsupported("for-loop desugaring not recognised")
        xv = self.ev(x)

        def once(elem):
            def f():
                self.st.scopes.append({})
                try:
                    self.bind(ipat, elem)
                    self.ev(body)
                finally:
                    self.st.scopes.pop()
            return f

        if xv.k == "list":
            for (elem, skey) in xv.a:
                if skey is None:
                    try:
                        once(elem)()
                    except _Continue:
                        continue
                    except _Break:
                        break
                else:
                    self.star_exec(skey, once(elem))
            return UNIT
        if xv.k == "slice":
            self.star_exec(("slice", xv.a), once(Val("unk", deps=xv.deps, direct=xv.direct)))
            return UNIT
        if xv.k == "range" and xv.a[0].k == "int" and xv.a[1].k == "int":
            lo, hi = xv.a
            n = max(0, hi.a - lo.a)
            if self._has_break(body):
                # `for _ in 0..N { ..; if <data> { break } }`: a variable-length read bounded by N
                it = iter(range(lo.a, hi.a))
                if n > 0:
                    self.run_loop(lambda: once(Val("int", next(it, hi.a)))(), count=n)
                return UNIT
            if n > LOOP_CAP:
                raise Unsupported("for over a constant range of %d" % n)
            for i in range(lo.a, hi.a):
                try:
                    once(Val("int", i))()
                except _Continue:
                    continue
            return UNIT
        if xv.k == "range":
            lo, hi = xv.a
            if lo.k == "int" and lo.a == 0:
                ht = self.canon_toks(hi)
                if hi.k == "len":
                    self.star_exec(("slice", hi.a), once(unk()))
                    return UNIT
                if len(ht) == 1:
                    self.star_exec(("tok", ht[0]), once(unk()))
                    return UNIT
        self.star_exec(None, once(unk(xv)))
        return UNIT

    def ev_loop(self, e):
        return self.run_loop(lambda: self.ev(e[2]))

    def run_loop(self, body, count=None):
        """normal mode: one abstract iteration, byte tokens of the body collapse into one V.
        max mode (see max_bytes): iterate with the concrete part of the state until a condition that is *known*
        leaves the loop; data-dependent exits are not taken, so the bytes counted are the worst case."""
        start = len(self.st.toks)
        self.loop_depth += 1
        try:
            if not self.maxmode:
                try:
                    body()
                except (_Break, _Continue):
                    pass
            else:
                n = 0
                while count is None or n < count:
                    if n >= LOOP_CAP:
                        if len(self.st.toks) != start:
                            self.max_inf = True
                        break
                    try:
                        body()
                    except _Break:
                        break
                    except _Continue:
                        pass
                    n += 1
        finally:
            self.loop_depth -= 1
        self.collapse_loop(start)
        return UNIT

    @staticmethod
    def _has_break(body):
        """a `break` that belongs to this loop body (not to a nested loop)"""
        st = [body]
        while st:
            x = st.pop()
            if isinstance(x, list):
                if is_node(x):
                    if x[0] == "break":
                        return True
                    if x[0] in ("loop", "closure"):
                        continue
                st.extend(c for c in x if isinstance(c, list))
        return False

    def max_bytes(self, path, args):
        """worst-case number of stream bytes one call of `path` produces/consumes: int, None = unbounded,
        or a string when the function cannot be analysed"""
        self.maxmode, self.max_inf = True, False
        try:
            res = self.run(path, args, [])
        finally:
            self.maxmode = False
        if res["outcome"] != "ok":
            return "not analysable (%s)" % res.get("why", res["outcome"])
        if self.max_inf:
            return None
        return sum(1 for t in res["toks"] if t["cls"] == "B")

    # ------------------------------------------------------------------ branching
    def _trial(self, thunk):
        """run thunk on the current state; -> (signal, value, emitted?)"""
        start = len(self.st.toks)
        nev = len(self.st.events)
        self.trial += 1
        try:
            try:
                v = thunk()
                sig = "normal"
            except _Return:
                sig, v = "return", None
            except _Break:
                sig, v = "break", None
            except _Continue:
                sig, v = "continue", None
            except _Diverge:
                sig, v = "diverge", None
            except _TrialAbort:
                sig, v = "abort", None
        finally:
            self.trial -= 1
        return sig, v, (len(self.st.toks) != start or len(self.st.events) != nev)

    def branch(self, thunks, kind="if", infos=None):
        """undecidable n-way choice.  Branches without stream effect and equal control flow are merged locally;
        diverging branches are dropped; anything else becomes a decision point explored by the oracle."""
        if kind == "dispatch":
            ch = self.decide(len(thunks), kind, infos)
            return thunks[ch]()
        snap = self.st.snapshot()
        outs = []
        for th in thunks:
            sig, v, emitted = self._trial(th)
            outs.append((sig, v, emitted, self.st.snapshot()))
            self.st.restore(snap)
        if self.maxmode and self.loop_depth > 0:
            stay = [i for i, o in enumerate(outs) if o[0] in ("normal", "abort", "continue")]
            if stay and len(stay) < len(outs):
                return thunks[stay[0]]()        # worst case: a data-dependent exit is not taken
        if True:
            live = [o for o in outs if o[0] != "diverge"]
            if not live:
                raise _Diverge()
            if all(o[0] == "normal" and not o[2] for o in live):
                # merge: keep the first live branch's state, blur locals that differ
                self.st.restore(live[0][3])
                for o in live[1:]:
                    for si, sc in enumerate(self.st.scopes):
                        other = o[3][0][si] if si < len(o[3][0]) else {}
                        for nm in list(sc):
                            if nm in other and other[nm] is not sc[nm]:
                                a, b2 = sc[nm], other[nm]
                                if a.k == b2.k and a.a == b2.a and a.toks == b2.toks:
                                    continue
                                sc[nm] = unk(a, b2)
                vals = [o[1] for o in live if o[1] is not None]
                return unk(*vals) if len(vals) != 1 else vals[0]
            idx = [i for i, o in enumerate(outs) if o[0] != "diverge"]
            if len(idx) == 1:
                return thunks[idx[0]]()
        ch = self.decide(len(idx), kind, [infos[i] for i in idx] if infos else None)
        return thunks[idx[ch]]()

    def ev_if(self, e):
        cond, then, els = e[1], e[2], e[3]
        c0 = hirq.unmacro(cond)
        if is_node(c0) and c0[0] == "letx":
            v = self.ev(c0[2])
            r = self.match_pat(c0[1], v)

            def t_then():
                self.st.scopes.append({})
                try:
                    self.bind(c0[1], v if r is True else (v if v.k in ("some", "struct", "tuple") else unk(v)))
                    return self.ev(then)
                finally:
                    self.st.scopes.pop()
        else:
            v = self.ev(cond)
            r = v.a if v.k == "bool" else None

            def t_then():
                return self.ev(then)

        def t_else():
            return self.ev(els) if els is not None else UNIT
        if r is True:
            return t_then()
        if r is False:
            return t_else()
        return self.branch([t_then, t_else])

    def ev_match(self, e):
        src = e[3] if len(e) > 3 else None
        v = self.ev(e[1])
        cands = []
        for arm in e[2]:
            pat, guard, body = arm[0], arm[1], arm[2]
            r = self.match_pat(pat, v)
            if r is False:
                continue
            if r is True and guard is None:
                if not cands:
                    return self._arm(pat, v, body)
                cands.append(arm)
                break
            cands.append(arm)
        if not cands:
            raise _Diverge()
        paths = [hirq.pat_paths(a[0]) for a in cands]
        parents = {p.rsplit("::", 1)[0] for ps in paths for p in ps}
        dispatch = (len(parents) == 1 and self.opc_enum in parents and all(a[1] is None for a in cands))
        thunks = [(lambda a=a: self._arm(a[0], unk(v) if v.k not in ("struct", "tuple", "some") else v, a[2], a[1]))
                  for a in cands]
        infos = [tuple(last(p) for p in ps) if ps else ("_",) for ps in paths]
        return self.branch(thunks, "dispatch" if dispatch else "match", infos)

    def _arm(self, pat, v, body, guard=None):
        self.st.scopes.append({})
        try:
            self.bind(pat, v)
            if guard is not None:
                self.ev(guard)
            return self.ev(body)
        finally:
            self.st.scopes.pop()

    # ------------------------------------------------------------------ expressions
    def ev(self, e):
        if not is_node(e):
            return unk()
        k = e[0]
        f = getattr(self, "_ev_" + k, None)
        if f is None:
            raise Unsupported("HIR node %s" % k)
        return f(e)

    def _ev_lit(self, e):
        if e[1] == "int" and isinstance(e[2], int):
            return Val("int", e[2])
        if e[1] == "bool":
            return Val("bool", bool(e[2]))
        return unk()

    def _ev_local(self, e):
        if e[1] == "self":
            v = self.lookup("self")
            return v if v.k == "self" else Val("self")
        return self.lookup(e[1])

    def _ev_def(self, e):
        kind, path = e[1], e[2]
        if kind in ("ctor", "variant") and path.startswith(self.opc_enum + "::"):
            return Val("opc", last(path))
        if path.endswith("Option::None"):
            return Val("none")
        if kind in ("ctor", "variant", "struct"):
            return Val("struct", (path, ()))
        if kind == "const":
            info = self.consts.get(path)
            if info and isinstance(info.get("value"), int) and not isinstance(info.get("value"), bool):
                return Val("int", info["value"])
            cv = core_num_const(path)
            if cv is not None:
                return Val("int", cv)
        return unk()

    def _ev_call(self, e):
        return self.ev_call(e)

    def _ev_mcall(self, e):
        return self.ev_mcall(e)

    def _ev_bin(self, e):
        op, l, r = e[1], self.ev(e[2]), self.ev(e[3])
        v = unk(l, r)
        if op == "Shr" and r.k == "int":
            v.shr = (l.shr or 0) + r.a if l.shr is not None else None
            v.lanes = None
            v.direct = l.direct
            if l.bits is not None:
                v.bits = max(0, l.bits - r.a)
        elif op == "BitAnd" and (r.k == "int" or l.k == "int"):
            src = l if r.k == "int" else r
            v.shr = src.shr
            v.lanes = src.lanes
            v.direct = src.direct
            mask = r.a if r.k == "int" else l.a
            if isinstance(mask, int) and mask >= 0:
                v.bits = min(mask.bit_length(), src.bits) if src.bits is not None else mask.bit_length()
        elif op == "Shl" and r.k == "int" and l.lanes is not None:
            v.lanes = {t: s + r.a for t, s in l.lanes.items()}
            v.shr = None
        elif op in ("BitOr", "Add", "BitXor") and l.lanes is not None and r.lanes is not None:
            v.lanes = dict(l.lanes)
            v.lanes.update(r.lanes)
            v.shr = None
        else:
            v.shr = None
        if op in ("Ne", "Eq", "Gt") and ((l.bits == 0 and r.k == "int" and r.a == 0) or
                                         (r.bits == 0 and l.k == "int" and l.a == 0 and op != "Gt")):
            return Val("bool", op == "Eq")      # a scalar with no significant bits left is 0
        if l.k == "int" and r.k == "int":
            try:
                res = {"Add": l.a + r.a, "Sub": l.a - r.a, "Mul": l.a * r.a, "Eq": l.a == r.a, "Ne": l.a != r.a,
                       "Lt": l.a < r.a, "Le": l.a <= r.a, "Gt": l.a > r.a, "Ge": l.a >= r.a}.get(op)
            except Exception:
                res = None
            if isinstance(res, bool):
                return Val("bool", res)
            if isinstance(res, int):
                return Val("int", res)
        if l.k == "bool" and r.k == "bool" and op in ("And", "Or"):
            return Val("bool", (l.a and r.a) if op == "And" else (l.a or r.a))
        return v

    def _ev_un(self, e):
        v = self.ev(e[2])
        if e[1] == "Deref":
            return v
        if e[1] == "Not" and v.k == "bool":
            return Val("bool", not v.a)
        return unk(v)

    def _ev_cast(self, e):
        v = self.ev(e[1])
        if v.k in ("int", "len", "opcbyte"):
            return v
        w = INT_WIDTH.get(e[2]) if isinstance(e[2], str) else None
        if v.k == "unk":
            if w is not None and v.bits is not None and v.bits > w:
                return v.with_(bits=w)
            return v
        return unk(v, direct=v.direct).with_(lanes=v.lanes, shr=v.shr, bits=v.bits)

    def _ev_field(self, e):
        base = self.ev(e[1])
        name = e[2]
        if base.k == "self":
            return Val("sfield", name, deps=frozenset({("sfield", name)}))
        if base.k == "struct":
            d = dict(base.a[1])
            if name in d:
                return d[name]
        if base.k == "tuple" and name.isdigit() and int(name) < len(base.a):
            return base.a[int(name)]
        return unk(base, direct=base.direct)

    def _ev_index(self, e):
        a, i = self.ev(e[1]), self.ev(e[2])
        if a.k == "sfield" and a.a == self.stream and self.mode == "r":
            if not (i.k == "sfield" and i.a == self.cursor):
                raise Unsupported("stream indexed by something other than the cursor field")
            t = self.emit("B", peek=True)
            return Val("unk", None, (t["id"],), lanes={t["id"]: 0})
        return unk(a, i)

    def _ev_addr(self, e):
        return self.ev(e[2])

    def _ev_tup(self, e):
        vs = [self.ev(x) for x in e[1]]
        u = unk(*vs)
        return Val("tuple", tuple(vs), u.toks, u.deps) if vs else UNIT

    def _ev_array(self, e):
        vs = [self.ev(x) for x in e[1]]
        u = unk(*vs)
        return Val("list", tuple((v, None) for v in vs), u.toks, u.deps)

    def _ev_if(self, e):
        return self.ev_if(e)

    def _ev_match(self, e):
        return self.ev_match(e)

    def _ev_block(self, e):
        self.st.scopes.append({})
        try:
            for s in e[1]:
                self.ev(s)
            return self.ev(e[2]) if e[2] is not None else UNIT
        finally:
            self.st.scopes.pop()

    def _ev_let(self, e):
        pat, init, els = e[1], e[2], e[3]
        if els is not None:
            raise Unsupported("let-else")
        v = self.ev(init) if init is not None else unk()
        self.bind(pat, v)
        return UNIT

    def _ev_letx(self, e):
        v = self.ev(e[2])
        r = self.match_pat(e[1], v)
        self.bind(e[1], v)
        return Val("bool", r) if r is not None else unk(v)

    def _stream_index(self, l):
        l0 = hirq.strip(l)
        if is_node(l0) and l0[0] == "index":
            b = hirq.strip(l0[1])
            if is_node(b) and b[0] == "field" and hirq.local_name(b[1]) == "self" and b[2] == self.stream:
                return l0
        return None

    def _patch(self, l0, rv, rhs):
        idx = hirq.strip(l0[2])
        k = 0
        base = idx
        if is_node(idx) and idx[0] == "bin" and idx[1] == "Add" and hirq.lit_int(idx[3]) is not None:
            k, base = hirq.lit_int(idx[3]), idx[2]
        bv = self.ev(base)
        self.st.events.append(("patch", hirq.render(base), k, bv.deps, rv.shr, rv.deps))

    def _ev_assign(self, e):
        l, r = e[1], e[2]
        rv = self.ev(r)
        si = self._stream_index(l)
        if si is not None:
            if self.mode != "w":
                raise Unsupported("write into the reader's stream")
            self._patch(si, rv, r)
            return UNIT
        l0 = hirq.strip(l)
        if is_node(l0) and l0[0] == "local":
            self.set_local(l0[1], rv)
        elif is_node(l0) and l0[0] == "field" and hirq.local_name(l0[1]) == "self":
            if l0[2] in (self.stream, self.cursor):
                raise Unsupported("assignment to self.%s" % l0[2])
        elif is_node(l0) and l0[0] in ("index", "field"):
            root = l0
            while is_node(root) and root[0] in ("index", "field"):
                root = hirq.strip(root[1])
            ln = hirq.local_name(root)
            if ln is not None and ln != "self":
                self.set_local(ln, unk(self.lookup(ln), rv))
            if is_node(l0) and l0[0] == "index":
                self.ev(l0[2])
        return UNIT

    def _ev_assignop(self, e):
        op, l, r = e[1], e[2], e[3]
        rv = self.ev(r)
        if self._stream_index(l) is not None:
            raise Unsupported("compound assignment into the stream")
        l0 = hirq.strip(l)
        if is_node(l0) and l0[0] == "field" and hirq.local_name(l0[1]) == "self":
            if l0[2] == self.cursor:
                if not (op == "AddAssign" and rv.k == "int" and rv.a == 1):
                    raise Unsupported("cursor changed by something other than += 1")
                pend = [t for t in self.st.toks if t.get("peek")]
                if pend:
                    pend[-1].pop("peek")
                else:
                    self.emit("B")
            elif l0[2] == self.stream:
                raise Unsupported("compound assignment to the stream field")
            return UNIT
        if is_node(l0) and l0[0] == "local":
            old = self.lookup(l0[1])
            if old.k == "int" and rv.k == "int" and op in ("AddAssign", "SubAssign", "MulAssign"):
                self.set_local(l0[1], Val("int", {"AddAssign": old.a + rv.a, "SubAssign": old.a - rv.a,
                                                  "MulAssign": old.a * rv.a}[op]))
                return UNIT
            nv = unk(old, rv)
            if op == "ShrAssign" and rv.k == "int" and old.bits is not None:
                nv.bits = max(0, old.bits - rv.a)
            elif op == "BitAndAssign" and rv.k == "int" and rv.a >= 0:
                nv.bits = min(rv.a.bit_length(), old.bits) if old.bits is not None else rv.a.bit_length()
            if op in ("ShrAssign", "BitOrAssign", "BitAndAssign") and rv.k == "int":
                nv.direct = old.direct      # encoding arithmetic with a literal keeps the operand's identity
            if op == "ShrAssign" and rv.k == "int" and old.shr is not None:
                nv.shr = old.shr + rv.a
            elif op in ("BitOrAssign", "AddAssign") and old.k == "int" and old.a == 0 and rv.lanes is not None:
                nv.lanes = dict(rv.lanes)
            elif op in ("BitOrAssign", "AddAssign") and old.lanes is not None and rv.lanes is not None:
                nv.lanes = dict(old.lanes)
                nv.lanes.update(rv.lanes)
            else:
                nv.shr = None
            self.set_local(l0[1], nv)
        return UNIT

    def _ev_loop(self, e):
        return self.ev_loop(e)

    def _ev_break(self, e):
        if e[1] is not None:
            self.ev(e[1])
        raise _Break()

    def _ev_continue(self, e):
        raise _Continue()

    def _ev_ret(self, e):
        raise _Return(self.ev(e[1]) if e[1] is not None else UNIT)

    def _ev_closure(self, e):
        if self._touches_writer(e[3]):
            raise Unsupported("closure touches the stream")
        return Val("closure")

    def _ev_struct(self, e):
        path = def_path(e[1]) or "?"
        fs = [(f, self.ev(x)) for (f, x) in e[2]]
        base = self.ev(e[3]) if len(e) > 3 and e[3] is not None else None
        if path.endswith("ops::range::Range"):
            d = dict(fs)
            if "start" in d and "end" in d:
                u = unk(d["start"], d["end"])
                return Val("range", (d["start"], d["end"]), u.toks, u.deps)
        u = unk(*([v for _f, v in fs] + ([base] if base else [])))
        return Val("struct", (path, tuple(fs)), u.toks, u.deps)

    def _ev_macro(self, e):
        name = e[1]
        if name.startswith("desugar:ForLoop"):
            return self.ev_for(e)
        if name.rstrip("!").split("::")[-1] == "vec":
            for n in hirq.walk(e[2]):
                if n[0] == "array":
                    return self._ev_array(n)
            raise Unsupported("vec! form")
        return self.ev(e[2])


# ---------------------------------------------------------------------------------------------- signatures

def signature(toks):
    """token list -> list of strings; a count and its repetition are linked by an index: N#0 .. V*#0; a repetition
    whose count was never written/read before it prints as V*?"""
    keys = []
    for t in toks:
        if t["star"] is not None and t["star"] not in keys:
            keys.append(t["star"])
    count_of = {}
    for t in toks:
        if t["star"] is not None or t["cls"] != "V":
            continue
        for k in keys:
            if k[0] == "tok" and k[1] == t["id"]:
                count_of[t["id"]] = k
            elif k[0] == "slice" and ("len", k[1]) in t["deps"]:
                count_of[t["id"]] = k
    out = []
    seen = set()
    for t in toks:
        if t["op"] is not None:
            out.append("OP")
        elif t["id"] in count_of:
            out.append("N#%d" % keys.index(count_of[t["id"]]))
            seen.add(count_of[t["id"]])
        elif t["star"] is not None:
            out.append("%s*%s" % (t["cls"], ("#%d" % keys.index(t["star"])) if t["star"] in seen else "?"))
        else:
            out.append(t["cls"])
    return out

"""C06.R4 — cursor typestate of the recursive-descent parser (abstract interpretation over HIR).

The parser has one cursor (`Parser::token_idx`) over the token array.  Every Parser method reachable from
`parse_file` is interpreted over the s-expressions of its body with the abstract state

    S      set of TokenKinds the current token can have            (bitset over TokenKind discriminants)
    N      the same for the next non-trivia token (refined only by `is_next`)
    flags  "a token was consumed since reference point i"  (function entry, each active loop iteration,
           each `let p = self.token_idx` snapshot)
    env    the locals that carry cursor-relevant values (kind constants, `self.current()` snapshots,
           TokenSets, booleans, closures, Option Some/None)

Only five primitives are modelled by hand (their shapes are belief-checked, who-may-write `token_idx` is checked
first): `nth` (the single read of tokens[token_idx+i]), `raw_advance`/`skip_trivia`/`advance` (the only code that
moves the cursor; `advance` is a no-op at EOF) and `is_next`.  Everything else — `is`, `is_set`, `is_eof`, `is2`,
`eat`, `assert`, `assert_value`, `expect`, `expect_name`, `parse_comma_list{,_items}` … — is *interpreted from its
own body*, per calling context (fn, S, N, abstract arguments), memoised, recursion solved by iterating the
summaries to a fixpoint.

Obligations (each one is a run-time panic or a hang on some malformed input when violated):
  (i)   no panic whose guard is decided by the cursor is reachable: `assert!(self.eat(K))` inside `assert`,
        the `panic!` of `assert_value`, `.expect()/.unwrap()` on the `None` of `expect_name`, `assert!`s on
        `is`/`is_set`, `unreachable!()` arms of a `match self.current()`.  Panics inside helpers that are
        parametric in a TokenKind/TokenSet/closure are attributed to the call site in the nearest
        non-parametric caller (`self.assert(AT)` in parse_modifier, `parse_comma_list(L_BRACE, ..)` in parse_use_group).
        Panics whose innermost guard does not depend on the cursor (token_name(kind), self.tokens[idx] …) are
        value-dependent and tallied, not decided.
  (ii)  every while/loop that (transitively) reads or moves the cursor cannot reach its back edge without
        consuming a token and then pass its condition again.
  (iii) every comma-list callback returns true only after consuming a token: this is the literal
        `assert!(self.token_idx > pos_before_element)` of parse_comma_list_items, discharged through the flags.
  (iv)  a calling context that re-enters itself (recursion) has consumed a token on the way (else the descent never
        ends: stack overflow).

Not modelled (documented limits): labelled `break 'outer` (the facts carry no labels; parser.rs has none), integer
arithmetic (only literal comparisons such as `l_bp < min_bp`), the contents of `self.tokens` before the cursor.
A site that cannot be proved because of the interpreter's own imprecision goes into UNPROVED (observation +
count), never silently away; the table is empty on the pinned tree.
"""
import re
import sys
import threading

import hirq
from hirq import is_node, last

MOD = "dora_parser::parser::"
PARSER = MOD + "Parser::"
TOKENKIND = "dora_parser::token::TokenKind"
TK = TOKENKIND + "::"
TOKENSET = "dora_parser::token::TokenSet"

# the hand-modelled primitives (trusted base of the rule; shapes are belief-checked in _check_primitives)
P_NTH = PARSER + "nth"
P_RAW = PARSER + "raw_advance"
P_SKIP = PARSER + "skip_trivia"
P_ADV = PARSER + "advance"
P_ISNEXT = PARSER + "is_next"
P_CONTAINS = TOKENSET + "::contains"
BUILTINS = {P_NTH, P_RAW, P_SKIP, P_ADV, P_ISNEXT, P_CONTAINS}

ENTRY = PARSER + "parse_file"

CUR = ("cur",)
PARSERV = ("parser",)
SOME = ("some",)
NONE = ("none",)
POSNOW = ("posnow",)

PRIMS = {"bool", "u8", "u16", "u32", "u64", "u128", "usize", "i8", "i16", "i32", "i64", "i128", "isize", "char",
         "str", "&str", "f32", "f64", "()"}


# Sites the interpreter cannot prove because of its own imprecision (NOT because they are violable): reported as
# observations "unproved: …" and counted, for the coordinator to decide.  key -> one-line reason.  Empty today.
UNPROVED = {}


class Refuse(Exception):
    """the analysis cannot vouch for anything (soundness precondition broken)"""


# --------------------------------------------------------------------------- token kinds / token sets
class Domain:
    def __init__(self, c):
        adt = c.adt("token::TokenKind")
        self.ok = bool(adt) and adt["kind"] == "enum"
        self.bit = {}
        self.names = {}
        if not self.ok:
            return
        for v in adt["variants"]:
            self.bit[TK + v["name"]] = 1 << v["discr"]
            self.names[v["discr"]] = v["name"]
        self.eof = self.bit.get(TK + "EOF", 0)
        eofd = self.eof.bit_length() - 1
        self.tokens = 0  # all kinds the lexer can hand out: discriminant <= EOF (TokenSet::new asserts the same bound)
        for d in self.names:
            if d <= eofd:
                self.tokens |= 1 << d
        self.trivia = 0
        tr = c.hir.get(TK + "is_trivia")
        if tr:
            for n in hirq.walk(tr["body"]):
                if n[0] == "match":
                    for (pat, guard, arm) in hirq.match_arms(n):
                        a = hirq.strip(arm)
                        if guard is None and is_node(a) and a[0] == "lit" and a[2] is True:
                            for d in hirq.pat_paths(pat):
                                self.trivia |= self.bit.get(d, 0)
        self.nontrivia = self.tokens & ~self.trivia

    def show(self, bits, limit=12):
        ns = [self.names[i] for i in range(bits.bit_length()) if bits >> i & 1]
        if len(ns) > limit:
            return "{%s, … %d kinds}" % (", ".join(ns[:limit]), len(ns))
        return "{%s}" % ", ".join(ns)


_CONST_RE = re.compile(r"\bconst\s+(\w+)\s*:\s*(?:\w+::)*TokenSet\s*=\s*(.*?);", re.S)
_TOK_RE = re.compile(r"[A-Za-z_]\w*|::|[\[\]().,&]")


def parse_tokensets(c, dom, read_repo):
    """Evaluate the `const X: TokenSet = TokenSet::new(&[..]) / Y / a.union(b)` table (const initialisers are not in
    the HIR facts; this is a declarative table, read with a small tolerant parser; unevaluable ⇒ absent ⇒ the
    interpreter refuses when it needs the set)."""
    exprs = {}
    for k in c.items["consts"]:
        if not k["ty"].endswith("TokenSet"):
            continue
        try:
            src = read_repo(k["file"])
        except OSError:
            continue
        src = re.sub(r"//[^\n]*", "", src)
        for m in _CONST_RE.finditer(src):
            if m.group(1) == last(k["path"]):
                exprs[k["path"]] = (_TOK_RE.findall(m.group(2)), k["path"].rsplit("::", 1)[0])
    vals = {}

    def resolve(name, modp, depth):
        for p in exprs:
            if last(p) == name and (p.rsplit("::", 1)[0] == modp or True):
                return value(p, depth + 1)
        return None

    def value(path, depth=0):
        if path in vals:
            return vals[path]
        if depth > 20 or path not in exprs:
            return None
        toks, modp = exprs[path]
        pos = [0]

        def peek():
            return toks[pos[0]] if pos[0] < len(toks) else None

        def take(t=None):
            x = peek()
            if x is None or (t is not None and x != t):
                raise ValueError("expected %s got %s" % (t, x))
            pos[0] += 1
            return x

        def path_ident():
            segs = [take()]
            while peek() == "::":
                take()
                segs.append(take())
            return segs

        def primary():
            segs = path_ident()
            if segs[-2:] == ["TokenSet", "new"]:
                take("(")
                take("&")
                take("[")
                bits = 0
                while peek() != "]":
                    ks = path_ident()
                    b = dom.bit.get(TK + ks[-1])
                    if b is None or not (b & dom.tokens):
                        raise ValueError("unknown kind " + ks[-1])
                    bits |= b
                    if peek() == ",":
                        take()
                take("]")
                take(")")
                return bits
            v = resolve(segs[-1], modp, depth)
            if v is None:
                raise ValueError("unresolved " + segs[-1])
            return v

        def expr():
            v = primary()
            while peek() == ".":
                take()
                take("union")
                take("(")
                v |= expr()
                take(")")
            return v

        try:
            v = expr()
            if peek() is not None:
                raise ValueError("trailing")
        except (ValueError, IndexError):
            v = None
        vals[path] = v
        return v

    for p in exprs:
        value(p)
    return vals


# --------------------------------------------------------------------------- helpers over HIR
def children(e):
    """sub-nodes of a node, including struct-literal field initialisers"""
    if not is_node(e):
        return
    if e[0] == "struct":
        for f in e[2]:
            yield f[1]
        if len(e) > 3 and e[3] is not None:
            yield e[3]
        return
    for x in e[1:]:
        if isinstance(x, list):
            if is_node(x):
                yield x
            else:
                for y in x:
                    if isinstance(y, list):
                        if is_node(y):
                            yield y
                        else:
                            for z in y:
                                if is_node(z):
                                    yield z


def walk(e, enter_closures=True):
    st = [e]
    while st:
        x = st.pop()
        yield x
        if x[0] == "closure" and not enter_closures and x is not e:
            continue
        st.extend(reversed(list(children(x))))


def callee_of(n):
    if n[0] == "mcall":
        return n[2]
    if n[0] == "call" and is_node(n[2]) and n[2][0] == "def":
        return n[2][2]
    return None


def is_panic_path(p):
    return bool(p) and (p.startswith("core::panicking::") or p.startswith("std::rt::begin_panic")
                        or p.startswith("std::panicking::"))


def pat_names(p, out=None):
    out = [] if out is None else out
    if not is_node(p):
        return out
    if p[0] == "pbind":
        out.append(p[1])
        if p[2] is not None:
            pat_names(p[2], out)
    elif p[0] == "por" or p[0] == "ptuple":
        for q in p[1]:
            pat_names(q, out)
    elif p[0] == "pts":
        for q in p[2]:
            pat_names(q, out)
    elif p[0] == "pstruct":
        for f in p[2]:
            pat_names(f[1], out)
    elif p[0] == "pref":
        pat_names(p[1], out)
    return out


def render_args(args):
    out = []
    for a in args:
        a0 = hirq.strip(a)
        if is_node(a0) and a0[0] == "closure":
            out.append("<closure>")
        else:
            out.append(hirq.render(a))
    return ",".join(out)


# --------------------------------------------------------------------------- summaries and records
class Summary:
    __slots__ = ("outs", "panics", "reached")

    def __init__(self):
        self.outs = set()      # (moved, S, N, value)
        self.panics = set()    # (shell key, decided, S at the panic)
        self.reached = set()   # shell keys evaluated inside (parametric frames only)

    def size(self):
        return (len(self.outs), len(self.panics), len(self.reached))


class Frame:
    __slots__ = ("path", "parametric", "summary", "shell", "key")

    def __init__(self, path, parametric, key=None):
        self.path = path
        self.parametric = parametric
        self.key = key
        self.summary = Summary()
        self.shell = None


class Rec:
    __slots__ = ("reached", "dec", "undec", "wit")

    def __init__(self):
        self.reached = 0
        self.dec = 0
        self.undec = 0
        self.wit = None     # calling context in which the decided failure was first seen


EMPTY = Summary()


# state = (S, N, flags, env, u);  env = tuple of (name, value), innermost last
def st_set(st, S=None, N=None, flags=None, env=None, u=None):
    return (st[0] if S is None else S, st[1] if N is None else N, st[2] if flags is None else flags,
            st[3] if env is None else env, st[4] if u is None else u) + st[5:]   # st[5:] = client extension


def merge(outs):
    """join outcomes that differ only in S"""
    if len(outs) < 2:
        return outs
    d = {}
    for (k, st, v) in outs:
        key = (k, st[1], st[2], st[3], st[4], v, st[5:])
        d[key] = d.get(key, 0) | st[0]
    return [(k[0], (S, k[1], k[2], k[3], k[4]) + k[6], k[5]) for k, S in d.items() if S]


def truth(v):
    """possible (bool, decided) readings of an abstract value used as a condition"""
    if isinstance(v, tuple) and v and v[0] == "b":
        return [(v[1], v[2])]
    return [(True, False), (False, False)]


def B(x, dec=True):
    return ("b", bool(x), bool(dec))


class Interp:
    # extension points for clients that carry more state in st[5:] (rules/c06_children.py)
    extra_builtins = frozenset()

    def extra_init(self):
        return ()

    def extra_out(self, st, fr):
        return ()

    def extra_apply(self, st, extra, raw_args, fr, node, callee):
        return st

    def norm_args(self, args):
        return tuple(self.norm_arg(a) for a in args)

    def hook_call(self, path, args, st, fr, node):
        return None

    def hook_advance(self, before, after):
        return after

    def round_reset(self):
        pass

    def __init__(self, c, dom, tokensets):
        self.c = c
        self.dom = dom
        self.tokensets = tokensets
        self.fns = {}
        for p, b in c.hir.items():
            if p.startswith(MOD) or p.startswith(TK):
                self.fns[p] = b
        self.closures = {}      # path -> (params, body, owner fn)
        self.owner = {}
        for p, b in self.fns.items():
            for n in walk(b["body"]):
                if n[0] == "closure":
                    self.closures[n[1]] = (n[2], n[3])
                    self.owner[n[1]] = p
        self.parametric = {p: self._is_parametric(b) for p, b in self.fns.items()}
        self.relevant = self._relevant()
        self.shells = {}        # id(macro node) -> node   (panic shells, static)
        self.shell_owner = {}
        self._find_shells()
        self.memo = {}
        self.done = set()
        self.inprog = set()
        self.changed = False
        self.inst = {}          # (owner fn, id(call node)|None, shell key) -> Rec
        self.loops = {}         # (fn, id(loop node)) -> [reached S, stuck S]
        self.nodes = {}
        self.posshells = set()
        self.analysed = set()
        self.missing_sets = set()
        self.escapes = set()
        self.contexts = 0
        self.parent = {}
        self.stack = []         # active contexts, outermost first
        self.callmoved = []     # parallel: had that frame consumed a token when it made its (current) call
        self.recur = {}         # fn -> [re-entered with S, re-entered without progress with S, witness]
        self.static_guardless = self._static_guardless()

    def _static_guardless(self):
        """parametric helper → guard-less shells (panic!/unreachable!) in it or in parametric helpers it calls: such a
        shell is an obligation of every call site even when (because) it is never reached"""
        own, edges = {}, {}
        for p, b in self.fns.items():
            if not self.parametric[p] or p not in self.relevant:
                continue        # helpers that never look at the cursor cannot hold a cursor-decided panic
            own[p] = set()
            edges[p] = set()
            for n in walk(b["body"], enter_closures=False):
                if id(n) in self.shells and self.shell_guardless(n):
                    own[p].add((p, id(n)))
                elif n[0] in ("call", "mcall") and self.parametric.get(callee_of(n)) and callee_of(n) in self.relevant:
                    edges[p].add(callee_of(n))
        changed = True
        while changed:
            changed = False
            for p in own:
                for q in edges[p]:
                    if not own[q] <= own[p]:
                        own[p] |= own[q]
                        changed = True
        return own

    # ---- static preparation
    def _is_parametric(self, b):
        for (pat, ty) in b["params"][0:]:
            if is_node(pat) and pat[0] == "pbind" and pat[1] == "self":
                continue
            t = ty.replace("&mut ", "").replace("&", "").strip()
            if TOKENKIND in t or TOKENSET in t:
                return True
            if "::" not in t and t not in PRIMS and re.fullmatch(r"[A-Z]\w*", t):
                return True  # a generic parameter (closure type)
            if t.startswith("impl ") or t.startswith("dyn ") or re.search(r"\bFn(Mut|Once)?\b", t):
                return True
        return False

    def _relevant(self):
        direct = set()
        edges = {}
        for p, b in self.fns.items():
            es = set()
            for n in walk(b["body"]):
                if n[0] in ("call", "mcall"):
                    cal = callee_of(n)
                    if cal in BUILTINS or cal in self.extra_builtins:
                        direct.add(p)
                    elif cal in self.fns:
                        es.add(cal)
                    elif n[0] == "call" and is_node(n[2]) and n[2][0] == "local":
                        direct.add(p)
            edges[p] = es
        rel = set(direct) | {p for p in self.fns if p.startswith(TK)}
        changed = True
        while changed:
            changed = False
            for p, es in edges.items():
                if p not in rel and es & rel:
                    rel.add(p)
                    changed = True
        return rel

    def _find_shells(self):
        """panic shells: the outermost macro wrapper around a panicking call with nothing but macro/block/if/un
        nodes in between (assert!, debug_assert!, unreachable!, panic! …); a bare panicking call is its own shell."""
        for p, b in self.fns.items():
            stack = [(b["body"], [], p)]
            while stack:
                n, anc, owner = stack.pop()
                if n[0] == "closure":
                    owner = n[1]
                    anc = []
                if n[0] == "call" and is_panic_path(callee_of(n)):
                    shell = n
                    for a in reversed(anc):
                        if a[0] not in ("macro", "block", "if", "un"):
                            break
                        if a[0] == "block" and len(a[1]) + (a[2] is not None) > 1:
                            break       # ordinary code, not the expansion of an assert-like macro
                        if a[0] == "macro":
                            if a[1].startswith("desugar:"):
                                break
                            shell = a
                    self.shells[id(shell)] = shell
                    self.shell_owner[id(shell)] = owner
                for ch in children(n):
                    stack.append((ch, anc + [n], owner))

    def shell_guardless(self, shell):
        """unreachable!()/panic!() style: no `if` between the shell and its panicking call"""
        n = shell
        while True:
            if n[0] == "macro":
                n = n[2]
            elif n[0] == "block" and len(n[1]) + (n[2] is not None) == 1:
                n = n[1][0] if n[1] else n[2]
            else:
                break
        return n[0] == "call"

    # ---- values
    def lookup(self, env, name):
        for i in range(len(env) - 1, -1, -1):
            if env[i][0] == name:
                return env[i][1]
        return None

    @staticmethod
    def storable(v):
        if isinstance(v, tuple) and v and v[0] == "posnow":
            return None
        return v

    def bind(self, st, name, v):
        if v == POSNOW:
            fl = st[2] + (False,)
            return st_set(st, flags=fl, env=st[3] + ((name, ("pos", len(fl) - 1)),))
        return st_set(st, env=st[3] + ((name, self.storable(v)),))

    def assign(self, st, name, v):
        env = st[3]
        v = self.storable(v)
        if isinstance(v, tuple) and v and v[0] == "pos":
            v = None
        for i in range(len(env) - 1, -1, -1):
            if env[i][0] == name:
                return st_set(st, env=env[:i] + ((name, v),) + env[i + 1:])
        return st

    def moved(self, st):
        """the cursor moved: every reference point has seen an advance, snapshots of current() are stale"""
        env = st[3]
        if any(b[1] == CUR for b in env):
            env = tuple((n, None if v == CUR else v) for (n, v) in env)
        return st_set(st, flags=(True,) * len(st[2]), env=env)

    # ---- evaluation
    def ev(self, e, st, fr):
        if not is_node(e):
            return [("n", st, None)]
        h = getattr(self, "ev_" + e[0], None)
        if h is None:
            return self.ev_generic(e, st, fr)
        return h(e, st, fr)

    def seq(self, nodes, st, fr):
        """evaluate nodes left to right → [(kind, st, [values])]"""
        cur = [("n", st, ())]
        for nd in nodes:
            nxt = []
            for (k, s, vals) in cur:
                if k != "n":
                    nxt.append((k, s, vals))
                    continue
                # a temporary reference point: values computed before an advance of a later operand are stale
                s1 = st_set(s, flags=s[2] + (False,))
                for (k2, s2, v2) in self.ev(nd, s1, fr):
                    mv = s2[2][-1] if len(s2[2]) > len(s[2]) else False
                    s2 = st_set(s2, flags=s2[2][:len(s[2])])
                    if k2 != "n":
                        nxt.append((k2, s2, v2))
                    else:
                        old = tuple(None if (mv and x == CUR) else x for x in vals) if mv else vals
                        nxt.append(("n", s2, old + (v2,)))
            cur = nxt
        return cur

    def ev_generic(self, e, st, fr):
        outs = []
        for (k, s, vals) in self.seq(list(children(e)), st, fr):
            outs.append((k, s, None if k == "n" else vals))
        return outs

    def ev_lit(self, e, st, fr):
        if e[1] == "int":
            return [("n", st, ("i", e[2]))]
        if e[1] == "bool":
            return [("n", st, B(e[2], not st[4]))]   # a literal chosen under a value-dependent guard is not decided
        return [("n", st, None)]

    def ev_local(self, e, st, fr):
        v = self.lookup(st[3], e[1])
        if isinstance(v, tuple) and v and v[0] == "pos" and v[1] >= len(st[2]):
            v = None
        return [("n", st, v)]

    def ev_def(self, e, st, fr):
        kind, path = e[1], e[2]
        if path == "core::option::Option::None":
            return [("n", st, NONE)]
        if kind == "const":
            if path in self.tokensets:
                v = self.tokensets[path]
                if v is None:
                    self.missing_sets.add(path)
                    return [("n", st, None)]
                return [("n", st, ("ts", v))]
            return [("n", st, None)]
        if kind in ("ctor", "variant"):
            return [("n", st, ("k", path))]
        if kind == "fn":
            return [("n", st, ("fn", path))]
        return [("n", st, None)]

    def ev_closure(self, e, st, fr):
        # locals the closure body assigns or mutably borrows are captured by reference: their tracked value is lost
        for n in walk(e[3]):
            tgt = n[1] if n[0] == "assign" else n[2] if n[0] == "assignop" else n[2] if (n[0] == "addr" and n[1]) \
                else None
            if is_node(tgt) and tgt[0] == "local" and self.lookup(st[3], tgt[1]) not in (None, PARSERV):
                st = self.assign(st, tgt[1], None)
        return [("n", st, ("clo", e[1]))]

    def ev_field(self, e, st, fr):
        outs = []
        for (k, s, v) in self.ev(e[1], st, fr):
            if k != "n":
                outs.append((k, s, v))
            elif v == PARSERV and e[2] == "token_idx":
                outs.append(("n", s, POSNOW))
            else:
                outs.append(("n", s, None))
        return outs

    def ev_addr(self, e, st, fr):
        if e[1] and is_node(e[2]) and e[2][0] == "local":
            v = self.lookup(st[3], e[2][1])
            if v is not None and v != PARSERV and not (isinstance(v, tuple) and v[0] == "clo"):
                # `&mut local`: whoever receives the borrow may overwrite it
                return [("n", self.assign(st, e[2][1], None), v)]
        return self.ev(e[2], st, fr)

    def ev_cast(self, e, st, fr):
        return [(k, s, (None if k == "n" else v)) for (k, s, v) in self.ev(e[1], st, fr)]

    def ev_tup(self, e, st, fr):
        outs = []
        for (k, s, vals) in self.seq(e[1], st, fr):
            if k != "n":
                outs.append((k, s, vals))
            elif 0 < len(vals) <= 4 and all(x is None or x[0] in ("i", "k", "b") for x in vals):
                outs.append(("n", s, ("tup", tuple(vals))))
            else:
                outs.append(("n", s, None))
        return outs

    def ev_array(self, e, st, fr):
        return [(k, s, None if k == "n" else v) for (k, s, v) in self.seq(e[1], st, fr)]

    def ev_un(self, e, st, fr):
        outs = []
        for (k, s, v) in self.ev(e[2], st, fr):
            if k != "n":
                outs.append((k, s, v))
            elif e[1] == "Deref":
                outs.append((k, s, v))
            elif e[1] == "Not" and isinstance(v, tuple) and v and v[0] == "b":
                outs.append((k, s, ("b", not v[1], v[2])))
            else:
                outs.append((k, s, None))
        return outs

    def kind_bits(self, v):
        if isinstance(v, tuple) and v and v[0] == "k":
            return self.dom.bit.get(v[1], 0) if v[1].startswith(TK) else None
        return None

    def compare_eq(self, a, b, s):
        """→ [(state, bool value)] for a == b"""
        if a == CUR and b == CUR:
            return [(s, B(True))]
        if b == CUR:
            a, b = b, a
        if a == CUR:
            kb = self.kind_bits(b)
            if kb is not None:
                outs = []
                if s[0] & kb:
                    outs.append((st_set(s, S=s[0] & kb), B(True)))
                if s[0] & ~kb:
                    outs.append((st_set(s, S=s[0] & ~kb), B(False)))
                return outs
            return [(s, None)]
        if isinstance(a, tuple) and isinstance(b, tuple) and a and b and a[0] == b[0] and a[0] in ("k", "i"):
            return [(s, B(a[1] == b[1]))]
        if isinstance(a, tuple) and isinstance(b, tuple) and a and b and a[0] == "b" and b[0] == "b":
            return [(s, B(a[1] == b[1], a[2] and b[2]))]
        return [(s, None)]

    def ev_bin(self, e, st, fr):
        op = e[1]
        outs = []
        if op in ("And", "Or"):
            for (k, s, v) in self.ev(e[2], st, fr):
                if k != "n":
                    outs.append((k, s, v))
                    continue
                for (tv, dec) in truth(v):
                    if (op == "And") != tv:
                        outs.append(("n", s, B(tv, dec)))      # short circuit
                    else:
                        for (k2, s2, v2) in self.ev(e[3], s, fr):
                            if k2 != "n":
                                outs.append((k2, s2, v2))
                                continue
                            for (tv2, dec2) in truth(v2):
                                outs.append(("n", s2, B(tv2, dec and dec2)))
            return merge(outs)
        for (k, s, vals) in self.seq([e[2], e[3]], st, fr):
            if k != "n":
                outs.append((k, s, vals))
                continue
            a, b = vals
            if op in ("Eq", "Ne"):
                for (s2, v) in self.compare_eq(a, b, s):
                    if op == "Ne" and v is not None:
                        v = ("b", not v[1], v[2])
                    outs.append(("n", s2, v))
            elif op in ("Gt", "Ge", "Lt", "Le") and isinstance(a, tuple) and isinstance(b, tuple) and a and b \
                    and a[0] == "i" and b[0] == "i":
                x, y = a[1], b[1]
                outs.append(("n", s, B({"Gt": x > y, "Ge": x >= y, "Lt": x < y, "Le": x <= y}[op])))
            elif op in ("Gt", "Ge", "Lt", "Le") and POSNOW in (a, b):
                # token_idx only grows (checked): now > then ⇔ an advance happened since the snapshot
                if op in ("Lt", "Le"):
                    a, b = b, a
                    op2 = "Gt" if op == "Lt" else "Ge"
                else:
                    op2 = op
                if a == POSNOW and isinstance(b, tuple) and b and b[0] == "pos" and b[1] < len(s[2]):
                    if fr.shell is not None:
                        self.posshells.add((fr.path, fr.shell))
                    outs.append(("n", s, B(True) if op2 == "Ge" else B(s[2][b[1]])))
                elif b == POSNOW and isinstance(a, tuple) and a and a[0] == "pos" and a[1] < len(s[2]):
                    outs.append(("n", s, B(not s[2][a[1]]) if op2 == "Ge" else B(False)))
                else:
                    outs.append(("n", s, None))
            else:
                outs.append(("n", s, None))
        return outs

    def ev_block(self, e, st, fr):
        nenv, nfl = len(st[3]), len(st[2])
        cur = [("n", st, None)]
        items = list(e[1]) + ([e[2]] if e[2] is not None else [])
        fin = []
        for i, nd in enumerate(items):
            nxt = []
            for (k, s, v) in cur:
                for o in self.ev(nd, s, fr):
                    if o[0] == "n":
                        nxt.append(o)
                    else:
                        fin.append(o)
            cur = merge(nxt)
        if e[2] is None:
            cur = [(k, s, None) for (k, s, v) in cur]
        outs = []
        for (k, s, v) in cur + fin:
            if isinstance(v, tuple) and v and v[0] == "pos":
                v = None
            outs.append((k, st_set(s, env=s[3][:nenv], flags=s[2][:nfl] if k != "r" else s[2][:1]), v))
        return merge(outs)

    def ev_let(self, e, st, fr):
        pat, init = e[1], e[2]
        if init is None:
            s = st
            for nm in pat_names(pat):
                s = self.bind(s, nm, None)
            return [("n", s, None)]
        outs = []
        for (k, s, v) in self.ev(init, st, fr):
            if k != "n":
                outs.append((k, s, v))
                continue
            if is_node(pat) and pat[0] == "pbind" and pat[2] is None:
                outs.append(("n", self.bind(s, pat[1], v), None))
            else:
                yes, _no, _d = self.match_pat(pat, v, s)
                for y in yes:
                    outs.append(("n", y, None))
            if len(e) > 3 and e[3] is not None:
                # let-else: the else block diverges
                outs += [o for o in self.ev(e[3], s, fr) if o[0] != "n"]
        return outs

    def ev_assign(self, e, st, fr):
        outs = []
        lhs = e[1]
        for (k, s, v) in self.ev(e[2], st, fr):
            if k != "n":
                outs.append((k, s, v))
            elif is_node(lhs) and lhs[0] == "local":
                outs.append(("n", self.assign(s, lhs[1], v), None))
            else:
                for (k2, s2, _v) in self.ev(lhs, s, fr):
                    outs.append((k2, self.clobber(lhs, s2), None))
        return outs

    def clobber(self, lhs, st):
        """a write through a place expression (`*x = ..`, `x.0 = ..`): tracked locals named in it become unknown"""
        for n in walk(lhs):
            if n[0] == "local" and self.lookup(st[3], n[1]) not in (None, PARSERV):
                st = self.assign(st, n[1], None)
        return st

    def ev_assignop(self, e, st, fr):
        outs = []
        lhs = e[2]
        for (k, s, v) in self.ev(e[3], st, fr):
            if k != "n":
                outs.append((k, s, v))
            elif is_node(lhs) and lhs[0] == "local":
                outs.append(("n", self.assign(s, lhs[1], None), None))
            else:
                outs.append(("n", self.clobber(lhs, s), None))
        return outs

    def ev_break(self, e, st, fr):
        if len(e) > 1 and e[1] is not None:
            return [("b" if k == "n" else k, s, v) for (k, s, v) in self.ev(e[1], st, fr)]
        return [("b", st, None)]

    def ev_continue(self, e, st, fr):
        return [("c", st, None)]

    def ev_ret(self, e, st, fr):
        if e[1] is not None:
            return [("r" if k == "n" else k, s, v) for (k, s, v) in self.ev(e[1], st, fr)]
        return [("r", st, None)]

    def ev_macro(self, e, st, fr):
        if id(e) in self.shells:
            prev = fr.shell
            fr.shell = id(e)
            self.reach_shell(fr, id(e), st)
            try:
                return self.ev(e[2], st, fr)
            finally:
                fr.shell = prev
        return self.ev(e[2], st, fr)

    def ev_struct(self, e, st, fr):
        return self.ev_generic(e, st, fr)

    def ev_letx(self, e, st, fr):
        outs = []
        for (k, s, v) in self.ev(e[2], st, fr):
            if k != "n":
                outs.append((k, s, v))
                continue
            yes, no, definite = self.match_pat(e[1], v, s)
            for y in yes:
                outs.append(("n", y, B(True, definite)))
            if no is not None:
                outs.append(("n", no, B(False, definite)))
        return outs

    def ev_if(self, e, st, fr):
        nenv = len(st[3])
        u0 = st[4]
        outs = []
        for (k, s, v) in self.ev(e[1], st, fr):
            if k != "n":
                outs.append((k, s, v))
                continue
            for (tv, dec) in truth(v):
                s1 = st_set(s, u=not dec)
                if tv:
                    outs += self.ev(e[2], s1, fr)
                elif e[3] is not None:
                    outs += self.ev(e[3], s1, fr)
                else:
                    outs.append(("n", s1, None))
        return merge([(k, st_set(s, env=s[3][:nenv] if k != "r" else s[3], u=u0), v) for (k, s, v) in outs])

    # ---- patterns
    def match_pat(self, pat, v, st):
        """→ (states where the pattern matches (bindings applied), state where it does not | None, definite)"""
        t = pat[0] if is_node(pat) else None
        if t == "pwild":
            return [st], None, True
        if t == "pbind":
            if pat[2] is None:
                return [self.bind(st, pat[1], v)], None, True
            yes, no, d = self.match_pat(pat[2], v, st)
            return [self.bind(y, pat[1], v) for y in yes], no, d
        if t == "pref":
            return self.match_pat(pat[1], v, st)
        if t == "por":
            alts = pat[1]
            bits = 0
            allk = True
            for a in alts:
                d = hirq.def_path(a) if is_node(a) and a[0] == "ppath" else None
                if d and d.startswith(TK):
                    bits |= self.dom.bit.get(d, 0)
                else:
                    allk = False
            if allk and v == CUR:
                yes = [st_set(st, S=st[0] & bits)] if st[0] & bits else []
                no = st_set(st, S=st[0] & ~bits) if st[0] & ~bits else None
                return yes, no, True
            yes_all, rem, definite = [], st, True
            for a in alts:
                if rem is None:
                    break
                yes, rem, d = self.match_pat(a, v, rem)
                yes_all += yes
                definite = definite and d
            return yes_all, rem, definite
        if t in ("ppath", "pts", "pstruct"):
            d = hirq.def_path(pat[1])
            subs = pat_names(pat)
            yes_st = st
            for nm in subs:
                yes_st = self.bind(yes_st, nm, None)
            if v == CUR and d and d.startswith(TK):
                b = self.dom.bit.get(d, 0)
                return ([st_set(yes_st, S=st[0] & b)] if st[0] & b else []), \
                       (st_set(st, S=st[0] & ~b) if st[0] & ~b else None), True
            if isinstance(v, tuple) and v and v[0] == "k" and d:
                return ([yes_st], None, True) if v[1] == d else ([], st, True)
            if v in (SOME, NONE) and d and d.startswith("core::option::Option::"):
                isnone = d.endswith("::None")
                return ([yes_st], None, True) if isnone == (v == NONE) else ([], st, True)
            return [yes_st], st, False
        if t == "lit":
            if isinstance(v, tuple) and v and v[0] == "b" and pat[1] == "bool":
                return ([st], None, v[2]) if v[1] == pat[2] else ([], st, v[2])
            return [st], st, False
        if t == "ptuple" and isinstance(v, tuple) and v and v[0] == "tup" and len(v[1]) == len(pat[1]):
            cur, definite = [st], True
            for sub, sv in zip(pat[1], v[1]):
                nxt = []
                for y in cur:
                    yes, _no, d = self.match_pat(sub, sv, y)
                    nxt += yes
                    definite = definite and d
                cur = nxt
            return cur, (None if definite else st), definite
        # slices, ranges …: not tracked
        yes_st = st
        for nm in pat_names(pat):
            yes_st = self.bind(yes_st, nm, None)
        return [yes_st], st, False

    def ev_match(self, e, st, fr):
        arms = e[2]
        nenv = len(st[3])
        u0 = st[4]
        outs = []

        def from_arm(i, s, v, indef):
            if i >= len(arms) or s is None:
                return
            pat, guard, body = arms[i][0], arms[i][1], arms[i][2]
            yes, no, definite = self.match_pat(pat, v, s)
            ind = indef or not definite
            for y in yes:
                if guard is None:
                    outs.extend(self.ev(body, st_set(y, u=ind), fr))
                else:
                    for (k, gs, gv) in self.ev(guard, y, fr):
                        if k != "n":
                            outs.append((k, gs, gv))
                            continue
                        for (tv, dec) in truth(gv):
                            if tv:
                                outs.extend(self.ev(body, st_set(gs, u=ind or not dec), fr))
                            else:
                                from_arm(i + 1, st_set(gs, env=gs[3][:nenv]), v, ind or not dec)
            if no is not None:
                from_arm(i + 1, no, v, ind)

        for (k, s, v) in self.ev(e[1], st, fr):
            if k != "n":
                outs.append((k, s, v))
                continue
            from_arm(0, s, v, False)
        return merge([(k, st_set(s, env=s[3][:nenv] if k != "r" else s[3], u=u0), v) for (k, s, v) in outs])

    # ---- loops
    def loop_parts(self, e):
        """(['while', cond, body] | ['loop', body])"""
        body = e[2]
        if e[1] == "While" and is_node(body) and body[0] == "block" and not body[1] and body[2] is not None:
            inner = hirq.unmacro(body[2])
            if is_node(inner) and inner[0] == "if" and inner[3] is not None:
                return ("while", inner[1], inner[2], inner[3])
        return ("loop", None, body, None)

    def ev_loop(self, e, st, fr):
        src = e[1]
        kind, cond, body, els = self.loop_parts(e)
        checked = src in ("While", "Loop") and self.is_cursor_loop(e)
        key = (fr.path, id(e))
        self.nodes[id(e)] = e
        if checked:
            rec = self.loops.setdefault(key, [0, 0])
            rec[0] |= st[0]
        L = len(st[2])
        nenv = len(st[3])
        u0 = st[4]
        head = {}           # (N, flags, env) -> S
        work = [st]
        exits = []
        rounds = 0
        while work:
            rounds += 1
            if rounds > 2000:
                raise Refuse("loop fixpoint does not converge in %s" % fr.path)
            todo = []
            for s in work:
                hk = (s[1], s[2], s[3]) + s[5:]
                old = head.get(hk, 0)
                if s[0] & ~old:
                    head[hk] = old | s[0]
                    todo.append(st_set(s, S=s[0] & ~old))  # transfer functions distribute over S: only the new part
            work = []
            for h in merge([("n", s, None) for s in todo]):
                s0 = st_set(h[1], flags=h[1][2] + (False,), u=u0)
                outs = []
                if kind == "while":
                    for (k, s, v) in self.ev(cond, s0, fr):
                        if k != "n":
                            outs.append((k, s, v))
                            continue
                        for (tv, dec) in truth(v):
                            s1 = st_set(s, u=u0 or not dec)
                            if tv:
                                outs += self.ev(body, s1, fr)
                            else:
                                outs += [("b" if k2 == "n" else k2, s2, v2) for (k2, s2, v2) in self.ev(els, s1, fr)]
                else:
                    outs = self.ev(body, s0, fr)
                for (k, s, v) in merge(outs):
                    if k in ("n", "c"):
                        adv = s[2][L]
                        s = st_set(s, flags=s[2][:L], env=s[3][:nenv], u=u0)
                        if checked and not adv and s[0]:
                            self.back_edge(e, kind, cond, s, fr, L)
                        work.append(s)
                    elif k == "b":
                        exits.append(("n", st_set(s, flags=s[2][:L], env=s[3][:nenv], u=u0), self.storable(v)))
                    else:
                        exits.append((k, s, v))
        return merge(exits)

    def back_edge(self, e, kind, cond, s, fr, L):
        """s reaches the back edge without having consumed a token in this iteration"""
        rec = self.loops[(fr.path, id(e))]
        if kind == "while":
            s0 = st_set(s, flags=s[2] + (False,))
            for (k, s1, v) in self.ev(cond, s0, fr):
                if k != "n" or s1[2][-1]:
                    continue
                if any(tv for (tv, _d) in truth(v)):
                    rec[1] |= s1[0]
        else:
            rec[1] |= s[0]

    def is_cursor_loop(self, e):
        for n in walk(e):
            if n[0] in ("call", "mcall"):
                cal = callee_of(n)
                if cal in BUILTINS or cal in self.extra_builtins or (cal in self.fns and cal in self.relevant):
                    return True
                if n[0] == "call" and is_node(n[2]) and n[2][0] == "local":
                    return True
        return False

    # ---- panics
    def rec(self, key):
        r = self.inst.get(key)
        if r is None:
            r = self.inst[key] = Rec()
        return r

    def reach_shell(self, fr, shellid, st):
        sk = (fr.path, shellid)
        if fr.parametric:
            fr.summary.reached.add(sk)
        else:
            self.rec((fr.path, None, sk)).reached |= st[0]

    def panic(self, fr, shellid, st, dec):
        sk = (fr.path, shellid)
        if fr.parametric:
            fr.summary.reached.add(sk)
            fr.summary.panics.add((sk, dec, st[0]))
        else:
            r = self.rec((fr.path, None, sk))
            r.reached |= st[0]
            if dec:
                if not r.dec:
                    r.wit = fr.key
                r.dec |= st[0]
            else:
                r.undec |= st[0]

    def bubble(self, fr, callnode, summ, st, callee):
        static = self.static_guardless.get(callee, ())
        if not summ.reached and not summ.panics and not static:
            return
        if fr.parametric:
            fr.summary.reached |= summ.reached
            fr.summary.panics |= summ.panics
            return
        self.nodes[id(callnode)] = callnode
        for sk in summ.reached:
            self.rec((fr.path, id(callnode), sk)).reached |= st[0]
        for sk in static:
            self.rec((fr.path, id(callnode), sk)).reached |= st[0]
        for (sk, dec, S) in summ.panics:
            r = self.rec((fr.path, id(callnode), sk))
            if dec:
                if not r.dec:
                    r.wit = fr.key
                r.dec |= S
            else:
                r.undec |= S

    # ---- calls
    def ev_call(self, e, st, fr):
        callee = e[2]
        if is_node(callee) and callee[0] == "def":
            path = callee[2]
            if is_panic_path(path):
                outs = []
                for (k, s, vals) in self.seq(e[3], st, fr):
                    if k != "n":
                        outs.append((k, s, vals))
                    else:
                        shell = fr.shell if fr.shell is not None else id(e)
                        if fr.shell is None:
                            self.reach_shell(fr, id(e), s)
                        self.panic(fr, shell, s, not s[4])
                return outs
            outs = []
            for (k, s, vals) in self.seq(e[3], st, fr):
                if k != "n":
                    outs.append((k, s, vals))
                elif path == "core::option::Option::Some":
                    outs.append(("n", s, SOME))
                else:
                    outs += self.call_fn(path, list(vals), s, fr, e)
            return outs
        # indirect call: closure value in a local
        outs = []
        for (k, s, vals) in self.seq([callee] + list(e[3]), st, fr):
            if k != "n":
                outs.append((k, s, vals))
                continue
            f, args = vals[0], list(vals[1:])
            if isinstance(f, tuple) and f and f[0] == "clo":
                outs += self.call_fn(f[1], args, s, fr, e)
            elif isinstance(f, tuple) and f and f[0] == "fn":
                outs += self.call_fn(f[1], args, s, fr, e)
            else:
                if PARSERV in args:
                    self.escapes.add("%s: parser passed to an unresolved callee %s" % (fr.path, hirq.render(callee)))
                outs.append(("n", s, None))
        return outs

    def ev_mcall(self, e, st, fr):
        path, name = e[2], e[3]
        outs = []
        for (k, s, vals) in self.seq([e[4]] + list(e[5]), st, fr):
            if k != "n":
                outs.append((k, s, vals))
                continue
            recv = vals[0]
            if path and path.startswith("core::option::Option::<T>::") and name in ("expect", "unwrap"):
                self.nodes[id(e)] = e
                if recv == SOME:
                    self.reach_shell(fr, id(e), s)
                    outs.append(("n", s, None))
                    continue
                if recv == NONE:
                    self.panic(fr, id(e), s, True)
                    continue
                # an Option this analysis does not track (token_name(kind), events.pop() …): value-dependent
                self.nodes[id(e)] = e
                self.panic(fr, id(e), s, False)
                outs.append(("n", s, None))
                continue
            if path and path.startswith("core::option::Option::<T>::") and name in ("is_some", "is_none") \
                    and recv in (SOME, NONE):
                outs.append(("n", s, B((recv == SOME) == (name == "is_some"))))
                continue
            if name == "clone" and not e[5] and (path or "").startswith("core::clone::Clone::"):
                outs.append(("n", s, recv))
                continue
            outs += self.call_fn(path, list(vals), s, fr, e)
        return outs

    def call_fn(self, path, args, st, fr, node):
        dom = self.dom
        hooked = self.hook_call(path, args, st, fr, node)
        if hooked is not None:
            return hooked
        if path == P_NTH:
            i = args[1] if len(args) > 1 else None
            return [("n", st, CUR if i == ("i", 0) else None)]
        if path == P_ADV:
            outs = []
            if st[0] & dom.eof:
                outs.append(("n", st_set(st, S=st[0] & dom.eof), None))     # raw_advance returns early at EOF
            if st[0] & ~dom.eof:
                s = self.moved(st)
                outs.append(("n", self.hook_advance(st, st_set(s, S=st[1], N=dom.nontrivia)), None))
            return outs
        if path == P_SKIP:
            outs = []
            if st[0] & ~dom.trivia:
                outs.append(("n", st_set(st, S=st[0] & ~dom.trivia), None))
            if st[0] & dom.trivia:
                s = self.moved(st)
                outs.append(("n", st_set(s, S=dom.nontrivia, N=dom.nontrivia), None))
            return outs
        if path == P_RAW:
            raise Refuse("%s calls raw_advance directly (only advance/skip_trivia are modelled)" % fr.path)
        if path == P_ISNEXT:
            kb = self.kind_bits(args[1]) if len(args) > 1 else None
            if kb is None:
                return [("n", st, None)]
            outs = []
            if st[1] & kb:
                outs.append(("n", st_set(st, N=st[1] & kb), B(True)))
            if st[1] & ~kb:
                outs.append(("n", st_set(st, N=st[1] & ~kb), B(False)))
            return outs
        if path == P_CONTAINS:
            ts, v = args[0], (args[1] if len(args) > 1 else None)
            if isinstance(ts, tuple) and ts and ts[0] == "ts":
                if v == CUR:
                    outs = []
                    if st[0] & ts[1]:
                        outs.append(("n", st_set(st, S=st[0] & ts[1]), B(True)))
                    if st[0] & ~ts[1]:
                        outs.append(("n", st_set(st, S=st[0] & ~ts[1]), B(False)))
                    return outs
                kb = self.kind_bits(v)
                if kb is not None:
                    return [("n", st, B(bool(ts[1] & kb)))]
            return [("n", st, None)]
        if path in self.closures:
            params, body = self.closures[path]
            return self.apply(path, [p for p in params], body, args, st, fr, node, False)
        b = self.fns.get(path)
        if b is None or path not in self.relevant:
            if b is None and PARSERV in args and not (path or "").startswith("core::clone::"):
                self.escapes.add("%s: parser passed to %s (no body in the facts)" % (fr.path, path))
            return [("n", st, None)]
        return self.apply(path, [p[0] for p in b["params"]], b["body"], args, st, fr, node, self.parametric[path])

    def norm_arg(self, v):
        v = self.storable(v)
        if isinstance(v, tuple) and v and v[0] == "pos":
            return None
        return v

    def apply(self, path, params, body, args, st, fr, node, parametric):
        raw_args = args
        args = self.norm_args(args)
        if self.callmoved:
            self.callmoved[-1] = st[2][0]
        summ = self.analyse(path, params, body, st[0], st[1], args, parametric, fr.key)
        self.bubble(fr, node, summ, st, path)
        outs = []
        for out in sorted(summ.outs, key=repr):     # deterministic traversal order
            (mv, S, N, v) = out[:4]
            s = self.moved(st) if mv else st
            s = st_set(s, S=S, N=N)
            if len(out) > 4:
                s = self.extra_apply(s, out[4:], raw_args, fr, node, path)
            outs.append(("n", s, v))
        return outs

    def analyse(self, path, params, body, S, N, args, parametric, caller=None):
        key = (path, S, N, args)
        if key in self.done:
            return self.memo[key]
        if key in self.inprog:
            # recursive re-entry of the very same context: if no frame on the cycle had consumed a token when it
            # called on, the recursion is unbounded for these kinds (stack overflow)
            i = self.stack.index(key)
            rc = self.recur.setdefault(path, [0, 0, None])
            rc[0] |= S
            if not any(self.callmoved[i:]):
                if not rc[1]:
                    rc[2] = [k[0] for k in self.stack[i:]]
                rc[1] |= S
            return self.memo.get(key, EMPTY)
        self.inprog.add(key)
        self.stack.append(key)
        self.callmoved.append(False)
        self.analysed.add(path)
        self.contexts += 1
        self.parent[key] = caller
        fr = Frame(path, parametric, key)
        env = ()
        st = (S, N, (False,), (), False) + self.extra_init()
        for i, pat in enumerate(params):
            v = args[i] if i < len(args) else None
            if is_node(pat) and pat[0] == "pbind" and pat[2] is None:
                st = self.bind(st, pat[1], v)
            else:
                for nm in pat_names(pat):
                    st = self.bind(st, nm, None)
        summ = fr.summary
        for (k, s, v) in self.ev(body, st, fr):
            if k in ("n", "r") and s[0]:
                summ.outs.add((s[2][0], s[0], s[1], self.norm_arg(v)) + self.extra_out(s, fr))
        old = self.memo.get(key)
        if old is not None:
            before = old.size()
            old.outs |= summ.outs
            old.panics |= summ.panics
            old.reached |= summ.reached
            if old.size() != before:
                self.changed = True
            summ = old
        else:
            self.memo[key] = summ
            self.changed = True
        self.inprog.discard(key)
        self.stack.pop()
        self.callmoved.pop()
        self.done.add(key)
        return summ

    def run(self):
        b = self.fns[ENTRY]
        rounds = 0
        while True:
            rounds += 1
            if rounds > 60:
                raise Refuse("summaries do not converge")
            self.changed = False
            self.done = set()
            self.inprog = set()
            self.inst = {}
            self.loops = {}
            self.analysed = set()
            self.contexts = 0
            self.parent = {}
            self.recur = {}
            self.stack, self.callmoved = [], []
            self.round_reset()
            self.analyse(ENTRY, [p[0] for p in b["params"]], b["body"], self.dom.tokens, self.dom.nontrivia,
                         (PARSERV,), False)
            if not self.changed:
                break
        return rounds


# --------------------------------------------------------------------------- soundness preconditions
def who_may_write(c, r):
    """only raw_advance writes Parser::token_idx (by `+= positive literal`), nothing writes/borrows Parser::tokens,
    nobody replaces *self"""
    ok = True
    writers = {}
    for p, b in c.hir.items():
        for n in walk(b["body"]):
            tgt = None
            if n[0] == "assign":
                tgt = n[1]
            elif n[0] == "assignop":
                tgt = n[2]
            elif n[0] == "addr" and n[1]:
                tgt = n[2]
            elif n[0] == "mcall" and len(n) > 6 and isinstance(n[6], str) and n[6].startswith("&mut ") \
                    and is_node(n[4]) and n[4][0] == "field":
                tgt = n[4]
            if tgt is None:
                continue
            t = tgt
            while is_node(t) and t[0] in ("index",):
                t = t[1]
            if is_node(t) and t[0] == "field" and len(t) > 3 and t[3] == "dora_parser::parser::Parser" \
                    and t[2] in ("token_idx", "tokens"):
                good = (n[0] == "assignop" and n[1] == "AddAssign" and t[2] == "token_idx"
                        and (hirq.lit_int(n[3]) or 0) > 0)
                writers.setdefault(p, []).append((t[2], good))
            if n[0] == "assign" and is_node(t) and t[0] == "un" and t[1] == "Deref" and hirq.local_name(t[2]) == "self" \
                    and p.startswith(PARSER):
                writers.setdefault(p, []).append(("*self", False))
    bad = {p: w for p, w in writers.items() if p != P_RAW or not all(g for (_f, g) in w)}
    r.instance("who-may-write:Parser::token_idx", sample={"writers": sorted(writers)})
    if not r.anchor("who-may-write: raw_advance is the writer of token_idx", P_RAW in writers):
        ok = False
    for p, w in sorted(bad.items()):
        ok = False
        r.violation("ANALYSIS:%s:writes-cursor" % p,
                    "%s writes %s outside the modelled primitive raw_advance (`token_idx += n`): the cursor typestate "
                    "cannot be trusted; refusing to analyse" % (p, ", ".join(sorted({f for f, _g in w}))), p)
    return ok


def check_primitives(c, r):
    def calls_in(p):
        b = c.hir.get(p)
        return [callee_of(n) for n in walk(b["body"]) if n[0] in ("call", "mcall")] if b else None

    ok = True
    # nth: tokens[token_idx + idx] or EOF
    b = c.hir.get(P_NTH)
    good = False
    if b:
        idx = [n for n in walk(b["body"]) if n[0] == "index"]
        good = (len(idx) == 1 and is_node(idx[0][1]) and idx[0][1][0] == "field" and idx[0][1][2] == "tokens"
                and any(n[0] == "field" and n[2] == "token_idx" for n in walk(idx[0][2]))
                and any(n[0] == "def" and n[2] == TK + "EOF" for n in walk(b["body"])))
    ok &= r.anchor("primitive nth reads tokens[token_idx+idx] else EOF", good)
    # raw_advance: early return only when current().is_eof(); the increment is a top-level statement
    b = c.hir.get(P_RAW)
    good = False
    if b and b["body"][0] == "block":
        stmts = b["body"][1]
        incs = [s for s in stmts if is_node(s) and s[0] == "assignop" and is_node(s[2]) and s[2][0] == "field"
                and s[2][2] == "token_idx"]
        rets = [n for n in walk(b["body"]) if n[0] == "ret"]
        guard_ok = False
        for s in stmts:
            if is_node(s) and s[0] == "if" and any(n[0] == "ret" for n in walk(s[2])):
                cs = [callee_of(n) for n in walk(s[1]) if n[0] in ("call", "mcall")]
                guard_ok = set(cs) == {PARSER + "current", TK + "is_eof"}
        loops = [n for n in walk(b["body"]) if n[0] == "loop" and any(
            m[0] == "assignop" and is_node(m[2]) and m[2][0] == "field" and m[2][2] == "token_idx" for m in walk(n))]
        good = len(incs) == 1 and len(rets) == 1 and guard_ok and not loops
    ok &= r.anchor("primitive raw_advance: `if current().is_eof() {return}; token_idx += 1`", good)
    cs = calls_in(P_SKIP)
    ok &= r.anchor("primitive skip_trivia: while current().is_trivia() { raw_advance }",
                   cs is not None and set(cs) == {PARSER + "current", TK + "is_trivia", P_RAW})
    b = c.hir.get(P_ADV)
    good = False
    if b and b["body"][0] == "block":
        seqc = [callee_of(s) for s in b["body"][1] + ([b["body"][2]] if b["body"][2] else [])
                if is_node(s) and s[0] == "mcall"]
        good = seqc == [P_RAW, P_SKIP] and len(list(walk(b["body"]))) < 12
    ok &= r.anchor("primitive advance = raw_advance; skip_trivia", good)
    b = c.hir.get(P_ISNEXT)
    good = False
    if b and b["body"][0] == "block" and b["body"][2] is not None:
        tail = hirq.strip(b["body"][2])
        cs = calls_in(P_ISNEXT)
        good = (set(cs) == {P_NTH, TK + "is_trivia"} and is_node(tail) and tail[0] == "bin" and tail[1] == "Eq"
                and hirq.local_name(tail[3]) is not None)
    ok &= r.anchor("primitive is_next: nth(first non-trivia index) == kind", good)
    # raw_advance / skip_trivia are called only by the modelled primitives (and skip_trivia once by the entry)
    for p, b in c.hir.items():
        for n in walk(b["body"]):
            if n[0] in ("call", "mcall") and callee_of(n) == P_RAW and p not in (P_ADV, P_SKIP):
                ok = False
                r.violation("ANALYSIS:%s:calls-raw_advance" % p, "raw_advance is called outside advance/skip_trivia", p)
    return ok


# --------------------------------------------------------------------------- reporting
def _labels(ip, c):
    """stable labels for shells / call sites / loops: rendered text + ordinal among equal texts per function"""
    def fn_body(p):
        if p in ip.closures:
            return ip.closures[p][1]
        return ip.fns[p]["body"]

    cache = {}

    def label_in(p, node):
        if p not in cache:
            seen = {}
            lab = {}
            for n in walk(fn_body(p), enter_closures=False):
                t = None
                if n[0] == "loop" and n[1] in ("While", "Loop"):
                    kind, cond, _b, _e = ip.loop_parts(n)
                    t = "while %s" % hirq.render(cond) if kind == "while" else "loop"
                elif id(n) in ip.shells:
                    t = shell_text(n)
                elif n[0] == "mcall" and (n[2] or "").startswith("core::option::Option::<T>::") and \
                        n[3] in ("expect", "unwrap"):
                    t = "%s.%s()" % (hirq.render(n[4]), n[3])
                elif n[0] in ("call", "mcall"):
                    cal = callee_of(n)
                    if cal in ip.fns and ip.parametric.get(cal):
                        t = "%s(%s)" % (last(cal), render_args(n[5] if n[0] == "mcall" else n[3]))
                    elif n[0] == "call" and is_node(n[2]) and n[2][0] == "local":
                        t = "%s(..)" % n[2][1]
                if t is None:
                    continue
                k = seen[t] = seen.get(t, 0) + 1
                lab[id(n)] = t if k == 1 else "%s#%d" % (t, k)
            cache[p] = lab
        return cache[p].get(id(node)) or "?"

    def shell_text(n):
        if n[0] == "macro":
            name = n[1].split("::")[-1]
            for suf in ("_2021", "_2015"):
                name = name.replace(suf, "")
            inner = hirq.unmacro(n)
            # assert-like: if !(cond) {panic}
            x = inner
            while is_node(x) and x[0] in ("macro", "block", "if"):
                if x[0] == "if":
                    cnd = x[1]
                    if is_node(cnd) and cnd[0] == "macro":   # cfg!(debug_assertions)
                        x = x[2]
                        continue
                    if is_node(cnd) and cnd[0] == "un" and cnd[1] == "Not":
                        cnd = cnd[2]
                    return "%s(%s)" % (name, hirq.render(cnd))
                if x[0] == "macro":
                    x = x[2]
                else:
                    x = x[1][0] if x[1] else x[2]
            return "%s()" % name
        return "panic-call"

    return label_in


def short(p):
    return p[len(MOD):] if p.startswith(MOD) else p


def run(chk, c):
    r = chk.rule("C06.R4", "cursor typestate of the parser: no cursor-decided panic (assert/assert_value/expect_name()"
                           ".expect/unreachable!) is reachable, every cursor loop consumes a token per iteration, "
                           "every comma-list callback that returns true has consumed a token")
    dom = Domain(c)
    if not (r.anchor("dora_parser::token::TokenKind", dom.ok) and r.anchor(ENTRY, c.hir.get(ENTRY))):
        return
    r.anchor("TokenKind::EOF", dom.eof)
    r.floor("trivia kinds (TokenKind::is_trivia)", bin(dom.trivia).count("1"), 3)
    r.floor("token kinds (<= EOF)", bin(dom.tokens).count("1"), 90)
    if not who_may_write(c, r):
        return
    if not check_primitives(c, r):
        return
    import facts as factsmod
    tokensets = parse_tokensets(c, dom, factsmod.read_repo)
    r.floor("TokenSet constants evaluated", sum(1 for v in tokensets.values() if v is not None), 12)
    ip = Interp(c, dom, tokensets)
    result = {}

    def work():
        try:
            result["rounds"] = ip.run()
        except Refuse as ex:
            result["refuse"] = str(ex)
        except RecursionError:
            result["refuse"] = "interpreter recursion limit"
        except Exception as ex:     # an interpreter bug must not look like a proof
            import traceback
            tb = traceback.extract_tb(ex.__traceback__)[-1]
            result["refuse"] = "internal error %s: %s (%s:%d)" % (type(ex).__name__, ex, tb.name, tb.lineno)

    old = sys.getrecursionlimit()
    sys.setrecursionlimit(400000)
    threading.stack_size(256 * 1024 * 1024)
    t = threading.Thread(target=work)
    t.start()
    t.join()
    sys.setrecursionlimit(old)
    threading.stack_size(0)
    if "refuse" in result:
        r.violation("ANALYSIS:interpreter", "the abstract interpreter refused: %s" % result["refuse"])
        return
    for p in sorted(ip.missing_sets):
        r.violation("ANALYSIS:tokenset:%s" % p, "TokenSet constant %s is used by the parser but its initialiser could "
                                                "not be evaluated" % p)
    for msg in sorted(ip.escapes):
        r.violation("ANALYSIS:escape:%s" % msg.split(":")[0], msg)

    label = _labels(ip, c)
    counts = {"assert": [0, 0, 0], "option": [0, 0, 0], "unreachable": [0, 0, 0], "callback": [0, 0, 0],
              "loop": [0, 0, 0], "recursion": [0, 0, 0]}
    unproved = []

    def violate(cat, key, msg, where):
        """a site listed in UNPROVED is reported as an observation and counted, never silently dropped"""
        if key in UNPROVED:
            counts[cat][1] += 1
            unproved.append(key)
            r.observe("unproved: %s — %s (%s)" % (key, UNPROVED[key], msg[:160]))
        else:
            counts[cat][2] += 1
            r.violation(key, msg, where)

    value_dep = 0
    samples = 0

    def shell_node(sk):
        return ip.shells.get(sk[1]) or ip.nodes.get(sk[1])

    def category(sk):
        n = shell_node(sk)
        if (sk[0], sk[1]) in ip.posshells:
            return "callback"
        if n is not None and n[0] == "mcall":
            return "option"
        if n is not None and ip.shell_guardless(n) and n[0] != "call":
            return "unreachable"
        return "assert"

    def chain(key):
        names = []
        while key is not None and len(names) < 40:
            names.append(short(key[0]).replace("Parser::", ""))
            key = ip.parent.get(key)
        names.reverse()
        if len(names) > 7:
            names = names[:1] + ["…"] + names[-5:]
        return " → ".join(names)

    seen_keys = set()
    def order(kv):
        (owner, callid, sk), _rec = kv
        sn = shell_node(sk)
        return (owner, label(owner, ip.nodes[callid]) if callid is not None else "", sk[0],
                label(sk[0], sn) if sn is not None else "?")

    for (owner, callid, sk), rec in sorted(ip.inst.items(), key=order):
        sn = shell_node(sk)
        slabel = label(sk[0], sn) if sn is not None else "?"
        if callid is None:
            key = "%s:%s" % (owner, slabel)
            where_fn = owner
        else:
            cn = ip.nodes[callid]
            clabel = label(owner, cn)
            key = "%s:%s:%s/%s" % (owner, clabel, last(sk[0]), slabel)
            where_fn = owner
        if rec.undec and not rec.dec:
            value_dep += 1
            continue
        cat = category(sk)
        if cat == "callback" and callid is not None:
            key = "%s:%s:callback-advances" % (owner, label(owner, ip.nodes[callid]))
        elif callid is not None and sk[0] == callee_of(ip.nodes[callid]):
            key = "%s:%s" % (owner, label(owner, ip.nodes[callid]))     # the shell sits in the helper called here
        if key in seen_keys:
            key = "%s [%s]" % (key, slabel)
        seen_keys.add(key)
        fn_item = c.hir.get(where_fn) or c.hir.get(ip.owner.get(where_fn, ""))
        where = "%s:%s" % (fn_item["file"], fn_item["line"]) if fn_item else None
        r.instance(key, sample={"site": key, "category": cat, "reached_with": dom.show(rec.reached),
                                "fails_with": dom.show(rec.dec)} if samples < 2 else None)
        samples += 1
        if rec.dec:
            if cat == "callback":
                msg = ("the callback passed at %s can return true without having consumed a token (current ∈ %s when "
                       "it returns): `%s` in %s panics" % (short(owner), dom.show(rec.dec), slabel, short(sk[0])))
            elif cat == "option":
                msg = ("%s is reachable with current ∈ %s, for which the Option is None: panics"
                       % (slabel, dom.show(rec.dec)))
            elif cat == "unreachable":
                msg = "%s is reachable with current ∈ %s" % (slabel, dom.show(rec.dec))
            else:
                what = label(owner, ip.nodes[callid]) if callid is not None else slabel
                msg = ("%s is reachable with current ∈ %s (panics in `%s` of %s): e.g. an input whose token at this "
                       "point is %s" % (what, dom.show(rec.dec), slabel, short(sk[0]),
                                        dom.show(rec.dec & -rec.dec)))
            if rec.wit is not None:
                msg += "; reached e.g. via " + chain(rec.wit)
            violate(cat, key, msg, where)
        else:
            counts[cat][0] += 1

    # guardless shells (unreachable!/panic!) in analysed non-parametric functions that were never reached: proved
    for sid, sn in ip.shells.items():
        owner = ip.shell_owner[sid]
        if owner not in ip.analysed or ip.parametric.get(owner, False):
            continue
        if (owner, None, (owner, sid)) in ip.inst:
            continue
        if ip.shell_guardless(sn):
            key = "%s:%s:unreached" % (owner, label(owner, sn))
            r.instance(key)
            counts["unreachable" if sn[0] == "macro" else "assert"][0] += 1
        else:
            r.observe("never evaluated: %s in %s" % (label(owner, sn), short(owner)))

    # loops
    plain = 0
    for p in sorted(ip.analysed):
        body = ip.closures[p][1] if p in ip.closures else ip.fns[p]["body"]
        for n in walk(body, enter_closures=False):
            if n[0] != "loop" or n[1] not in ("While", "Loop"):
                continue
            if not ip.is_cursor_loop(n):
                plain += 1
                continue
            key = "%s:%s:progress" % (p, label(p, n))
            rec = ip.loops.get((p, id(n)))
            if rec is None:
                r.observe("never evaluated: %s" % key)
                continue
            r.instance(key, sample={"loop": key, "entered_with": dom.show(rec[0]), "stuck_with": dom.show(rec[1])}
                       if counts["loop"][0] < 1 else None)
            if rec[1]:
                fn_item = c.hir.get(p) or c.hir.get(ip.owner.get(p, ""))
                violate("loop", key, "the loop can reach its back edge without consuming a token and its condition still "
                                 "holds when current ∈ %s: the parser spins forever on such input" % dom.show(rec[1]),
                            "%s:%s" % (fn_item["file"], fn_item["line"]) if fn_item else None)
            else:
                counts["loop"][0] += 1

    # recursion: a context that re-enters itself must have consumed a token on the way
    for p, (S_all, S_bad, wit) in sorted(ip.recur.items()):
        key = "%s:recursion-consumes" % p
        r.instance(key)
        if S_bad:
            fn_item = c.hir.get(p) or c.hir.get(ip.owner.get(p, ""))
            violate("recursion", key,
                    "%s can re-enter itself in the same cursor state without any token consumed in between when "
                    "current ∈ %s (cycle %s): unbounded recursion, the parser overflows its stack"
                    % (short(p), dom.show(S_bad), " → ".join(short(x).replace("Parser::", "") for x in wit + [p])),
                    "%s:%s" % (fn_item["file"], fn_item["line"]) if fn_item else None)
        else:
            counts["recursion"][0] += 1

    nfn = len([p for p in ip.analysed if p.startswith(PARSER) and p not in ip.closures])
    r.floor("parser functions analysed from parse_file", nfn, 80)
    # floors: counted on the pinned tree (66 / 7 / 18 / 12), frozen slightly below
    r.floor("assert-like sites (self.assert/assert_value/assert!/panic!)", sum(counts["assert"]) +
            sum(counts["unreachable"]), 62)
    r.floor("expect_name().expect sites", sum(counts["option"]), 6)
    r.floor("cursor loops", sum(counts["loop"]), 16)
    r.floor("comma-list callbacks", sum(counts["callback"]), 11)
    r.observe("obligations proved/unproved/violated: " + ", ".join("%s %d/%d/%d" % (k, v[0], v[1], v[2])
                                                                   for k, v in counts.items()))
    r.observe("value-dependent panic sites (guard does not depend on the cursor; not decided here): %d; loops that "
              "never touch the cursor: %d; calling contexts analysed: %d in %d rounds; unproved: %d"
              % (value_dep, plain, ip.contexts, result["rounds"], len(unproved)))
    chk.extra["c06_r4"] = {"counts": {k: {"proved": v[0], "unproved": v[1], "violated": v[2]}
                                      for k, v in counts.items()},
                           "unproved": len(unproved), "unproved_keys": unproved,
                           "value_dependent_sites": value_dep, "contexts": ip.contexts, "rounds": result["rounds"]}

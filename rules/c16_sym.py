"""Symbolic evaluator over HIR s-expressions for the C16 rules (static analysis: a relational abstract domain).

Values are *terms*: linear expressions over atoms (`("lin", const, ((atom, coeff), ..))`) and uninterpreted
structure (`app`, `ctor`, `rec`, `fld`, `idx`, `proj`, `tup`, `obj`, `sym` …).  A function body is executed on
every path (if / match / let-else / `?` fork; diverging branches — panics — are dropped), loops are summarised
(everything they assign or mutably borrow is havocked) unless a rule interprets them, calls are either inlined
(in-crate callees that take no `&mut`, depth-bounded), treated as value-preserving (clone, Arc::new, try_into … —
the frozen table IDENTITY below), or kept as uninterpreted applications whose `&mut` receivers/arguments are havocked.

What a rule cannot interpret raises Unsupported ⇒ the rule reports an *analysis failure* (fail closed), never a pass.
"""
import hirq
from hirq import is_node

INT_TYPES = {"u8", "u16", "u32", "u64", "u128", "usize", "i8", "i16", "i32", "i64", "i128", "isize"}


class Unsupported(Exception):
    pass


# --------------------------------------------------------------------------- linear terms
def _key(t):
    return repr(t)


def lin_parts(t):
    if isinstance(t, tuple) and t and t[0] == "lin":
        return t[1], dict(t[2])
    return 0, {t: 1}


def lin_make(c, d):
    items = tuple(sorted(((a, k) for a, k in d.items() if k != 0), key=lambda x: _key(x[0])))
    if c == 0 and len(items) == 1 and items[0][1] == 1:
        return items[0][0]
    return ("lin", c, items)


def const(n):
    return ("lin", n, ())


def add(a, b, sign=1):
    ca, da = lin_parts(a)
    cb, db = lin_parts(b)
    for k, v in db.items():
        da[k] = da.get(k, 0) + sign * v
    return lin_make(ca + sign * cb, da)


def sub(a, b):
    return add(a, b, -1)


def scale(a, k):
    c, d = lin_parts(a)
    return lin_make(c * k, {x: v * k for x, v in d.items()})


def as_const(t):
    if isinstance(t, tuple) and t and t[0] == "lin" and not t[2]:
        return t[1]
    return None


def is_zero(t):
    return as_const(t) == 0


def atoms(t):
    return list(lin_parts(t)[1].keys())


def subterms(t):
    """all sub-terms (pre-order), looking into linear expressions"""
    st = [t]
    while st:
        x = st.pop()
        if isinstance(x, tuple) and x and isinstance(x[0], str):
            yield x
        if isinstance(x, tuple):
            if x and x[0] == "lin":
                for a, _k in x[2]:
                    st.append(a)
            else:
                for y in x:
                    if isinstance(y, tuple):
                        st.append(y)


def show(t, depth=0):
    """short rendering of a term for messages"""
    if not isinstance(t, tuple) or not t:
        return str(t)
    if depth > 6:
        return "…"
    k = t[0]
    d = depth + 1
    if k == "lin":
        parts = []
        for a, c in t[2]:
            s = show(a, d)
            parts.append(s if c == 1 else ("-%s" % s if c == -1 else "%d*%s" % (c, s)))
        if t[1] != 0 or not parts:
            parts.append(str(t[1]))
        return " + ".join(parts).replace("+ -", "- ")
    if k == "param":
        return t[1]
    if k == "free":
        return t[1]
    if k == "sym":
        return "%s#%d" % (t[2], t[1])
    if k == "obj":
        return "%s@%d" % (t[1], t[2])
    if k == "fld":
        return "%s.%s" % (show(t[1], d), t[2])
    if k == "idx":
        return "%s[%s]" % (show(t[1], d), show(t[2], d))
    if k == "app":
        return "%s(%s)" % (hirq.last(t[1]), ", ".join(show(a, d) for a in t[2]))
    if k == "ctor":
        nm = "::".join(t[1].split("::")[-2:])
        return nm if not t[2] else "%s(%s)" % (nm, ", ".join(show(a, d) for a in t[2]))
    if k == "rec":
        return "%s{%s}" % (hirq.last(t[1]), ", ".join("%s: %s" % (f, show(v, d)) for f, v in t[2]))
    if k == "tup":
        return "(%s)" % ", ".join(show(a, d) for a in t[1])
    if k == "proj":
        return "%s as %s.%s" % (show(t[1], d), hirq.last(t[2]), t[3])
    if k == "bin":
        return "(%s %s %s)" % (show(t[2], d), t[1], show(t[3], d))
    if k == "un":
        return "%s(%s)" % (t[1], show(t[2], d))
    if k == "lit":
        return repr(t[2])
    if k == "failure":
        return "fail(%s)" % show(t[1], d)
    return "<%s>" % k


# --------------------------------------------------------------------------- frozen std tables
# Each entry: std function whose result *is* its first argument for the purposes of lengths/offsets/identity of the
# wrapped value.  Reason: smart-pointer constructors/derefs and Clone do not change the value they carry.
IDENTITY = {
    "core::clone::Clone::clone", "alloc::sync::Arc::<T>::new", "alloc::rc::Rc::<T>::new", "alloc::boxed::Box::<T>::new",
    "core::ops::deref::Deref::deref", "core::ops::deref::DerefMut::deref_mut", "core::convert::AsRef::as_ref",
    "core::borrow::Borrow::borrow", "core::convert::Into::into", "core::convert::From::from",
    "alloc::string::String::as_str", "alloc::vec::Vec::<T, A>::as_slice", "smol_str::SmolStr::as_str",
    "alloc::sync::Arc::<T, A>::as_ref",
}
# checked integer conversions: value-preserving when they do not fail (failure = panic/None path, not a value change)
TRY_CONV = {"core::convert::TryInto::try_into", "core::convert::TryFrom::try_from"}
UNWRAP = {"core::option::Option::<T>::unwrap", "core::option::Option::<T>::expect",
          "core::result::Result::<T, E>::unwrap", "core::result::Result::<T, E>::expect"}
SOME = "core::option::Option::Some"
NONE = "core::option::Option::None"
OK = "core::result::Result::Ok"
ERR = "core::result::Result::Err"
CF_BREAK = "core::ops::control_flow::ControlFlow::Break"
CF_CONT = "core::ops::control_flow::ControlFlow::Continue"
TRY_BRANCH = "core::ops::try_trait::Try::branch"
FROM_RESIDUAL = "core::ops::try_trait::FromResidual::from_residual"
DIVERGE_PREFIX = ("core::panicking::", "std::rt::begin_panic", "std::process::exit", "std::process::abort",
                  "core::option::unwrap_failed", "core::option::expect_failed", "core::result::unwrap_failed")


def strip_generics(p):
    """dora_parser::ast::SyntaxElementIter<'a> → dora_parser::ast::SyntaxElementIter"""
    out, depth = [], 0
    for ch in p or "":
        if ch == "<":
            depth += 1
        elif ch == ">":
            depth -= 1
        elif depth == 0:
            out.append(ch)
    return "".join(out).replace("::::", "::")


def strip_ref(ty):
    ty = (ty or "").strip()
    while True:
        if ty.startswith("&mut "):
            ty = ty[5:]
        elif ty.startswith("&"):
            ty = ty[1:].strip()
            if ty.startswith("'"):
                ty = ty.split(" ", 1)[1] if " " in ty else ty
        else:
            return ty


# --------------------------------------------------------------------------- state
class St:
    __slots__ = ("env", "store", "pc", "log", "vers")

    def __init__(self):
        self.env = [{}]       # scope chain
        self.store = {}       # (base term, field) -> term
        self.pc = []          # [(cond term, polarity)]
        self.log = []         # events in path order
        self.vers = {}        # object name -> version

    def copy(self):
        s = St()
        s.env = [dict(d) for d in self.env]
        s.store = dict(self.store)
        s.pc = list(self.pc)
        s.log = list(self.log)
        s.vers = dict(self.vers)
        return s

    def get(self, name):
        for d in reversed(self.env):
            if name in d:
                return d[name]
        return None

    def set(self, name, val):
        for d in reversed(self.env):
            if name in d:
                d[name] = val
                return
        self.env[-1][name] = val

    def declare(self, name, val):
        self.env[-1][name] = val


def pat_names(p, out=None):
    out = [] if out is None else out
    if not is_node(p):
        return out
    k = p[0]
    if k == "pbind":
        out.append(p[1])
        if p[2] is not None:
            pat_names(p[2], out)
    elif k in ("ptuple", "por"):
        for q in p[1]:
            pat_names(q, out)
    elif k == "pts":
        for q in p[2]:
            pat_names(q, out)
    elif k == "pstruct":
        for f in p[2]:
            pat_names(f[1], out)
    elif k == "pref":
        pat_names(p[1], out)
    return out


def kids(e):
    """direct sub-nodes of a HIR node (expressions and patterns), including struct fields and match arms"""
    if not isinstance(e, list):
        return
    for x in e[1:] if is_node(e) else e:
        if isinstance(x, list):
            if is_node(x):
                yield x
            else:
                for y in kids(x):
                    yield y


def walk(e, closures=True):
    st = [e]
    while st:
        x = st.pop()
        yield x
        if x[0] == "closure" and not closures and x is not e:
            continue
        st.extend(reversed(list(kids(x))))


def place_root(e):
    """root local name of a place expression (through fields / derefs / indexing / address-of), or None"""
    e = hirq.unmacro(e)
    while is_node(e):
        if e[0] == "local":
            return e[1]
        if e[0] in ("field", "index"):
            e = hirq.unmacro(e[1])
        elif e[0] == "addr":
            e = hirq.unmacro(e[2])
        elif e[0] == "un" and e[1] == "Deref":
            e = hirq.unmacro(e[2])
        elif e[0] == "block" and not e[1] and e[2] is not None:
            e = hirq.unmacro(e[2])
        else:
            return None
    return None


def for_parts(node):
    """['macro','desugar:ForLoop', match(into_iter(ITER)) [[pbind iter] → loop ForLoop {match next(&mut iter)
    {None → break, Some(PAT) → BODY}}]]  →  (ITER, PAT, BODY) or None"""
    try:
        m = node[2]
        if m[0] != "match":
            return None
        call = hirq.unmacro(m[1])
        it = call[3][0]
        lp = m[2][0][2]
        inner = lp[2][1][0]
        arms = inner[2]
        some = [a for a in arms if hirq.pat_paths(a[0]) == [SOME]]
        if lp[0] != "loop" or len(some) != 1:
            return None
        pat = some[0][0][2][0][1] if some[0][0][0] == "pstruct" else some[0][0][2][0]
        return it, pat, some[0][2]
    except (IndexError, TypeError):
        return None


def while_parts(node):
    """['loop','While', block([], macro desugar:WhileLoop(if COND BODY else {break}))] → (COND, BODY) or None"""
    try:
        inner = hirq.unmacro(node[2][2])
        if inner[0] != "if":
            return None
        return inner[1], inner[2]
    except (IndexError, TypeError):
        return None


# --------------------------------------------------------------------------- evaluator
class Ev:
    MAXPATHS = 3000

    def __init__(self, c, inline=None, depth=4):
        self.c = c
        self.nsym = 0
        self.inline_pred = inline or (lambda path: False)
        self.max_depth = depth
        self.depth = 0
        self.frames = []          # exit frames: list of [(kind, st, term)]
        self.loops = []           # (node, kind, generic iteration-entry state, parts, iterator term)
        self.paths = 0
        self._impl_index = None

    # ---- helpers ------------------------------------------------------------
    def fresh(self, hint):
        self.nsym += 1
        return ("sym", self.nsym, hint)

    def budget(self, n=1):
        self.paths += n
        if self.paths > self.MAXPATHS * 50:
            raise Unsupported("path explosion")

    def reduce(self, t):
        k = t[0]
        if k == "fld":
            b, f = t[1], t[2]
            if b[0] == "rec":
                for (n, v) in b[2]:
                    if n == f:
                        return v
            if b[0] == "ctor" and f.isdigit() and int(f) < len(b[2]):
                return b[2][int(f)]
            if b[0] == "tup" and f.isdigit() and int(f) < len(b[1]):
                return b[1][int(f)]
        elif k == "proj":
            b = t[1]
            if b[0] == "ctor" and b[1] == t[2]:
                i = t[3]
                if isinstance(i, int) and i < len(b[2]):
                    return b[2][i]
        return t

    def read_field(self, st, base, f):
        v = st.store.get((base, f))
        if v is not None:
            return v
        return self.reduce(("fld", base, f))

    def exit(self, kind, st, term):
        if not self.frames:
            raise Unsupported("%s outside a frame" % kind)
        self.frames[-1].append((kind, st, term))

    # ---- function entry -----------------------------------------------------
    def run_fn(self, path, args=None, st=None):
        """→ list of (st, value) for every non-panicking return path"""
        fb = self.c.hir.get(path)
        if fb is None:
            raise Unsupported("no HIR body for %s" % path)
        st = st or St()
        for i, (pat, ty) in enumerate(fb["params"]):
            names = pat_names(pat)
            if args is not None:
                rs = self.bind(pat, args[i], st)
                if not rs or rs[0][0] != "yes":
                    raise Unsupported("parameter pattern of %s" % path)
                st = rs[0][1]
            elif is_node(pat) and pat[0] == "pbind" and pat[2] is None:
                st.declare(pat[1], ("param", pat[1]))
            else:
                for n in names:
                    st.declare(n, ("param", n))
        return self.run_body(fb["body"], st)

    def run_body(self, body, st):
        self.frames.append([])
        try:
            outs = self.ev(body, st)
            exits = self.frames[-1]
        finally:
            self.frames.pop()
        res = list(outs)
        for (kind, s, t) in exits:
            if kind == "ret":
                res.append((s, t))
            else:
                raise Unsupported("%s escapes a function body" % kind)
        return res

    # ---- patterns -----------------------------------------------------------
    def bind(self, pat, term, st):
        """→ [(certainty 'yes'|'maybe', state)]; [] when the pattern cannot match"""
        k = pat[0]
        if k == "pwild":
            return [("yes", st)]
        if k == "pbind":
            if pat[2] is not None:
                rs = self.bind(pat[2], term, st)
                for (_c, s) in rs:
                    s.declare(pat[1], term)
                return rs
            st.declare(pat[1], term)
            return [("yes", st)]
        if k == "pref":
            return self.bind(pat[1], term, st)
        if k == "ptuple":
            cert = "yes"
            for i, q in enumerate(pat[1]):
                rs = self.bind(q, self.reduce(("fld", term, str(i))), st)
                if not rs:
                    return []
                if rs[0][0] != "yes":
                    cert = "maybe"
                st = rs[0][1]
            return [(cert, st)]
        if k in ("pts", "pstruct", "ppath"):
            path = hirq.def_path(pat[1])
            if path is None:
                raise Unsupported("pattern without a path")
            subs = []
            if k == "pts":
                subs = [(i, q) for i, q in enumerate(pat[2])]
            elif k == "pstruct":
                subs = [(int(f[0]) if f[0].isdigit() else f[0], f[1]) for f in pat[2]]
            cert = "maybe"
            term2 = term
            if term[0] == "branch":
                # match on Try::branch(x): Continue(v) / Break(residual)
                x = term[1]
                isfail = x[0] == "failure" or (x[0] == "ctor" and x[1] in (NONE, ERR))
                isok = x[0] == "ctor" and x[1] in (SOME, OK)
                if path == CF_CONT:
                    if isfail:
                        return []
                    payload = x[2][0] if isok else ("app", "unwrap", (x,))
                    cert = "yes" if isok else "maybe"
                elif path == CF_BREAK:
                    if isok:
                        return []
                    payload = ("residual", x)
                    cert = "yes" if isfail else "maybe"
                else:
                    raise Unsupported("pattern %s on a `?` branch" % path)
                for (i, q) in subs:
                    rs = self.bind(q, payload, st)
                    if not rs:
                        return []
                    st = rs[0][1]
                st.log.append(("matched", term, path))
                return [(cert, st)]
            if term[0] == "ctor":
                if term[1] != path:
                    # a different variant of the same enum (or unrelated const): cannot match
                    if term[1].rsplit("::", 1)[0] == path.rsplit("::", 1)[0]:
                        return []
                else:
                    cert = "yes"
            elif term[0] == "rec":
                if strip_generics(term[1]) == strip_generics(path):
                    cert = "yes"
            elif term[0] == "failure" and path in (SOME, OK):
                return []
            elif term[0] == "failure" and path in (NONE,):
                cert = "yes"
            for (i, q) in subs:
                if term2[0] == "rec":
                    sub = self.reduce(("fld", term2, str(i)))
                elif term2[0] == "ctor" and term2[1] == path and isinstance(i, int):
                    sub = self.reduce(("proj", term2, path, i))
                else:
                    sub = ("proj", term2, path, i)
                rs = self.bind(q, sub, st)
                if not rs:
                    return []
                if rs[0][0] != "yes":
                    cert = "maybe"
                st = rs[0][1]
            st.log.append(("matched", term, path))
            return [(cert, st)]
        if k == "por":
            if pat_names(pat):
                raise Unsupported("or-pattern with bindings")
            any_yes = False
            feasible = False
            for q in pat[1]:
                rs = self.bind(q, term, st.copy())
                if rs:
                    feasible = True
                    if rs[0][0] == "yes":
                        any_yes = True
            if not feasible:
                return []
            return [("yes" if any_yes else "maybe", st)]
        if k == "lit":
            c = as_const(term)
            if c is not None and pat[1] == "int":
                return [("yes", st)] if c == pat[2] else []
            return [("maybe", st)]
        if k in ("prange",):
            return [("maybe", st)]
        raise Unsupported("pattern %s" % k)

    # ---- places -------------------------------------------------------------
    def place(self, e, st):
        """place descriptor of an lvalue expression: ('local', name) | ('field', base term, f) | ('index', place) |
        ('deref', term) | None for temporaries.  Evaluates sub-expressions for their value only (no forking)."""
        e = hirq.unmacro(e)
        if not is_node(e):
            return None
        k = e[0]
        if k == "local":
            return ("local", e[1])
        if k == "field":
            base = self.ev1(e[1], st)
            return ("field", base, e[2])
        if k == "index":
            return ("index", self.place(e[1], st))
        if k == "addr":
            return self.place(e[2], st)
        if k == "un" and e[1] == "Deref":
            inner = hirq.unmacro(e[2])
            if is_node(inner) and inner[0] == "local":
                return ("deref", inner[1])
            return self.place(inner, st)
        if k == "block" and not e[1] and e[2] is not None:
            return self.place(e[2], st)
        return None

    def havoc(self, st, pl, why=""):
        if pl is None:
            return
        if pl[0] == "local":
            n = st.vers.get(pl[1], 0) + 1
            st.vers[pl[1]] = n
            st.set(pl[1], ("obj", pl[1], n))
        elif pl[0] == "field":
            st.store[(pl[1], pl[2])] = self.fresh("havoc:" + pl[2])
        elif pl[0] == "index":
            self.havoc(st, pl[1], why)
        elif pl[0] == "deref":
            n = st.vers.get(pl[1], 0) + 1
            st.vers[pl[1]] = n
            st.set(pl[1], ("obj", pl[1], n))

    def write(self, st, pl, val, node):
        if pl is None:
            raise Unsupported("assignment to a temporary")
        if pl[0] == "local":
            st.set(pl[1], val)
            st.log.append(("setlocal", pl[1], val))
        elif pl[0] == "field":
            old = self.read_field(st, pl[1], pl[2])
            st.store[(pl[1], pl[2])] = val
            st.log.append(("fieldwrite", pl[1], pl[2], old, val))
        elif pl[0] == "index":
            self.havoc(st, pl[1])
            st.log.append(("indexwrite", pl[1], val))
        elif pl[0] == "deref":
            st.store[(st.get(pl[1]), "*")] = val
            st.log.append(("derefwrite", pl[1], val))

    def read_place(self, st, pl):
        if pl is None:
            return self.fresh("tmp")
        if pl[0] == "local":
            v = st.get(pl[1])
            return v if v is not None else ("free", pl[1])
        if pl[0] == "field":
            return self.read_field(st, pl[1], pl[2])
        if pl[0] == "deref":
            v = st.store.get((st.get(pl[1]), "*"))
            return v if v is not None else ("fld", st.get(pl[1]) or ("free", pl[1]), "*")
        return self.fresh("elem")

    # ---- expression evaluation ----------------------------------------------
    def ev1(self, e, st):
        """evaluate an expression that must not fork or exit (place bases, call receivers)"""
        outs = self.ev(e, st)
        if len(outs) != 1 or outs[0][0] is not st:
            if len(outs) == 1:
                # the state object may have been replaced only by copying; merge back
                s2, t = outs[0]
                st.env, st.store, st.pc, st.log, st.vers = s2.env, s2.store, s2.pc, s2.log, s2.vers
                return t
            raise Unsupported("branching inside a place/receiver expression (%s)" % hirq.render(e)[:60])
        return outs[0][1]

    def seq(self, exprs, st):
        """evaluate expressions left to right → [(st, [terms])]"""
        cur = [(st, [])]
        for e in exprs:
            nxt = []
            for (s, ts) in cur:
                for (s2, t) in self.ev(e, s):
                    nxt.append((s2, ts + [t]))
            cur = nxt
            if not cur:
                break
        return cur

    def binop(self, op, a, b):
        if op == "Add":
            return add(a, b)
        if op == "Sub":
            return sub(a, b)
        if op == "Mul":
            ca, cb = as_const(a), as_const(b)
            if ca is not None:
                return scale(b, ca)
            if cb is not None:
                return scale(a, cb)
            return ("nonlin", op, a, b)
        ca, cb = as_const(a), as_const(b)
        if op in ("Eq", "Ne", "Lt", "Le", "Gt", "Ge"):
            if ca is not None and cb is not None:
                v = {"Eq": ca == cb, "Ne": ca != cb, "Lt": ca < cb, "Le": ca <= cb, "Gt": ca > cb, "Ge": ca >= cb}[op]
                return ("lit", "bool", v)
            if a == b and op in ("Eq", "Le", "Ge"):
                return ("lit", "bool", True)
            return ("bin", op, a, b)
        if op in ("And", "Or"):
            for x, y in ((a, b), (b, a)):
                if x[0] == "lit" and x[1] == "bool":
                    if op == "And":
                        return y if x[2] else ("lit", "bool", False)
                    return ("lit", "bool", True) if x[2] else y
            return ("bin", op, a, b)
        return ("nonlin", op, a, b)

    def has_effects(self, e):
        for n in walk(e):
            if n[0] in ("assign", "assignop", "ret", "break", "continue", "loop", "closure"):
                return True
            if n[0] == "mcall" and len(n) > 6 and (n[6] or "").startswith("&mut"):
                if place_root(n[4]) is not None:
                    return True
            if n[0] == "addr" and n[1]:
                return True
        return False

    def ev(self, e, st):
        self.budget()
        if not is_node(e):
            raise Unsupported("non-node %r" % (e,))
        k = e[0]
        m = getattr(self, "ev_" + k, None)
        if m is None:
            raise Unsupported("HIR construct `%s`" % k)
        return m(e, st)

    def ev_lit(self, e, st):
        if e[1] == "int":
            return [(st, const(e[2]))]
        return [(st, ("lit", e[1], e[2]))]

    def ev_local(self, e, st):
        v = st.get(e[1])
        return [(st, v if v is not None else ("free", e[1]))]

    def ev_def(self, e, st):
        if e[1] in ("ctor", "variant", "struct"):
            return [(st, ("ctor", e[2], ()))]
        if e[1] == "const":
            for kk in self.c.items["consts"]:
                if kk["path"] == e[2] and isinstance(kk.get("value"), int) and not isinstance(kk.get("value"), bool):
                    return [(st, const(kk["value"]))]
        return [(st, ("defref", e[1], e[2]))]

    def ev_macro(self, e, st):
        name = e[1]
        if name == "desugar:ForLoop":
            parts = for_parts(e)
            if parts is None:
                raise Unsupported("for-loop desugaring of unexpected shape")
            return self.for_loop(e, st, *parts)
        if hirq.is_panic_body(e):
            return []
        return self.ev(e[2], st)

    def ev_block(self, e, st):
        st.env.append({})
        cur = [st]
        for s in e[1]:
            nxt = []
            for s0 in cur:
                for (s1, _t) in self.ev(s, s0):
                    nxt.append(s1)
            cur = nxt
            if not cur:
                break
        outs = []
        for s0 in cur:
            if e[2] is not None:
                outs += self.ev(e[2], s0)
            else:
                outs.append((s0, ("tup", ())))
        for (s1, _t) in outs:
            if len(s1.env) > 1:
                s1.env.pop()
        # exits recorded inside keep their deeper scope chain: harmless (locals are looked up innermost-first)
        return outs

    def ev_let(self, e, st):
        pat, init, els = e[1], e[2], e[3]
        if init is None:
            for n in pat_names(pat):
                st.declare(n, ("uninit", n))
            return [(st, ("tup", ()))]
        outs = []
        for (s, t) in self.ev(init, st):
            if els is not None:
                s_else = s.copy()
                rs = self.bind(pat, t, s)
                if rs:
                    outs.append((rs[0][1], ("tup", ())))
                if not rs or rs[0][0] != "yes":
                    if self.ev(els, s_else):
                        raise Unsupported("let-else whose else block does not diverge")
                continue
            rs = self.bind(pat, t, s)
            if not rs:
                continue        # irrefutable in Rust; an impossible shape means a dead path
            outs.append((rs[0][1], ("tup", ())))
        return outs

    def ev_tup(self, e, st):
        return [(s, ("tup", tuple(ts))) for (s, ts) in self.seq(e[1], st)]

    def ev_array(self, e, st):
        return [(s, ("array", tuple(ts))) for (s, ts) in self.seq(e[1], st)]

    def ev_addr(self, e, st):
        return self.ev(e[2], st)

    def ev_cast(self, e, st):
        outs = []
        for (s, t) in self.ev(e[1], st):
            if e[2] in INT_TYPES:
                outs.append((s, t))      # int→int casts keep the value (truncation is out of scope, see manifest)
            else:
                outs.append((s, ("cast", t, e[2])))
        return outs

    def ev_un(self, e, st):
        outs = []
        for (s, t) in self.ev(e[2], st):
            if e[1] == "Deref":
                if is_node(hirq.unmacro(e[2])) and hirq.unmacro(e[2])[0] == "local":
                    v = s.store.get((t, "*"))
                    outs.append((s, v if v is not None else t))
                else:
                    outs.append((s, t))
            elif e[1] == "Not":
                if t[0] == "lit" and t[1] == "bool":
                    outs.append((s, ("lit", "bool", not t[2])))
                elif t[0] == "un" and t[1] == "Not":
                    outs.append((s, t[2]))
                else:
                    outs.append((s, ("un", "Not", t)))
            elif e[1] == "Neg":
                outs.append((s, scale(t, -1)))
            else:
                outs.append((s, ("un", e[1], t)))
        return outs

    def ev_bin(self, e, st):
        op = e[1]
        outs = []
        if op in ("And", "Or") and self.has_effects(e[3]):
            for (s, a) in self.ev(e[2], st):
                if a[0] == "lit" and a[1] == "bool":
                    if (op == "And") == bool(a[2]):
                        outs += self.ev(e[3], s)
                    else:
                        outs.append((s, a))
                    continue
                s_short = s.copy()
                s_short.pc.append((a, op == "Or"))
                outs.append((s_short, ("lit", "bool", op == "Or")))
                s.pc.append((a, op == "And"))
                outs += self.ev(e[3], s)
            return outs
        for (s, ts) in self.seq([e[2], e[3]], st):
            outs.append((s, self.binop(op, ts[0], ts[1])))
        return outs

    def ev_field(self, e, st):
        outs = []
        for (s, b) in self.ev(e[1], st):
            outs.append((s, self.read_field(s, b, e[2])))
        return outs

    def ev_index(self, e, st):
        outs = []
        for (s, ts) in self.seq([e[1], e[2]], st):
            s.log.append(("index", ts[0], ts[1]))
            outs.append((s, ("idx", ts[0], ts[1])))
        return outs

    def ev_struct(self, e, st):
        path = hirq.def_path(e[1])
        names = [f[0] for f in e[2]]
        outs = []
        exprs = [f[1] for f in e[2]] + ([e[3]] if len(e) > 3 and e[3] is not None else [])
        for (s, ts) in self.seq(exprs, st):
            fields = list(zip(names, ts[:len(names)]))
            if len(ts) > len(names):
                fields.append(("..", ts[-1]))
            outs.append((s, ("rec", path, tuple(fields))))
        return outs

    def ev_closure(self, e, st):
        return [(st, ("closure", e[1]))]

    def ev_assign(self, e, st):
        outs = []
        for (s, v) in self.ev(e[2], st):
            pl = self.place(e[1], s)
            self.write(s, pl, v, e)
            outs.append((s, ("tup", ())))
        return outs

    def ev_assignop(self, e, st):
        op = e[1][:-6] if e[1].endswith("Assign") else e[1]
        outs = []
        for (s, v) in self.ev(e[3], st):
            pl = self.place(e[2], s)
            old = self.read_place(s, pl)
            self.write(s, pl, self.binop(op, old, v), e)
            outs.append((s, ("tup", ())))
        return outs

    def ev_ret(self, e, st):
        if e[1] is None:
            self.exit("ret", st, ("tup", ()))
            return []
        for (s, t) in self.ev(e[1], st):
            self.exit("ret", s, t)
        return []

    def ev_break(self, e, st):
        if e[1] is None:
            self.exit("break", st, ("tup", ()))
            return []
        for (s, t) in self.ev(e[1], st):
            self.exit("break", s, t)
        return []

    def ev_continue(self, e, st):
        self.exit("continue", st, ("tup", ()))
        return []

    # ---- control flow ---------------------------------------------------------
    def assume(self, st, cond, pol):
        while cond[0] == "un" and cond[1] == "Not":
            cond, pol = cond[2], not pol
        st.pc.append((cond, pol))

    def ev_if(self, e, st):
        cond, then, els = e[1], e[2], e[3]
        outs = []
        cu = hirq.unmacro(cond)
        if is_node(cu) and cu[0] == "letx":
            for (s, t) in self.ev(cu[2], st):
                s_else = s.copy()
                s.env.append({})
                rs = self.bind(cu[1], t, s)
                if rs:
                    for (s2, v) in self.ev(then, rs[0][1]):
                        if len(s2.env) > 1:
                            s2.env.pop()
                        outs.append((s2, v))
                if not rs or rs[0][0] != "yes":
                    if els is not None:
                        outs += self.ev(els, s_else)
                    else:
                        outs.append((s_else, ("tup", ())))
            return outs
        if any(n[0] == "letx" for n in walk(cond, closures=False)):
            raise Unsupported("let-chain condition")
        for (s, t) in self.ev(cond, st):
            if t[0] == "lit" and t[1] == "bool":
                if t[2]:
                    outs += self.ev(then, s)
                elif els is not None:
                    outs += self.ev(els, s)
                else:
                    outs.append((s, ("tup", ())))
                continue
            s2 = s.copy()
            self.assume(s, t, True)
            outs += self.ev(then, s)
            self.assume(s2, t, False)
            if els is not None:
                outs += self.ev(els, s2)
            else:
                outs.append((s2, ("tup", ())))
        return outs

    def ev_match(self, e, st):
        outs = []
        for (s, t) in self.ev(e[1], st):
            live = s
            for arm in e[2]:
                pat, guard, body = arm[0], arm[1], arm[2]
                s_arm = live.copy()
                s_arm.env.append({})
                rs = self.bind(pat, t, s_arm)
                if not rs:
                    continue
                cert, s_arm = rs[0]
                if guard is not None:
                    gouts = self.ev(guard, s_arm)
                    cert = "maybe"
                else:
                    gouts = [(s_arm, None)]
                for (s_g, _g) in gouts:
                    for (s2, v) in self.ev(body, s_g):
                        if len(s2.env) > 1:
                            s2.env.pop()
                        outs.append((s2, v))
                if cert == "yes":
                    break
        return outs

    def ev_letx(self, e, st):
        raise Unsupported("`let` pattern outside an `if`/`while` condition")

    # ---- loops ------------------------------------------------------------------
    def loop_effects(self, node, st):
        """(assigned local names, mutated places, contains `ret`) of a loop — syntactic"""
        assigned, places, has_ret = set(), [], False
        for n in walk(node):
            if n[0] in ("assign", "assignop"):
                lhs = n[1] if n[0] == "assign" else n[2]
                lu = hirq.unmacro(lhs)
                if is_node(lu) and lu[0] == "local":
                    assigned.add(lu[1])
                else:
                    places.append(lhs)
            elif n[0] == "mcall" and len(n) > 6 and (n[6] or "").startswith("&mut"):
                places.append(n[4])
            elif n[0] == "addr" and n[1]:
                places.append(n[2])
            elif n[0] == "ret":
                has_ret = True
        return assigned, places, has_ret

    def generic_state(self, node, st, declared=()):
        """state describing the entry of *any* iteration (and the loop exit): everything the loop may change is
        havocked"""
        assigned, places, has_ret = self.loop_effects(node, st)
        declared_inside = set()
        for n in walk(node):
            if n[0] == "let":
                declared_inside.update(pat_names(n[1]))
            elif n[0] == "match":
                for arm in n[2]:
                    declared_inside.update(pat_names(arm[0]))
            elif n[0] == "letx":
                declared_inside.update(pat_names(n[1]))
        for name in sorted(assigned):
            if st.get(name) is not None:
                st.set(name, self.fresh("loop:" + name))
        for p in places:
            root = place_root(p)
            if root is None:
                continue
            if st.get(root) is None and root in declared_inside:
                continue                      # a place local to the loop body
            pu = hirq.unmacro(p)
            while is_node(pu) and pu[0] in ("addr",):
                pu = hirq.unmacro(pu[2])
            if is_node(pu) and pu[0] == "field":
                inner = hirq.unmacro(pu[1])
                if place_root(inner) is not None and all(x[0] in ("local", "field", "un", "addr") for x in walk(inner)):
                    try:
                        base = self.ev1(inner, st)
                        st.store[(base, pu[2])] = self.fresh("loop:" + pu[2])
                        continue
                    except Unsupported:
                        pass
            self.havoc(st, ("local", root))
        return has_ret

    def summarise_loop(self, node, kind, st, parts, it_term=None):
        self.check_loop(node, kind, st, parts)
        has_ret = self.generic_state(node, st)
        self.loops.append((node, kind, st.copy(), parts, it_term))
        if has_ret:
            self.exit("ret", st.copy(), self.fresh("ret-in-loop"))
        return [(st, self.fresh("loopval") if kind == "Loop" else ("tup", ()))]

    def check_loop(self, node, kind, st, parts):
        """hook: rules raise Unsupported for loops they must not summarise"""

    def for_loop(self, node, st, it, pat, body):
        outs = []
        for (s, t) in self.ev(it, st):
            outs += self.summarise_loop(node, "For", s, (it, pat, body), t)
        return outs

    def ev_loop(self, e, st):
        kind = e[1]
        if kind == "While":
            parts = while_parts(e)
            if parts is None:
                raise Unsupported("while-loop desugaring of unexpected shape")
            return self.summarise_loop(e, "While", st, parts)
        return self.summarise_loop(e, "Loop", st, (e[2],))

    def iterate(self, loop, st=None, bind_term=None):
        """evaluate ONE iteration of a recorded loop from its generic entry state →
        (paths that reach the end of the body / `continue`, exits [(kind, st, term)])"""
        node, kind, gst, parts, _it = loop
        st = (st or gst).copy()
        self.frames.append([])
        try:
            if kind == "For":
                _itx, pat, body = parts
                st.env.append({})
                rs = self.bind(pat, bind_term if bind_term is not None else self.fresh("item"), st)
                outs = self.ev(body, rs[0][1]) if rs else []
            elif kind == "While":
                cond, body = parts
                outs = self.ev(["if", cond, body, ["block", [["break", None]], None]], st)
            else:
                outs = self.ev(parts[0], st)
            exits = self.frames[-1]
        finally:
            self.frames.pop()
        cont = [s for (s, _t) in outs] + [s for (k, s, _t) in exits if k == "continue"]
        rest = [(k, s, t) for (k, s, t) in exits if k != "continue"]
        return cont, rest

    # ---- calls ----------------------------------------------------------------------
    def impl_method(self, trait_method, recv_ty):
        """resolve a trait-method declaration path + receiver type to the impl method path (in-crate impls only)"""
        if self._impl_index is None:
            idx = {}
            for im in self.c.items["impls"]:
                if im["trait"]:
                    for (name, path) in im["methods"]:
                        idx[(strip_generics(im["trait"]), name, strip_generics(im["self_ty"]))] = path
            self._impl_index = idx
        if "::" not in trait_method:
            return None
        tr, name = trait_method.rsplit("::", 1)
        return self._impl_index.get((strip_generics(tr), name, strip_generics(strip_ref(recv_ty))))

    def resolve(self, path, recv_ty):
        if path is None:
            return None
        p = self.impl_method(path, recv_ty) if recv_ty else None
        if p and p in self.c.hir:
            return p
        if path in self.c.hir:
            return path
        return None

    def ev_call(self, e, st):
        callee = e[2]
        cu = hirq.unmacro(callee)
        if is_node(cu) and cu[0] == "def":
            if cu[1] in ("ctor", "variant", "struct"):
                return [(s, ("ctor", cu[2], tuple(ts))) for (s, ts) in self.seq(e[3], st)]
            return self.do_call(e, st, cu[2], None, None, e[3])
        return self.do_call(e, st, None, None, None, [callee] + list(e[3]))

    def ev_mcall(self, e, st):
        return self.do_call(e, st, e[2] or ("?." + e[3]), e[4], e[6] if len(e) > 6 else None, e[5])

    def do_call(self, node, st, path, recv, recv_ty, args):
        exprs = ([recv] if recv is not None else []) + list(args)
        if path is not None and path.startswith(DIVERGE_PREFIX):
            return []
        outs = []
        for (s, ts) in self.seq(exprs, st):
            outs += self.apply(node, s, path, recv, recv_ty, args, ts)
        return outs

    def apply(self, node, s, path, recv, recv_ty, args, ts):
        first = ts[0] if ts else None
        if path in IDENTITY and first is not None:
            return [(s, first)]
        if path in TRY_CONV and first is not None:
            return [(s, ("ctor", OK, (first,)))]
        if path in UNWRAP and first is not None:
            if first[0] == "ctor" and first[1] in (SOME, OK):
                return [(s, first[2][0])]
            if first[0] == "failure" or (first[0] == "ctor" and first[1] in (NONE, ERR)):
                return []       # panics
            return [(s, ("app", "unwrap", (first,)))]
        if path == TRY_BRANCH:
            return [(s, ("branch", first))]
        if path == FROM_RESIDUAL:
            x = first[1] if first[0] == "residual" else first
            while x[0] == "failure":
                x = x[1]
            return [(s, ("failure", x))]
        # mutable receivers / arguments
        mut_places = []
        if recv is not None and (recv_ty or "").startswith("&mut"):
            mut_places.append(self.place(recv, s))
        for a in args:
            au = hirq.unmacro(a)
            if is_node(au) and au[0] == "addr" and au[1]:
                mut_places.append(self.place(au[2], s))
        target = self.resolve(path, recv_ty)
        r = self.call_hook(node, s, path, target, recv, recv_ty, args, ts, mut_places)
        if r is not None:
            return r
        if target is not None and not [p for p in mut_places if p is not None] and self.depth < self.max_depth \
                and self.inline_pred(target) and self.inlinable(target):
            got = self.inline(target, s, ts)
            if got is not None:
                return got
        res = ("app", path or "?", tuple(ts))
        s.log.append(("call", path, target, tuple(ts), res, tuple(p for p in mut_places if p is not None)))
        for p in mut_places:
            self.mutate(s, p, path, target, node)
        return [(s, res)]

    def mutate(self, st, pl, path, target, node):
        self.havoc(st, pl)

    def call_hook(self, node, st, path, target, recv, recv_ty, args, ts, mut_places):
        """rules may return a list of outcomes to override the default treatment"""
        return None

    def inlinable(self, target):
        fb = self.c.hir.get(target)
        if fb is None:
            return False
        for (_pat, ty) in fb["params"]:
            if ty.startswith("&mut") or "&mut " in ty:
                return False
        return True

    def inline(self, target, s, ts):
        fb = self.c.hir[target]
        if len(fb["params"]) != len(ts):
            return None
        snap = (s.copy(), self.nsym, self.paths)
        saved_env = s.env
        s.env = [{}]
        self.depth += 1
        nloops = len(self.loops)
        try:
            for (pat, _ty), t in zip(fb["params"], ts):
                rs = self.bind(pat, t, s)
                if not rs:
                    raise Unsupported("parameter pattern")
                s = rs[0][1]
            res = self.run_body(fb["body"], s)
        except Unsupported:
            s0 = snap[0]
            s.env, s.store, s.pc, s.log, s.vers = s0.env, s0.store, s0.pc, s0.log, s0.vers
            del self.loops[nloops:]
            return None
        finally:
            self.depth -= 1
        outs = []
        for (s2, t) in res:
            s2.env = [dict(d) for d in saved_env]
            outs.append((s2, t))
        return outs

"""C02 — both code generators agree; every run ends in a defined way.

R1  baseline: every unsafe-looking primitive is dominated by its run-time check (MIR dominators)
R2  optimizing compiler: the same checks are appended before the guarded instruction (Dora tree)
R3  handler coverage, R4 ABI mirror, R5 inverse table pairs, R7 native signatures  (rules/c02_tables.py)
Not decided: that a check computes the right condition for every value, nor output equality.
"""
import cfg
import doraq
import hirq
from callgraph import CallGraph

CC = "dora_cannon_compiler::"
GEN = CC + "codegen::CannonCodeGen::<'a, 'i>::"
ASM = CC + "asm::BaselineAssembler::<'a>::"


def last(p):
    return p.rsplit("::", 1)[-1]


# frozen exception (one line of reason): the `unsafe_kill_refs` intrinsic is unchecked by contract; its Dora
# declaration is std-internal (not `pub`), so user programs cannot call it — side condition verified below.
UNCHECKED_BY_CONTRACT = {"emit_intrinsic_unsafe_kill_refs": "std::unsafe_kill_refs"}


def rule_r1(chk, F):
    r = chk.rule("C02.R1", "baseline compiler: array element access is dominated by nil and bounds checks, shifts by "
                           "the shift-amount check, checked arithmetic/division uses the trapping primitive, object "
                           "field access by a nil check")
    c = F.crate("dora_cannon_compiler")
    cg = CallGraph(F, libs=["dora_cannon_compiler"], bins=[])
    n_arr = n_shift = n_chk = 0
    bail = {p for p in cg.bodies if last(p) in ("emit_bailout", "bailout_if") and "MacroAssembler" in p}
    r.anchor("MacroAssembler::emit_bailout/bailout_if", bail)
    for p in sorted(cg.bodies):
        if not p.startswith(GEN) or "{closure" in p:
            continue
        B = cg.body(p)
        idx = [x for x in B.calls if x.name == ASM + "check_index_out_of_bounds"]
        nil = [x for x in B.calls if x.name == ASM + "test_if_nil_bailout"]
        sh = [x for x in B.calls if x.name == GEN + "check_shift_amount"]
        for x in B.calls:
            if x.name in (ASM + "array_address", ASM + "load_array_elem"):
                n_arr += 1
                key = "%s:%s" % (p, last(x.name))
                ok_i = any(B.dominates(g.block, x.block) for g in idx)
                ok_n = any(B.dominates(g.block, x.block) for g in nil)
                exempt = UNCHECKED_BY_CONTRACT.get(last(p))
                r.instance(key + "@%d" % x.line, sample={"fn": p, "site": x.where(), "bounds": ok_i, "nil": ok_n,
                                                        "exempt": exempt})
                if exempt:
                    continue
                if not ok_i:
                    r.violation(key + ":no-bounds-check",
                                "an array element address is computed without a dominating "
                                "check_index_out_of_bounds: an out-of-range index reads/writes outside the array "
                                "instead of trapping", x.where())
                if not ok_n:
                    r.violation(key + ":no-nil-check", "array element access without a dominating nil check",
                                x.where())
            if x.name in (ASM + "int_shl", ASM + "int_shr", ASM + "int_sar"):
                n_shift += 1
                key = "%s:%s" % (p, last(x.name))
                ok = any(B.dominates(g.block, x.block) for g in sh)
                r.instance(key, sample={"fn": p, "site": x.where(), "checked": ok})
                if not ok:
                    r.violation(key + ":no-shift-amount-check",
                                "a shift is emitted without check_shift_amount: an out-of-range amount is masked by "
                                "the hardware instead of trapping", x.where())
    r.floor("array element access sites", n_arr, 7)
    r.floor("shift sites", n_shift, 3)
    # side condition of the frozen exception
    D = F.dora()
    import re
    for fn, dpath in UNCHECKED_BY_CONTRACT.items():
        name = dpath.split("::")[-1]
        decl = None
        for f, t in D.items():
            if not f.startswith("pkgs/std/"):
                continue
            for d in doraq.functions(t, f):
                if d.name == name:
                    decl = d
        r.instance("exception:%s:declaration-not-public" % name)
        if decl is None:
            r.violation("exception:%s:declaration-missing" % name, "cannot find the Dora declaration", "pkgs/std")
        elif any(m == "pub" for m in decl.mods):
            r.violation("exception:%s:declaration-public" % name,
                        "%s is exempt from the bounds-check rule only because user programs cannot call it; it is "
                        "now `pub`" % dpath, decl.where())
    # check_shift_amount traps
    csa = cg.body(GEN + "check_shift_amount")
    if r.anchor(GEN + "check_shift_amount", csa):
        r.instance("check_shift_amount→bailout(SHIFT)")
        if not (cg.reachable_from([GEN + "check_shift_amount"]) & bail):
            r.violation(GEN + "check_shift_amount:no-bailout", "the shift check never traps", csa.file)
        txt = repr(c.hir.get(GEN + "check_shift_amount", {}).get("body"))
        if "Trap::SHIFT" not in txt:
            r.violation(GEN + "check_shift_amount:wrong-trap", "must bail out with Trap::SHIFT", csa.file)
    # checked arithmetic
    table = {"emit_checked_add": ("int_add_checked", "int_add"), "emit_checked_sub": ("int_sub_checked", "int_sub"),
             "emit_checked_mul": ("int_mul_checked", "int_mul"), "emit_checked_neg": ("int_neg_checked", "int_neg"),
             "emit_checked_div": ("int_div_checked", None), "emit_checked_mod": ("int_mod_checked", None)}
    for fn, (good, bad) in sorted(table.items()):
        B = cg.body(GEN + fn)
        if not r.anchor(GEN + fn, B):
            continue
        n_chk += 1
        g = [x for x in B.calls if x.name == ASM + good]
        b = [x for x in B.calls if bad and x.name == ASM + bad]
        r.instance("%s→%s" % (fn, good), sample={"fn": fn, "calls": [last(x.name) for x in g + b]})
        if not g or not B.postdominates(g[0].block, 0):
            r.violation(GEN + fn + ":no-trapping-primitive",
                        "%s must go through %s on every path (overflow must trap)" % (fn, good), B.file)
        if b:
            r.violation(GEN + fn + ":wrapping-primitive",
                        "%s calls the wrapping primitive %s: an overflow silently wraps instead of trapping" % (fn, bad),
                        b[0].where())
        if not (cg.reachable_from([ASM + good]) & bail):
            r.violation(ASM + good + ":never-traps", "%s never reaches a bailout" % good, ASM + good)
    r.floor("checked arithmetic emitters", n_chk, 6)
    # the visitor dispatches checked opcodes to the checked emitters
    for op in ("add", "sub", "mul", "neg", "div", "mod"):
        v = [p for p in cg.bodies if p.endswith("BytecodeVisitor>::visit_checked_%s" % op) and "CannonCodeGen" in p]
        if not r.anchor("visit_checked_%s" % op, v):
            continue
        r.instance("visit_checked_%s→emit_checked_%s" % (op, op))
        if GEN + "emit_checked_%s" % op not in cg.reachable_from(v):
            r.violation(v[0] + ":wrong-emitter", "visit_checked_%s does not reach emit_checked_%s" % (op, op), v[0])
    # every division primitive traps on zero
    for p in sorted(cg.bodies):
        if p.startswith(ASM) and last(p).startswith(("int_div", "int_mod")):
            r.instance("%s→bailout" % last(p))
            if not (cg.reachable_from([p]) & bail):
                r.violation(p + ":never-traps", "%s never reaches a bailout (division by zero must trap)" % last(p), p)
    # object field access: nil check dominates
    for fn, prim in (("emit_load_field", "load_field"), ("emit_store_field", "store_field")):
        B = cg.body(GEN + fn)
        if not r.anchor(GEN + fn, B):
            continue
        nil = [x for x in B.calls if x.name == ASM + "test_if_nil_bailout"]
        acc = [x for x in B.calls if x.name and x.name.startswith(ASM) and last(x.name) in (
            prim, "load_mem", "store_mem", "copy_bytecode_ty", "copy_tuple", "copy_struct")]
        r.instance("%s:nil-check" % fn, sample={"accesses": len(acc), "nil_checks": len(nil)})
        for a in acc:
            if last(a.name) == prim and not any(B.dominates(n.block, a.block) for n in nil):
                r.violation(GEN + fn + ":no-nil-check",
                            "a field of a possibly-nil receiver is accessed without test_if_nil_bailout", a.where())


ACCESS_CREATORS = ("graph::create_load_array_inst", "graph::create_store_array_inst",
                   "graph::create_store_array_wb_inst", "graph::create_get_element_ptr_inst")
BOUNDS = "graph::create_check_array_bounds_inst"


def rule_r2(chk, F):
    r = chk.rule("C02.R2", "optimizing compiler: array element access instructions are created only after a "
                           "CheckArrayBounds instruction (in the function or in every caller of the helper); shifts "
                           "get a shift-amount check, division a zero check; checked opcodes map to Op::Checked*")
    D = F.dora()
    files = ["pkgs/boots/bytecode_graph_builder.dora", "pkgs/boots/bytecode_graph_builder/intrinsics.dora"]
    fns = {}
    for f in files:
        t = D.get(f)
        if not r.anchor(f, t):
            return
        for fn in doraq.functions(t, f):
            if fn.body is not None:
                fns.setdefault(fn.name, fn)

    def calls_of(fn):
        return list(doraq.calls(fn.body))

    def guarded(fn_name, line, seen=()):
        """is the program point (fn, line) preceded by a bounds check on every way to reach it?"""
        fn = fns[fn_name]
        cs = calls_of(fn)
        if any(c.callee == BOUNDS and c.line < line for c in cs):
            return True, None
        if "unsafe_kill_refs" in fn_name:
            return True, None      # unchecked by contract (see UNCHECKED_BY_CONTRACT; declaration is not pub)
        if fn_name in seen:
            return False, fn_name
        callers = []
        for gname, g in fns.items():
            for c in calls_of(g):
                if c.callee in ("self." + fn_name,) or c.callee.endswith("." + fn_name) and c.callee.startswith("self"):
                    callers.append((gname, c.line))
        if not callers:
            return False, fn_name
        for (gname, gl) in callers:
            ok, why = guarded(gname, gl, seen + (fn_name,))
            if not ok:
                return False, why or gname
        return True, None

    n = 0
    for name, fn in sorted(fns.items()):
        for c in calls_of(fn):
            if c.callee in ACCESS_CREATORS:
                n += 1
                key = "%s:%s" % (fn.qual, c.callee.split("::")[-1])
                exempt = name in ("emit_intrinsic_unsafe_kill_refs",) or "unsafe_kill_refs" in name
                ok, why = guarded(name, c.line)
                # freshly allocated arrays initialised element by element with a known length
                fresh = not ok and any(x.callee.endswith("emit_new_array") or "create_allocate" in x.callee
                                       or x.callee.endswith("allocate_array") for x in calls_of(fns.get(why, fn)))
                r.instance(key + "@%d" % c.line, sample={"fn": fn.qual, "creator": c.callee, "guarded": ok,
                                                        "unguarded_entry": why})
                if ok or exempt:
                    continue
                if fresh:
                    r.observe("%s: element access on an array allocated in the same function (%s)" % (fn.qual, why))
                    continue
                r.violation(key + ":no-bounds-check",
                            "%s creates an array element access without a preceding CheckArrayBounds (unguarded "
                            "entry: %s)" % (fn.qual, why), "%s:%d" % (fn.file, c.line))
    r.floor("element access creators (boots)", n, 6)
    # shifts / division
    for name, creator, what in (("emit_shift", "graph::create_check_shift_amount_inst", "shift amount"),
                                ("emit_div_mod", "graph::create_check_div_zero_inst", "division by zero")):
        fn = fns.get(name)
        if not r.anchor("boots " + name, fn):
            continue
        cs = calls_of(fn)
        r.instance("%s:%s" % (name, creator.split("::")[-1]))
        chk_l = [c.line for c in cs if c.callee == creator]
        app = [c for c in cs if c.callee.endswith("append_inst")]
        if not chk_l:
            r.violation("pkgs/boots/bytecode_graph_builder.dora::%s:no-check" % name,
                        "%s no longer creates the %s check" % (name, what), fn.where())
        elif not any(a.line >= chk_l[0] and "check" in (a.arg_text(0) or "") for a in app):
            r.violation("pkgs/boots/bytecode_graph_builder.dora::%s:check-not-appended" % name,
                        "the %s check instruction is created but never appended to the block" % what, fn.where())
    # opcode → Op mapping for checked arithmetic
    t = D[files[0]]
    txt = doraq.text(t)
    for variant, op in (("CheckedAdd", "Op::CheckedAdd"), ("CheckedSub", "Op::CheckedSub"),
                        ("CheckedMul", "Op::CheckedMul"), ("CheckedNeg", "Op::CheckedNeg"),
                        ("CheckedDiv", "Op::CheckedDiv"), ("CheckedMod", "Op::CheckedMod")):
        arms = []
        for m in doraq.walk(t):
            if m[0] == "MATCH_ARM":
                ns = doraq.nodes(m)
                if ns and doraq.text(ns[0]).startswith("BytecodeInstruction::%s(" % variant):
                    arms.append(m)
        r.instance("boots:%s→%s" % (variant, op))
        if not arms:
            r.violation("pkgs/boots/bytecode_graph_builder.dora:%s:no-arm" % variant, "no arm for %s" % variant,
                        files[0])
            continue
        body = doraq.text(doraq.nodes(arms[0])[-1])
        if op not in body:
            r.violation("pkgs/boots/bytecode_graph_builder.dora:%s:not-%s" % (variant, op),
                        "BytecodeInstruction::%s is lowered to `%s` instead of %s (overflow would wrap silently)" % (
                            variant, body[:60], op), "%s:%d" % (files[0], arms[0][1]))
    # both boots back ends lower every Checked*/Check* op with a trap
    for f in ("pkgs/boots/codegen/x64.dora", "pkgs/boots/codegen/arm64.dora"):
        t = D.get(f)
        if not r.anchor(f, t):
            continue
        traps = 0
        ffns = {fn.name: fn for fn in doraq.functions(t, f) if fn.body is not None}

        def reaches_trap(name, seen=()):
            fn = ffns.get(name)
            if fn is None or name in seen:
                return False
            for c in doraq.calls(fn.body):
                if c.callee == "self.trap" or "TrapTrampoline" in doraq.text(c.node):
                    return True
            for c in doraq.calls(fn.body):
                if c.callee.startswith("self.") and c.callee.count(".") == 1:
                    if reaches_trap(c.callee[5:], seen + (name,)):
                        return True
            return False
        for nm, fn in sorted(ffns.items()):
            if nm.startswith("emit_check"):
                traps += 1
                r.instance("%s::%s:traps" % (f, nm))
                if not reaches_trap(nm):
                    r.violation("%s::%s:no-trap" % (f, nm),
                                "%s lowers a checking instruction without reaching self.trap(..)" % nm, fn.where())
        r.floor("%s check lowerings" % f, traps, 4)


def rule_r9(chk, F):
    r = chk.rule("C02.R9", "three-way comparison (Ordering) lowering: both x64 code generators use the same 'less' "
                           "condition per compare width — signed Less for cmpq/cmpl, unsigned Below for cmpb (UInt8 "
                           "is the only 8-bit ordered type)")
    cc = F.crate("dora_cannon_compiler")
    co = None
    for p, b in cc.hir.items():
        if p.endswith("MacroAssembler>::cmp_ordering"):
            co = b
    rust = {}
    if r.anchor("x64 MacroAssembler::cmp_ordering", co):
        for n in hirq.walk(co["body"]):
            if n[0] == "match":
                for (pat, g, arm) in hirq.match_arms(n):
                    cmps = [cs.name for cs in hirq.calls(arm) if cs.is_method and cs.name.startswith("cmp")]
                    conds = [last(x[2]) for x in hirq.walk(arm) if x[0] == "def" and "::Condition::" in x[2]]
                    if cmps and conds:
                        rust[cmps[0]] = conds[-1]
    D = F.dora()
    f = "pkgs/boots/codegen/x64.dora"
    t = D.get(f)
    dora = {}
    if r.anchor(f, t):
        fn = [x for x in doraq.functions(t, f) if x.name == "emit_compare_ordering" and x.body is not None]
        if r.anchor("boots x64 emit_compare_ordering", fn):
            for m in doraq.walk(fn[0].body):
                if m[0] != "MATCH_ARM":
                    continue
                ns = doraq.nodes(m)
                cs = list(doraq.calls(ns[-1]))
                cmps = [c.name for c in cs if c.callee.startswith("self.asm.cmp")]
                jcc = [c for c in cs if c.callee == "self.asm.jcc"]
                if cmps and jcc:
                    dora[cmps[0]] = (jcc[0].arg_text(0) or "").split("::")[-1]
    r.floor("compare widths (cannon)", len(rust), 3)
    for insn in sorted(set(rust) | set(dora)):
        if insn not in rust or insn not in dora:
            r.observe("%s handled by one generator only (cannon=%s boots=%s)" % (insn, rust.get(insn), dora.get(insn)))
            continue
        r.instance("cmp_ordering:%s" % insn, sample={"insn": insn, "cannon": rust[insn], "boots": dora[insn]})
        if rust[insn] != dora[insn]:
            r.violation("cmp_ordering:%s:cannon-%s-vs-boots-%s" % (insn, rust[insn], dora[insn]),
                        "after `%s` the baseline compiler branches on Condition::%s, the optimizing compiler on "
                        "Condition::%s: the two generators order the same operands differently (e.g. 200u8.cmp(100u8) "
                        "is Greater under one and Less under the other)" % (insn, rust[insn], dora[insn]), f)
    want = {"cmpb_rr": "Below"}
    for insn, cond in want.items():
        # ISA fact (one frozen line): an 8-bit ordered compare in Dora is always unsigned (UInt8); `Less` tests SF!=OF
        for side, table in (("cannon", rust), ("boots", dora)):
            if insn in table:
                r.instance("cmp_ordering:%s:%s-unsigned" % (insn, side))
                if table[insn] != cond:
                    r.violation("cmp_ordering:%s:%s-uses-signed-condition" % (insn, side),
                                "%s compares UInt8 operands with the signed condition %s" % (side, table[insn]), f)


def rule_r10(chk, F):
    """Float constants are data, not numbers, inside a code generator: `imm == 0.0` is also true for -0.0 and
    `imm != imm` for NaN, so an encoding selected by IEEE comparison materialises a different constant than the
    one the program wrote — and the other code generator does not."""
    r = chk.rule("C02.R10", "the Rust code generators never select an encoding by IEEE equality on a float value "
                            "(`==`/`!=` on f32/f64): float immediates are special-cased by bit pattern only")
    nfn = 0
    sites = 0
    for cn in ("dora_cannon_compiler", "dora_asm", "dora_compiler", "dora_boots_compiler"):
        c = F.crate(cn)
        for pth, mb in sorted(c.mir.items()):
            if "::tests" in pth:
                continue
            nfn += 1
            B = cfg.Body(mb)
            for blk in B.blocks:
                for st in blk["s"]:
                    if not (st[0] == "a" and st[2][0] == "bin" and st[2][1] in ("Eq", "Ne")):
                        continue
                    tys = []
                    for o in st[2][2:4]:
                        if o[0] in ("c", "m") and not o[1][1]:
                            tys.append(B.local_ty(o[1][0]))
                        elif o[0] == "k":
                            tys.append(o[1].get("ty"))
                    if not any(t in ("f32", "f64") for t in tys):
                        continue
                    sites += 1
                    key = "%s:float-%s" % (pth, st[2][1].lower())
                    r.instance(key, sample={"fn": pth, "line": st[3]})
                    r.violation(key + ":ieee-comparison-selects-code",
                                "IEEE `%s` on a float inside a code generator: -0.0 == 0.0 (and NaN != NaN), so the "
                                "special case also fires for a constant with a different bit pattern — e.g. "
                                "`let x = -0f64; 1.0 / x` yields inf with this generator and -inf with the other" % (
                                    "==" if st[2][1] == "Eq" else "!="), "%s:%d" % (B.file, st[3]))
    r.floor("code-generator functions scanned", nfn, 1800)
    r.instance("scan:float-equality-sites", sample={"functions": nfn, "sites": sites})


def rule_r11(chk, F):
    """emit_inst dispatches on the instruction's opcode and hands the instruction to a handler.  Inside the handler
    the opcode of that same instruction is already known; a test of it against opcodes the handler is never called
    for is a confused variable (the author meant an *input* instruction), and a match on it whose default arm panics
    without covering the dispatched opcodes aborts the compiler for every such instruction."""
    import doraq
    import re
    r = chk.rule("C02.R11", "boots back ends: inside a handler that emit_inst dispatches for opcode set S, every test "
                            "of the dispatched instruction's own opcode mentions only opcodes in S")
    D = F.dora()
    f0 = "pkgs/boots/codegen.dora"
    t = D.get(f0)
    if not r.anchor(f0, t):
        return
    disp = [fn for fn in doraq.functions(t, f0) if fn.name == "emit_inst" and fn.body is not None]
    if not r.anchor("codegen.dora emit_inst", disp):
        return
    ms = [n for n in doraq.walk(disp[0].body) if doraq.is_node(n) and n[0] == "MATCH_EXPR"]
    if not r.anchor("emit_inst: match over the opcode", ms):
        return
    handlers = {}
    for (ptxt, pat, body) in doraq.direct_match_arms(ms[0]):
        ops = set(re.findall(r"Op::([A-Za-z0-9_]+)", ptxt))
        if not ops:
            continue
        for c in doraq.calls(body):
            if c.recv is not None and c.name and c.name.startswith("emit_") and c.args and doraq.text(c.args[0]) == "inst":
                handlers.setdefault(c.name, set()).update(ops)
    r.floor("handlers dispatched by emit_inst", len(handlers), 60)
    ntests = 0
    PANICS = ("unreachable", "fatal_error", "unimplemented")
    for f in ("pkgs/boots/codegen/x64.dora", "pkgs/boots/codegen/arm64.dora"):
        tt = D.get(f)
        if not r.anchor(f, tt):
            continue
        for fn in doraq.functions(tt, f):
            if fn.name not in handlers or fn.body is None:
                continue
            S = handlers[fn.name]
            ps = [pn for pn, _ty in fn.params() if pn != "self"]
            if not ps:
                continue
            me = ps[0] + ".op()"
            key0 = "%s::%s" % (f, fn.qual)
            for n in doraq.walk(fn.body):
                if not doraq.is_node(n):
                    continue
                if n[0] == "MATCH_EXPR":
                    ns = doraq.nodes(n)
                    if not ns or doraq.text(ns[0]) != me:
                        continue
                    ntests += 1
                    arms = doraq.direct_match_arms(n)
                    mentioned, default_panics, has_default = set(), False, False
                    for (ptxt, pat, body) in arms:
                        ops = set(re.findall(r"Op::([A-Za-z0-9_]+)", ptxt))
                        if not ops and ptxt.strip() == "_":
                            has_default = True
                            bt = doraq.text(body)
                            default_panics = any(bt.strip().startswith(w + "(") or ("{ " + w + "(") in bt or bt.strip() == w + "()"
                                                 or (w + "()") in bt for w in PANICS)
                        mentioned |= ops
                    r.instance("%s:match(%s)@%d" % (key0, me, n[1]), sample={"dispatched": sorted(S), "arms": sorted(mentioned)})
                    foreign = mentioned - S
                    if foreign:
                        r.violation("%s:match(%s):tests-foreign-opcodes" % (key0, me),
                                    "%s is only called for %s, but matches its own opcode against %s: those arms can "
                                    "never be taken (the test was meant for an input instruction)%s" % (
                                        fn.name, "/".join(sorted(S)), "/".join(sorted(foreign)),
                                        "; the default arm panics, so the compiler aborts ('unreachable code "
                                        "executed') for every such instruction" if default_panics else ""),
                                    "%s:%d" % (f, n[1]))
                elif n[0] == "BIN_EXPR":
                    tx = doraq.text(n)
                    ns = doraq.nodes(n)
                    if len(ns) != 2:
                        continue
                    a, b = doraq.text(ns[0]), doraq.text(ns[1])
                    if a == me and b.startswith("Op::") or b == me and a.startswith("Op::"):
                        ntests += 1
                        op = (b if a == me else a)[4:]
                        r.instance("%s:%s@%d" % (key0, tx[:40], n[1]), sample={"dispatched": sorted(S)})
                        if op not in S:
                            r.violation("%s:compare(%s,Op::%s):tests-foreign-opcode" % (key0, me, op),
                                        "%s is only called for %s, so `%s` is constant: the comparison was meant for "
                                        "an input instruction, and the code it guards is dead or always runs" % (
                                            fn.name, "/".join(sorted(S)), tx[:60]), "%s:%d" % (f, n[1]))
    r.floor("own-opcode tests inside handlers", ntests, 8)


def run(chk, F):
    rule_r1(chk, F)
    rule_r2(chk, F)
    # array allocation: the length guard (same engine as C13.R3; C02 names "extreme lengths")
    from rules import c13
    c13.rule_r3(chk, F, rid="C02.R1b")
    from rules import c02_tables
    c02_tables.run_tables(chk, F)
    rule_r9(chk, F)
    rule_r10(chk, F)
    rule_r11(chk, F)
    # C02.R8: arithmetic on program-supplied integers in the natives
    from rules import c02_natarith
    cg_rt = CallGraph(F, libs=["dora_runtime"], bins=[])
    c02_natarith.run(chk, F, cg_rt, rid="C02.R8")
    # C02.R6: the wire protocol between the host and the optimizing compiler (engine of C18.R4)
    from rules import c18_wire
    c18_wire.run_wire(chk, F, rid="C02.R6")
    chk.assumptions += [
        "decides presence and dominance of run-time checks, handler coverage, ABI/table agreement and native "
        "signature agreement; that a check computes the right condition for every value and that the two back ends "
        "produce equal output are not decided",
    ]
    rule_r14(chk, F)
    rule_r18(chk, F)
    rule_r19(chk, F)
    from rules import c02_modewidth
    c02_modewidth.run(chk, F)
    from rules import a64; a64.run_c02(chk, F)  # noqa: E702  arm64 siblings (aarch64 fact set)


def rule_r14(chk, F):
    """C02.R14: pass-through wrappers of the baseline compiler's layers call their namesake (rules/forwarders.py);
    the atomic ones are attributed to C09.R9."""
    from rules import forwarders
    r = chk.rule("C02.R14", "every pass-through wrapper in the baseline compiler (a method that hands its parameters "
                            "unchanged to one method of a wrapped object) forwards to the wrapped object's method of "
                            "its own name when there is one — both targets")
    flt = lambda nm: not nm.endswith("_synchronized")                               # noqa: E731
    n = 0
    for cr in ("dora_cannon_compiler", "dora_compiler"):
        n += forwarders.run(r, F.crate(cr), flt, "x64:")
    try:
        forwarders.run(r, F.a64().crate("dora_cannon_compiler"), flt, "arm64:")
    except Exception as e:                                       # noqa: BLE001
        r.observe("aarch64 facts unavailable: %s" % e)
    r.floor("pass-through wrappers (x64 build)", n, 40)


def rule_r18(chk, F):
    """C02.R18: the baseline calling convention passes the address of a multi-field result in the first integer
    parameter register.  Every routine that *assigns* argument positions against the integer parameter registers from
    scratch — the call-site argument store, the call-site stack-size computation, the callee's parameter spill — must
    account for that slot; helpers that continue a caller's cursor (they take it by `&mut usize`) inherit it.  A routine
    that forgets it is consistent with itself but not with its siblings: one more argument is spilled than stack space
    was reserved for (the caller's lowest frame slot is overwritten), or parameters are read from the wrong place."""
    r = chk.rule("C02.R18", "every baseline routine that lays out call arguments against the integer parameter "
                            "registers from scratch accounts for the hidden result address (siblings: argument store, "
                            "stack-size computation, parameter spill)")
    cc = F.crate("dora_cannon_compiler")
    hidden = [p for p in cc.hir if p.endswith("::has_hidden_result_address")]
    if not r.anchor("CannonCodeGen::has_hidden_result_address", hidden):
        return
    n = 0
    for p, b in sorted(cc.hir.items()):
        if "codegen::CannonCodeGen" not in p or p in hidden:
            continue
        # uses the number of integer parameter registers
        uses = any(m[0] == "mcall" and m[3] == "len" and hirq.is_node(hirq.strip(m[4])) and
                   hirq.strip(m[4])[0] == "def" and last(hirq.strip(m[4])[2]) == "REG_PARAMS"
                   for m in hirq.walk(b["body"]))
        if not uses:
            continue
        continues_cursor = any(ty.replace(" ", "") in ("&mutusize",) for (_pat, ty) in b["params"])
        consults = any((m[0] == "mcall" and m[2] in hidden) or
                       (m[0] == "call" and hirq.is_node(m[2]) and m[2][:2] == ["def", "fn"] and m[2][2] in hidden)
                       for m in hirq.walk(b["body"]))
        n += 1
        r.instance(p, nontrivial=not continues_cursor,
                   sample={"routine": last(p), "continues_a_callers_cursor": continues_cursor,
                           "consults_hidden_result_address": consults})
        if not continues_cursor and not consults:
            r.violation("%s:hidden-result-address-not-counted" % p,
                        "%s assigns argument positions against REG_PARAMS from scratch without consulting "
                        "has_hidden_result_address, unlike its siblings: for a callee that returns a multi-field "
                        "tuple/struct every integer argument is shifted by one register, so this routine's count is "
                        "off by one (e.g. the reserved stack-argument area is 8 bytes too small and the extra spilled "
                        "argument overwrites the caller's lowest frame slot)" % last(p),
                        "%s:%d" % (b["file"], b["line"]))
    r.floor("routines that use the number of integer parameter registers", n, 6)


def rule_r19(chk, F):
    """C02.R19: the conversion intrinsics carry their operand types in their names (`Int64ToFloat32`); the baseline
    compiler looks up the machine modes of source and destination in small tables keyed by the intrinsic.  A row whose
    modes disagree with the name (a copy-paste of the neighbouring row) converts at the wrong width — only the low word
    of a 64-bit source — while the optimizing compiler, which has its own lowering, does not."""
    import re
    r = chk.rule("C02.R19", "in every table of the baseline compiler keyed by a conversion intrinsic `<Src>To<Dst>`, the "
                            "machine modes of the row are the modes of Src and Dst")
    cc = F.crate("dora_cannon_compiler")
    ty2mode = {"Int32": "Int32", "Int64": "Int64", "Float32": "Float32", "Float64": "Float64", "UInt8": "Int8",
               "Char": "Int32", "Bool": "Int8"}
    n = 0
    for p, b in sorted(cc.hir.items()):
        for m in hirq.walk(b["body"]):
            if m[0] != "match":
                continue
            for pat, guard, body in m[2]:
                names = [last(x[1][2]) for x in hirq.walk(pat) if x[0] == "ppath" and "::Intrinsic::" in x[1][2]]
                if len(names) != 1:
                    continue
                mm = re.match(r"^(UInt8|Int32|Int64|Float32|Float64|Char|Bool)To(UInt8|Int32|Int64|Float32|Float64|Char|Bool)$",
                              names[0])
                if not mm:
                    continue
                bs = hirq.strip(body)
                if not (hirq.is_node(bs) and bs[0] == "tup"):
                    continue
                modes = [last(hirq.strip(x)[2]) for x in bs[1]
                         if hirq.is_node(hirq.strip(x)) and hirq.strip(x)[0] == "def" and "MachineMode::" in hirq.strip(x)[2]]
                if len(modes) != 2:
                    continue
                n += 1
                want = (ty2mode[mm.group(1)], ty2mode[mm.group(2)])
                key = "%s:%s" % (p, names[0])
                r.instance(key, sample={"intrinsic": names[0], "modes": modes, "expected": list(want)})
                if tuple(modes) != want:
                    r.violation("%s:modes-%s-%s" % (key, modes[0], modes[1]),
                                "the row for Intrinsic::%s gives the machine modes (%s, %s); its name says (%s, %s): the "
                                "conversion is carried out at the wrong operand width (e.g. Int64.to_float32() converts "
                                "only the low 32 bits: 4294967296 becomes 0.0) in the baseline compiler only"
                                % (names[0], modes[0], modes[1], want[0], want[1]),
                                "%s:%d" % (b["file"], b["line"]))
    r.floor("conversion-intrinsic rows with a pair of machine modes", n, 8)

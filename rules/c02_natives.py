"""C02.R7 — native signature agreement (the third mechanism: native entry trampolines marshal arguments between the Dora
and the C calling convention).

The trampoline generator derives the marshalling from the *Dora* declaration of an `@native` function (reference-typed
parameters are wrapped in handles, primitives travel in registers by width); the Rust body is an `extern "C"` function
found only through its symbol `mangle_name(<native path>)` (dora-compiler/src/native_lookup.rs, dora-symbol).  Nothing
in either compiler checks that the two signatures agree, so this rule does — statically, per function and per slot.

Also checked: the runtime entry points the AOT compiler calls through hand-described trampolines
(`compile_runtime_function_trampoline("..", "dora_native_x", .., <param types>, <return type>, ..)`).
"""
import glob
import os
import re
import tomllib

import doraq
import facts
import hirq
from hirq import def_path, is_node, last
from rules import c02_util as U

NATIVE_CRATES = ("dora_runtime", "dora_boots_compiler")
SRC_DIRS = {"dora_runtime": "dora-runtime/src", "dora_boots_compiler": "dora-boots-compiler/src"}
PKG_DIRS = ("pkgs/std", "pkgs/boots")
SYMBOL_PREFIX = "dora_"                                   # dora-symbol: SYMBOL_PREFIX


# ------------------------------------------------------------------------------------------ symbols

def mangle(name):
    out = [SYMBOL_PREFIX]
    for b in name.encode():
        ch = chr(b)
        if ch.isascii() and ch.isalnum():
            out.append(ch)
        else:
            out.append("_%02X" % b)
    return "".join(out)


def demangle(sym):
    if not sym.startswith(SYMBOL_PREFIX):
        return None
    body = sym[len(SYMBOL_PREFIX):]
    out = bytearray()
    i = 0
    while i < len(body):
        ch = body[i]
        if ch == "_":
            hx = body[i + 1:i + 3]
            if len(hx) != 2 or not re.match(r"^[0-9A-F]{2}$", hx):
                return None
            out.append(int(hx, 16))
            i += 3
        elif ch.isascii() and ch.isalnum():
            out.append(ord(ch))
            i += 1
        else:
            return None
    try:
        s = out.decode()
    except UnicodeDecodeError:
        return None
    return s if mangle(s) == sym else None


def scan_attributes(crate):
    """[(path, fn name, rel file, line)] for `#[dora_native("path")] .. fn name` in the crate's sources (the attribute
    text is consumed by the proc macro and is not in the facts)"""
    out = []
    base = facts.repo_path(SRC_DIRS[crate])
    for fp in sorted(glob.glob(os.path.join(base, "**", "*.rs"), recursive=True)):
        try:
            src = open(fp).read()
        except OSError:
            continue
        for m in re.finditer(r'#\[\s*dora_native\(\s*"([^"]+)"\s*\)\s*\]', src):
            tail = src[m.end():m.end() + 400]
            fm = re.search(r"\bfn\s+([A-Za-z_]\w*)", tail)
            out.append((m.group(1), fm.group(1) if fm else None, os.path.relpath(fp, facts.REPO),
                        src.count("\n", 0, m.start()) + 1))
    return out


# ------------------------------------------------------------------------------------------ Rust ABI classes

PRIM_CLASS = {"bool": "Bool", "u8": "UInt8", "i8": "UInt8", "i32": "Int32", "u32": "Int32", "char": "Int32",
              "i64": "Int64", "u64": "Int64", "usize": "Int64", "isize": "Int64", "f32": "Float32", "f64": "Float64",
              "()": "Unit", "!": "Unit"}


def split_generic(ty):
    m = re.match(r"^([\w:]+)<(.*)>$", ty)
    return (m.group(1), m.group(2)) if m else (ty, None)


def rust_class(ty, adts, depth=0):
    """-> (class, detail).  class in Bool UInt8 Int32 Int64 Float32 Float64 Unit Handle Ref Address RawPtr Unknown"""
    ty = (ty or "").strip()
    if ty in PRIM_CLASS:
        return PRIM_CLASS[ty], ty
    if ty.startswith("*mut ") or ty.startswith("*const "):
        return "RawPtr", ty
    head, _args = split_generic(ty)
    if head == "dora_runtime::handle::Handle":
        return "Handle", ty
    if head == "dora_runtime::mirror::Ref":
        return "Ref", ty
    a = adts.get(head)
    if a is not None and a["kind"] == "struct" and depth < 4:
        fs = [f for f in a["variants"][0]["fields"] if not f["ty"].startswith("core::marker::PhantomData")]
        if len(fs) == 1 and (a.get("repr_c") or a.get("repr_transparent")):
            cls, _d = rust_class(fs[0]["ty"], adts, depth + 1)
            if last(head) == "Address" and cls == "Int64":
                return "Address", ty
            if cls in ("Bool", "UInt8", "Int32", "Int64", "Float32", "Float64"):
                return cls, "%s(%s)" % (last(head), fs[0]["ty"])
        if len(fs) == 1:
            return "Unknown", "%s is a one-field struct without #[repr(C)]/#[repr(transparent)]" % head
    return "Unknown", ty


# ------------------------------------------------------------------------------------------ Dora declarations

class Decl:
    __slots__ = ("path", "fn", "file", "params", "ret", "self_ty", "line")


def package_info(pkg_dir):
    try:
        with open(facts.repo_path(pkg_dir + "/dora-package.toml"), "rb") as fh:
            cfg = tomllib.load(fh)["package"]
    except (OSError, KeyError, tomllib.TOMLDecodeError):
        return None
    # native paths are printed by module_path_name(): the program's own package has no prefix, a dependency package
    # (the standard library) is prefixed with its name
    prefix = cfg.get("name", "") if cfg.get("_is_standard_library") else ""
    return {"name": cfg.get("name"), "main": cfg.get("main"), "prefix": prefix}


def file_module(pkg_dir, info, fp):
    rel = fp[len(pkg_dir) + 1:]
    segs = rel[:-len(".dora")].split("/")
    if rel == info["main"]:
        segs = []
    return "::".join(([info["prefix"]] if info["prefix"] else []) + segs)


def _join(*parts):
    return "::".join(p for p in parts if p)


def _type_nodes(n):
    return [x for x in doraq.nodes(n) if x[0].endswith("_TYPE")]


def collect(D):
    """-> (natives: [Decl-ish dict], type index {name: [(module, kind, file)]})"""
    natives, types = [], {}
    for pkg in PKG_DIRS:
        info = package_info(pkg)
        if info is None:
            continue
        for fp, tree in sorted(D.items()):
            if not fp.startswith(pkg + "/") or "/tests" in fp:
                continue
            mod = file_module(pkg, info, fp)

            def elems(n, module, container):
                for c in doraq.nodes(n):
                    k = c[0]
                    if k in ("CLASS", "STRUCT", "ENUM", "TRAIT"):
                        types.setdefault(doraq.ident(c), []).append((module, k, fp))
                        if k == "TRAIT":
                            continue
                    if k == "FUNCTION":
                        mods = doraq.modifiers(c)
                        if any(re.match(r"^@\s*native\b", m) for m in mods):
                            f = doraq.Fn(doraq.ident(c), doraq.ident(c), c, fp, None)
                            natives.append({"fn": f, "module": module, "container": container, "file": fp,
                                            "static": any(m == "static" for m in mods)})
                    elif k == "IMPL":
                        tys = _type_nodes(c)
                        el = doraq.child(c, "ELEMENT_LIST")
                        if el is None or not tys:
                            continue
                        if doraq.child(c, "FOR_KW") and len(tys) >= 2:
                            elems(el, module, ("impl", tys[0], tys[1]))
                        else:
                            elems(el, module, ("ext", None, tys[0]))
                    elif k == "MODULE":
                        el = doraq.child(c, "ELEMENT_LIST")
                        if el is not None and doraq.ident(c) != "tests":
                            elems(el, _join(module, doraq.ident(c)), container)
            elems(tree, mod, None)
    return natives, types


def bare(tynode):
    """type node -> (explicit module path or None, name) ignoring type arguments"""
    t = re.sub(r"\[.*$", "", doraq.text(tynode)).strip()
    segs = t.split("::")
    return ("::".join(segs[:-1]) or None), segs[-1]


def _pkg_of(fp):
    for p in PKG_DIRS:
        if fp.startswith(p + "/"):
            return p
    return None


def _visible(name, types, here_file):
    """declarations of `name` visible from here_file: those of its own package, else those of the standard library"""
    cands = types.get(name, [])
    own = [c for c in cands if _pkg_of(c[2]) == _pkg_of(here_file)]
    return own or [c for c in cands if _pkg_of(c[2]) == PKG_DIRS[0]]


def resolve_type(tynode, types, here_file, kinds=None):
    """-> full path 'module::Name' of the declaration a type name refers to, or None"""
    mod, name = bare(tynode)
    cands = [c for c in _visible(name, types, here_file) if kinds is None or c[1] in kinds]
    if mod:
        ex = [c for c in cands if c[0] == mod or c[0].endswith("::" + mod)]
        cands = ex or cands
    if len(cands) > 1:
        same = [c for c in cands if c[2] == here_file]
        cands = same if len(same) == 1 else cands
    if len(cands) != 1:
        return None
    return _join(cands[0][0], name)


def native_path(nat, types):
    f = nat["fn"]
    cont = nat["container"]
    if cont is None:
        return _join(nat["module"], f.name)
    kind, trait_ty, self_ty = cont
    tpath = resolve_type(self_ty, types, nat["file"], ("CLASS", "STRUCT", "ENUM"))
    if tpath is None:
        return None
    if kind == "ext":
        return "%s#%s" % (tpath, f.name)
    trpath = resolve_type(trait_ty, types, nat["file"], ("TRAIT",))
    if trpath is None:
        return None
    return "%s for %s#%s" % (trpath, tpath, f.name)


DORA_PRIM = {"Bool": "Bool", "UInt8": "UInt8", "Int32": "Int32", "Char": "Int32", "Int64": "Int64",
             "Float32": "Float32", "Float64": "Float64", "Never": "Unit", "()": "Unit"}


def dora_class(tynode, types, here_file):
    """-> class in Bool UInt8 Int32 Int64 Float32 Float64 Unit Reference Unknown"""
    if tynode is None:
        return "Unit"
    txt = doraq.text(tynode).replace(" ", "")
    if txt in DORA_PRIM:
        return DORA_PRIM[txt]
    if tynode[0] == "LAMBDA_TYPE" or re.match(r"^\(.*\):", txt):
        return "Reference"                               # a lambda is a heap object
    if tynode[0] == "TUPLE_TYPE" or txt.startswith("("):
        return "Unit" if txt == "()" else "Unknown"
    if tynode[0] == "REF_TYPE" or txt.startswith("ref"):
        return "Unknown"
    _mod, name = bare(tynode)
    if name in DORA_PRIM and "[" not in txt:
        return DORA_PRIM[name]
    kinds = {c[1] for c in _visible(name, types, here_file)}
    if kinds == {"CLASS"} or kinds == {"TRAIT"}:
        return "Reference"
    if name == "Option" and kinds == {"ENUM"}:
        # Option[<reference>] is a nullable pointer (the niche layout both compilers use for Option of a reference)
        inner = [x for x in doraq.walk(tynode) if x is not tynode and x[0].endswith("_TYPE")]
        if inner and dora_class(inner[0], types, here_file) == "Reference":
            return "Reference"
    return "Unknown"


def fn_signature(nat, types):
    f = nat["fn"]
    pl = doraq.child(f.node, "PARAM_LIST")
    params = []
    cont = nat["container"]
    if cont is not None and not nat["static"]:
        params.append(("self", cont[2]))
    if pl is not None:
        for li in doraq.children(pl, "LIST_ITEM"):
            p = doraq.child(li, "PARAM")
            if p is None:
                continue
            ns = doraq.nodes(p)
            tys = [x for x in ns if x[0].endswith("_TYPE")]
            params.append((doraq.text(ns[0]) if ns else "_", tys[0] if tys else None))
    ret = None
    seen = False
    for c in doraq.kids(f.node):
        if c[0] == "PARAM_LIST":
            seen = True
        elif seen and doraq.is_node(c) and c[0].endswith("_TYPE"):
            ret = c
    return params, ret


PARAM_OK = {           # Dora class -> acceptable Rust classes for a PARAMETER
    "Bool": {"Bool"}, "UInt8": {"UInt8"}, "Int32": {"Int32"}, "Int64": {"Int64", "Address", "RawPtr"},
    "Float32": {"Float32"}, "Float64": {"Float64"}, "Reference": {"Handle"},
}
RESULT_OK = {          # Dora class -> acceptable Rust classes for the RESULT
    "Bool": {"Bool"}, "UInt8": {"UInt8"}, "Int32": {"Int32"}, "Int64": {"Int64", "Address", "RawPtr"},
    "Float32": {"Float32"}, "Float64": {"Float64"}, "Reference": {"Ref", "Address", "RawPtr"}, "Unit": {"Unit"},
}


def compare(r, key, where, dora_sig, rust_fn, adts, what, extra_ok=False):
    """dora_sig: ([(name, class, text)], (class, text)); rust_fn: fns item.  extra_ok: surplus trailing arguments are
    only observed (a register argument the C callee does not declare is ignored)"""
    dparams, dret = dora_sig
    rin = rust_fn.get("inputs") or []
    if "C" not in (rust_fn.get("abi") or ""):
        r.violation(key + ":abi", "%s is declared `%s`, not extern \"C\": the trampoline calls it with the C convention"
                    % (rust_fn["path"], rust_fn.get("abi")), where)
    if extra_ok and len(dparams) > len(rin):
        r.observe("%s passes %d argument(s) (%s) but %s takes %d: the surplus is ignored by the callee (stale description)"
                  % (what, len(dparams), ", ".join(t for (_n, _c, t) in dparams), rust_fn["path"], len(rin)))
    elif len(dparams) != len(rin):
        r.violation(key + ":arity", "%s passes %d argument(s) (%s) but %s takes %d (%s)"
                    % (what, len(dparams), ", ".join("%s: %s" % (n, t) for (n, _c, t) in dparams) or "none",
                       rust_fn["path"], len(rin), ", ".join(rin) or "none"), where)
    for i, ((pn, dcls, dtxt), rty) in enumerate(zip(dparams, rin)):
        rcls, rdet = rust_class(rty, adts)
        if dcls == "Unknown":
            r.violation("ANALYSIS:%s:param-%d" % (key, i), "cannot classify Dora parameter %s: %s" % (pn, dtxt), where)
        elif rcls == "Unknown":
            r.violation("%s:param-%d:unclassified" % (key, i), "Rust parameter #%d of %s has type %s with no defined C "
                        "ABI class (%s)" % (i, rust_fn["path"], rty, rdet), where)
        elif rcls not in PARAM_OK.get(dcls, set()):
            if dcls == "Reference" and rcls in ("Ref", "RawPtr", "Address"):
                msg = ("parameter `%s: %s` is a heap reference: the trampoline passes a handle (a pointer to a rooted "
                       "slot) but %s receives it as %s — a direct pointer; it reads the slot address as the object and, "
                       "were it passed directly, would dangle as soon as a collection moves the argument"
                       % (pn, dtxt, rust_fn["path"], rty))
            elif dcls != "Reference" and rcls == "Handle":
                msg = ("parameter `%s: %s` is passed by value in a register but %s receives it as %s and dereferences it"
                       % (pn, dtxt, rust_fn["path"], rty))
            else:
                msg = ("parameter `%s: %s` (%s) is received as %s (%s) by %s: width/register class differ"
                       % (pn, dtxt, dcls, rty, rcls, rust_fn["path"]))
            r.violation("%s:param-%d" % (key, i), msg, where)
    rcls, rdet = rust_class(rust_fn.get("output"), adts)
    dcls, dtxt = dret
    if dcls == "Unknown":
        r.violation("ANALYSIS:%s:result" % key, "cannot classify Dora result type %s" % dtxt, where)
    elif rcls == "Unknown":
        r.violation("%s:result:unclassified" % key, "result type %s of %s has no defined C ABI class (%s)"
                    % (rust_fn.get("output"), rust_fn["path"], rdet), where)
    elif rcls not in RESULT_OK.get(dcls, set()):
        if dcls == "Reference" and rcls == "Handle":
            msg = ("%s returns %s (a handle) but the Dora side expects the object pointer itself for `%s`"
                   % (rust_fn["path"], rust_fn.get("output"), dtxt))
        else:
            msg = ("%s declares result `%s` (%s) but %s returns %s (%s)"
                   % (what, dtxt or "()", dcls, rust_fn["path"], rust_fn.get("output"), rcls))
        r.violation("%s:result" % key, msg, where)


# ------------------------------------------------------------------------------------------ runtime entry trampolines

BT = "dora_bytecode::ty::BytecodeType"
BT_CLASS = {"Bool": "Bool", "UInt8": "UInt8", "Char": "Int32", "Int32": "Int32", "Int64": "Int64",
            "Float32": "Float32", "Float64": "Float64", "Unit": "Unit", "Address": "Int64", "Ptr": "Int64",
            "Class": "Reference", "TraitObject": "Reference", "Lambda": "Reference"}


def _bt_class(e):
    """HIR expression building a BytecodeType -> (class, text)"""
    e = hirq.strip(e)
    d = None
    if is_node(e) and e[0] == "call":
        d = def_path(e[2])
    elif is_node(e) and e[0] == "def":
        d = e[2]
    if d and d.startswith(BT + "::"):
        v = last(d)
        return BT_CLASS.get(v, "Unknown"), "BytecodeType::" + v
    return "Unknown", hirq.render(e)


def _bt_list(e):
    """BytecodeTypeArray::empty() / one(x) / new(vec![..]) -> [(class, text)] or None"""
    e = hirq.strip(e)
    if not (is_node(e) and e[0] == "call"):
        return None
    d = def_path(e[2]) or ""
    if not U.strip_generics(d).startswith("dora_bytecode::ty::BytecodeTypeArray::"):
        return None
    how = last(d)
    if how == "empty":
        return []
    if how == "one":
        return [_bt_class(e[3][0])]
    if how == "new":
        for n in hirq.walk(e[3][0]):
            if n[0] == "array":
                return [_bt_class(x) for x in n[1]]
    return None


def runtime_entries(r, dc):
    """[(symbol, params, ret, where)] from calls `f(.., "<dora_native_x>".to_string(), .., <BytecodeTypeArray>,
    <BytecodeType>, ..)` in dora_compiler: the hand-written signatures of the runtime entry trampolines"""
    out = []
    for path, b in dc.hir.items():
        for cs in hirq.calls(b["body"]):
            if cs.is_method or not cs.callee or not cs.callee.startswith("dora_compiler::"):
                continue
            sym, lists, singles = None, [], []
            for a in cs.args:
                s = hirq.strip(a)
                if is_node(s) and s[0] == "mcall" and s[3] in ("to_string", "into", "to_owned") and \
                        is_node(hirq.strip(s[4])) and hirq.strip(s[4])[0] == "lit" and hirq.strip(s[4])[1] == "str" and \
                        str(hirq.strip(s[4])[2]).startswith(SYMBOL_PREFIX):
                    sym = hirq.strip(s[4])[2]
                    continue
                lst = _bt_list(a)
                if lst is not None:
                    lists.append(lst)
                    continue
                c, t = _bt_class(a)
                if t.startswith("BytecodeType::"):
                    singles.append((c, t))
            if sym and len(lists) == 1 and len(singles) == 1:
                out.append((sym, lists[0], singles[0], "%s:%s" % (b.get("file"), cs.line)))
    return out


# ------------------------------------------------------------------------------------------ the rule

def run_r7(chk, F):
    r = chk.rule("C02.R7", "every @native Dora declaration has exactly one extern \"C\" Rust definition (symbol = "
                           "mangle_name(path)) and vice versa, and the two signatures agree slot by slot in ABI class "
                           "(references are handles as parameters, direct pointers as results); runtime entry "
                           "trampolines agree with the entry points they call")
    D = F.dora()
    crates = [F.crate(n) for n in NATIVE_CRATES]
    adts = {}
    for c in list(crates) + [F.crate("dora_bytecode"), F.crate("dora_compiler")]:
        for a in c.items["adts"]:
            adts.setdefault(a["path"], a)
    # ---- Rust side
    by_symbol = {}
    for c in crates:
        for f in c.items["fns"]:
            s = f.get("symbol")
            if s and s.startswith(SYMBOL_PREFIX):
                by_symbol.setdefault(s, []).append(f)
    rust_natives = {}                       # native path -> fn item
    others = {}
    for s, fs in by_symbol.items():
        p = demangle(s)
        if p is not None and ("::" in p or "#" in p):
            rust_natives[p] = fs
        else:
            others[s] = fs
    n_attr = 0
    for cname in NATIVE_CRATES:
        for (p, fname, rel, line) in scan_attributes(cname):
            n_attr += 1
            fs = by_symbol.get(mangle(p))
            if not fs:
                r.observe("#[dora_native(\"%s\")] on fn %s (%s:%d) has no function in the host-build facts (cfg'd out?)"
                          % (p, fname, rel, line))
            elif fname and all(f["name"] != fname for f in fs):
                alts = [x for x in scan_attributes(cname) if x[0] == p]
                if len(alts) == 1:
                    r.violation("%s:attribute-binding" % p, "source attaches #[dora_native(\"%s\")] to fn %s but the "
                                "exported symbol belongs to %s" % (p, fname, [f["path"] for f in fs]), "%s:%d" % (rel, line))
            if p not in rust_natives and fs:
                r.violation("ANALYSIS:%s:symbol" % p, "symbol %s does not demangle back to %s" % (mangle(p), p), rel)
    r.floor("#[dora_native] attributes in the sources", n_attr, 75)
    r.floor("Rust functions exported under a mangled native path", len(rust_natives), 75)

    # ---- Dora side
    natives, types = collect(D)
    r.floor("@native declarations under pkgs/std and pkgs/boots", len(natives), 75)
    dora_natives = {}
    for nat in natives:
        p = native_path(nat, types)
        f = nat["fn"]
        if p is None:
            r.violation("ANALYSIS:%s:%s:path" % (nat["file"], f.name), "cannot resolve the native path of %s (receiver "
                        "type not found among the package's declarations)" % f.name, f.where())
            continue
        if p in dora_natives:
            r.violation("%s:declared-twice" % p, "two @native declarations resolve to %s" % p, f.where())
        dora_natives[p] = nat

    # ---- existence both ways
    for p, nat in sorted(dora_natives.items()):
        f = nat["fn"]
        key = "native:%s" % p
        fs = rust_natives.get(p)
        params, ret = fn_signature(nat, types)
        dsig = ([(n, dora_class(t, types, nat["file"]) if n != "self" or t is not None else "Unknown",
                  doraq.text(t) if t is not None else "?") for (n, t) in params],
                (dora_class(ret, types, nat["file"]), doraq.text(ret) if ret is not None else ""))
        r.instance(key, nontrivial=bool(fs), sample={"path": p, "dora": [(n, c) for (n, c, _t) in dsig[0]] + [dsig[1][0]],
                                                     "rust": fs[0]["path"] if fs else None,
                                                     "rust_sig": (fs[0]["inputs"], fs[0]["output"]) if fs else None})
        if not fs:
            # native_lookup.rs only mangles the path; the AOT assembly then references the symbol as an extern
            # procedure: every program that reaches this function fails to link (or, under the JIT, to resolve it)
            r.violation(key + ":no-rust-definition",
                        "@native %s (%s) has no Rust function exported as %s: any program calling it cannot be linked"
                        % (p, f.where(), mangle(p)), f.where())
            continue
        if len(fs) > 1:
            r.violation(key + ":duplicate-rust-definition", "%d Rust functions export %s: %s"
                        % (len(fs), mangle(p), [x["path"] for x in fs]), f.where())
        compare(r, key, "%s:%s" % (fs[0].get("file"), fs[0].get("line")), dsig, fs[0], adts, "@native " + p)
    for p, fs in sorted(rust_natives.items()):
        if p not in dora_natives:
            r.instance("native:%s" % p, nontrivial=False)
            r.violation("native:%s:no-dora-declaration" % p,
                        "%s is exported for the native path %s but no @native declaration resolves to that path: the "
                        "function is unreachable, or the declaration it was written for now binds to nothing"
                        % (fs[0]["path"], p), "%s:%s" % (fs[0].get("file"), fs[0].get("line")))
    r.floor("natives compared", len(set(dora_natives) & set(rust_natives)), 75)

    # ---- runtime entry trampolines
    dc = F.crate("dora_compiler")
    ents = runtime_entries(r, dc)
    for (sym, params, ret, where) in ents:
        key = "runtime-entry:%s" % sym
        fs = by_symbol.get(sym)
        r.instance(key, nontrivial=bool(fs), sample={"symbol": sym, "trampoline": [c for (c, _t) in params] + [ret[0]],
                                                     "rust": (fs[0]["inputs"], fs[0]["output"]) if fs else None})
        if not fs:
            r.violation(key + ":no-rust-definition", "the AOT compiler emits a trampoline calling %s but no runtime "
                        "function is exported under that name" % sym, where)
            continue
        dsig = ([("arg%d" % i, c, t) for i, (c, t) in enumerate(params)], ret)
        compare(r, key, "%s:%s" % (fs[0].get("file"), fs[0].get("line")), dsig, fs[0], adts, "the trampoline for " + sym,
                extra_ok=True)
    r.floor("runtime entry trampolines with a described signature", len(ents), 6)
    called = {e[0] for e in ents}
    rest = sorted(s for s in others if s not in called)
    if rest:
        r.observe("exported runtime symbols with no signature description to compare against: %s" % ", ".join(rest))

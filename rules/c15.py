"""C15 — builds are reproducible.

Decided clause: no hash-order or per-process value can reach the emitted package, assembly or executable.
  R1  hash-iteration lint (MIR + effect analysis): every order-revealing use of a randomly seeded
      std::collections::HashMap/HashSet in the compile pipeline is consumed order-insensitively; the types encoded
      into a package contain no hash container
  R2  other per-process sources (clock, random, pid, thread id, environment, temp-file names, pointer→integer casts):
      interprocedural taint from each source to the output sinks
  R3  the unix link step passes the strip-local-symbols flag on every path
  R4  (observation) hash-container iteration inside the Dora-written optimizing compiler
Not decided: the bootstrap fixed point, determinism of the external assembler/linker.
"""
import os
import re

import cfg
from callgraph import CallGraph

from rules import c15_effects as E
from rules.c15_effects import last, short

LINT_LIBS = ["dora_parser", "dora_frontend", "dora_bytecode", "dora_symbol", "dora_compiler", "dora_cannon_compiler",
             "dora_boots_compiler", "dora_asm"]
GRAPH_LIBS = LINT_LIBS + ["dora_runtime", "dora_startup"]
BINS = ["dora", "dora_cannon_compiler"]
RESTRICTED = bool([x for x in os.environ.get("VERIF_PACKAGES", "").split(",") if x])

HASH_CONT = ("std::collections::hash::map::HashMap", "std::collections::hash::set::HashSet",
             "hashbrown::map::HashMap", "hashbrown::set::HashSet")
ORDER_METHODS = {"iter", "iter_mut", "keys", "values", "values_mut", "into_iter", "drain", "into_keys", "into_values",
                 "retain", "difference", "symmetric_difference", "intersection", "union", "extract_if"}
HASH_ITER_RE = re.compile(r"std::collections::hash::(map|set)::(Iter|IterMut|IntoIter|Keys|Values|ValuesMut|Drain|"
                          r"IntoKeys|IntoValues|Difference|SymmetricDifference|Intersection|Union|ExtractIf)\b")
ITER = "core::iter::traits::iterator::Iterator::"
# adaptors that keep "a multiset of elements in unspecified order" a multiset in unspecified order
ADAPT_OK = {"map", "filter", "filter_map", "cloned", "copied", "inspect", "flat_map", "flatten", "by_ref", "fuse"}
# consumers whose result does not depend on the order (given effect-free closures)
TERM_OK = {"any", "all", "count", "min", "max", "for_each", "collect", "sum", "product"}
INT_TYPES = {"usize", "isize", "u8", "u16", "u32", "u64", "u128", "i8", "i16", "i32", "i64", "i128"}
VEC_PUSH = re.compile(r"^alloc::vec::Vec::<.*>::(push|insert|extend_from_slice|append)$|"
                      r"^<alloc::vec::Vec<.*> as core::iter::traits::collect::Extend<.*>>::extend$")
ORDERED_TARGETS = ("std::collections::hash::", "alloc::collections::btree::")

# Frozen exceptions: (function path, site) → (residual effects the recogniser may report, reason).  A site is excused
# only while its residual effects stay inside the frozen set, so adding e.g. a `push` to an excused loop fails again.
EXCEPTIONS = {
    ("dora_frontend::generator::expr::match_::int_like_match::group_arms_by_value", "arms_by_value.into_iter"):
        (("write:int_like_match::build_arm_group",),
         "build_arm_group only calls create_label: labels are indices into BytecodeWriter::label_offsets that are "
         "resolved to jump distances and never encoded; the groups themselves are sorted by value right after"),
    ("dora_frontend::sym::SymTable::mark_trait_used", "self.table.values"):
        (("carried:first_symbol",),
         "min-by fold on (file, span.start) of the `use` that imported the trait — unique per import; the winner only "
         "gets its unused-import flag cleared (feeds a warning, not the package)"),
    ("dora_frontend::useck::check", "module_symtables.into_iter"):
        (("write:OnceCell::set",),
         "each entry is stored into the OnceCell of its own module (keyed by the map key, set exactly once, asserted): "
         "no state is shared between iterations"),
}


def base_local(B, op, defs):
    """root local of a chain of whole-local copies / borrows"""
    if op[0] not in ("c", "m"):
        return None
    cur = op[1][0]
    for _ in range(24):
        ds = defs.get(cur, [])
        if len(ds) != 1 or ds[0][1][0] != "a":
            return cur
        rv = ds[0][1][2]
        if rv[0] == "use" and rv[1][0] in ("c", "m") and not rv[1][1][1]:
            cur = rv[1][1][0]
        elif rv[0] == "ref" and (not rv[2][1] or rv[2][1] == ["*"]):
            cur = rv[2][0]
        else:
            return cur
    return cur


def closure_arg(B, call, defs):
    """path of the closure literal passed to a call (traced through moves/borrows), or None"""
    if call.fn and call.fn.get("closure"):
        return call.fn["closure"]
    for a in call.args:
        if a[0] not in ("c", "m"):
            continue
        ty = B.local_ty(a[1][0])
        if "{closure@" not in ty.split("<")[0]:
            continue
        root = base_local(B, a, defs)
        ds = defs.get(root, [])
        if len(ds) == 1 and ds[0][1][0] == "a" and ds[0][1][2][0] == "agg" and ds[0][1][2][1][0] == "closure":
            return ds[0][1][2][1][1]
    return None


def place_name(B, place, defs, depth=0):
    """stable human name of a place: nearest named local plus field path"""
    local, proj = place
    fields = [p[1:] for p in proj if p.startswith(".")]
    nm = B.local_name(local)
    if nm is None and depth < 16:
        ds = defs.get(local, [])
        if len(ds) == 1:
            _, s = ds[0]
            if s[0] == "callres":
                fn = cfg.callee_of(s[1]["f"])
                cn = last(short(cfg.callee_name(fn))) if fn else "call"
                if cn in ("deref", "deref_mut", "as_ref", "borrow", "borrow_mut", "unwrap", "expect", "replace") \
                        and s[1]["a"] and s[1]["a"][0][0] in ("c", "m"):
                    return ".".join([place_name(B, s[1]["a"][0][1], defs, depth + 1)] + fields)
                return ".".join(["%s()" % cn] + fields)
            rv = s[2]
            src = None
            if rv[0] == "use" and rv[1][0] in ("c", "m"):
                src = rv[1][1]
            elif rv[0] == "ref":
                src = rv[2]
            elif rv[0] == "cast" and rv[2][0] in ("c", "m"):
                src = rv[2][1]
            if src is not None:
                return ".".join([place_name(B, src, defs, depth + 1)] + fields)
    if nm is None:
        nm = "arg%d" % local if 1 <= local <= B.argc else "tmp"
    return ".".join([nm] + fields)


def hasher_of(fn, recv_ty):
    """'random' | 'fixed' | 'unknown' from the callee's generic arguments / the receiver's type"""
    txt = (fn.get("g") or "") + " " + (recv_ty or "")
    if "RandomState" in txt:
        return "random"
    if "BuildHasherDefault<" in txt or "FxBuildHasher" in txt or "FxHasher" in txt:
        return "fixed"
    # a local's type prints `HashMap<K, V>` without the defaulted hasher parameter
    m = re.search(r"std::collections::hash::(map::HashMap|set::HashSet)<", recv_ty or "")
    if m and "/#" not in (recv_ty or ""):
        return "random"
    return "unknown"


class Eff:
    """effects of a region on state that outlives one iteration"""

    def __init__(self):
        self.labels = set()
        self.flags = set()        # 'diag', 'hash-insert', 'stdio', 'elem-update'
        self.pushes = set()       # outer Vec locals pushed to
        self.hash_targets = []    # (name) of hash containers inserted into
        self.must_err = False

    def merge(self, o):
        self.labels |= o.labels
        self.flags |= o.flags
        self.pushes |= o.pushes


class Lint:
    def __init__(self, F, cg, ef):
        self.F = F
        self.cg = cg
        self.ef = ef
        self._closure_eff = {}

    # ---- region analysis -------------------------------------------------------------
    def region_effects(self, B, bi, blocks, header, it_locals, allowed_exits, next_block=None):
        """blocks: set of region blocks (None = whole body of a closure); header: loop header or None"""
        ef = self.ef
        eff = Eff()
        defs = cfg.simple_defs(B)
        whole = blocks is None
        if whole:
            blocks = set(i for i in B.reachable(0) if not B.blocks[i]["c"])
            outer_locals = set(range(1, B.argc + 1)) - bi.elem_params
        else:
            live_in, _lo = B.liveness()
            outer_locals = set(range(0, B.argc + 1)) | set(live_in[header])
            for bi_, blk in enumerate(B.blocks):
                if bi_ in blocks or blk["c"]:
                    continue
                for s in blk["s"]:
                    if s[0] == "a":
                        outer_locals.add(s[1][0])
                t = blk["t"]
                if t[0] == "call":
                    outer_locals.add(t[1]["d"][0])
        outer_locals -= set(it_locals)

        def classify(locs):
            """→ list of outer locations"""
            out = []
            for loc in locs:
                if loc[0] == "E":
                    eff.flags.add("elem-update")
                elif loc[0] == "L":
                    if loc[1] in it_locals:
                        eff.flags.add("elem-update")
                    elif loc[1] in outer_locals:
                        out.append(loc)
                else:
                    if whole and loc[1][0] in bi.elem_params:
                        eff.flags.add("elem-update")
                    else:
                        out.append(loc)
            return out

        def locname(loc):
            if loc[0] == "L":
                return B.local_name(loc[1]) or ("arg%d" % loc[1] if loc[1] <= B.argc else "tmp")
            if loc[0] == "P":
                i, k = loc[1]
                if k is not None:
                    return "capture%d" % k
                return B.local_name(i) or "arg%d" % i
            return "elem"
        # plain (non-deref) stores into locals that outlive the iteration
        for b in sorted(blocks):
            blk = B.blocks[b]
            for s in blk["s"]:
                if s[0] == "a" and "*" not in s[1][1]:
                    x = s[1][0]
                    if x in outer_locals and not E.is_const_rvalue(s[2]) and not (whole and x == 0):
                        eff.labels.add("carried:%s" % (B.local_name(x) or ("ret" if x == 0 else "tmp")))
            t = blk["t"]
            if t[0] == "call" and "*" not in t[1]["d"][1] and b != next_block:
                x = t[1]["d"][0]
                if x in outer_locals and not (whole and x == 0):
                    eff.labels.add("carried:%s" % (B.local_name(x) or ("ret" if x == 0 else "tmp")))
        for (kind, b, pl) in bi.events:
            if b not in blocks:
                continue
            if kind == "w":
                place, rv = pl
                if E.is_const_rvalue(rv):
                    continue
                for loc in classify(bi.locations(place)):
                    if loc[0] == "P" and loc[2] == 0:
                        eff.labels.add("closure-state:%s" % locname(loc))
                    else:
                        eff.labels.add("store:%s" % locname(loc))
            elif kind == "call":
                call = pl
                if b == next_block:
                    continue
                writes, io, diag = ef.call_effects(B, call)
                for w in writes:
                    outer = classify(ef.written_locations(bi, call, w))
                    if not outer:
                        continue
                    if w[2] == "h":
                        eff.flags.add("hash-insert")
                        if call.args and call.args[0][0] in ("c", "m"):
                            eff.hash_targets.append(place_name(B, call.args[0][1], defs))
                        continue
                    nm = call.name or ""
                    if VEC_PUSH.match(nm) and call.args and call.args[0][0] in ("c", "m"):
                        v = base_local(B, call.args[0], defs)
                        if v is not None and B.local_ty(v).startswith("alloc::vec::Vec<") and \
                                all(loc == ("L", v) for loc in outer):
                            eff.pushes.add(v)
                            continue
                    eff.labels.add("write:%s" % w[3])
                if "*" in call.dest[1]:
                    for loc in classify(bi.locations(call.dest)):
                        eff.labels.add("store:%s" % locname(loc))
                for (k, lbl) in io:
                    if k == "stdio":
                        eff.flags.add("stdio")
                    else:
                        eff.labels.add("io:%s:%s" % (k, lbl))
                if diag:
                    eff.flags.add("diag")
            elif kind == "clos":
                cpath, ops = pl
                outer = classify(loc for (loc, wk) in ef.closure_written(bi, cpath, ops))
                if outer:
                    sub = self.closure_effects(cpath, ())
                    if sub.labels:
                        eff.labels |= sub.labels
                    elif "hash-insert" in sub.flags and not sub.pushes:
                        eff.flags.add("hash-insert")
                    else:
                        eff.labels.add("write:%s" % short(cpath))
                for k in ef.IO.get(cpath, ()):
                    if k == "stdio":
                        eff.flags.add("stdio")
                    else:
                        eff.labels.add("io:%s:%s" % (k, short(cpath)))
                if ef.D.get(cpath):
                    eff.flags.add("diag")
            elif kind == "fref":
                for (t, k2) in self.cg.targets(pl):
                    if ef.W.get(t) or (ef.IO.get(t, set()) - {"stdio"}):
                        eff.labels.add("fnref:%s" % short(t))
            elif kind == "asm":
                eff.labels.add("asm")
        if eff.hash_targets:
            # inserting into a container while reading its size hands out insertion-order numbers
            for c in B.calls:
                if c.block in blocks and last(c.name or "") == "len" and E.is_keyed_container_fn(c.name or "") \
                        and c.args and c.args[0][0] in ("c", "m"):
                    nm = place_name(B, c.args[0][1], defs)
                    if nm in eff.hash_targets:
                        eff.labels.add("len-of-container-filled-in-loop:%s" % nm)
        if not whole:
            can_return = set(B.postdominators().keys())
            for b in blocks:
                for s in B.succ[b]:
                    if s not in blocks and s not in allowed_exits and s in can_return:
                        eff.labels.add("early-exit")
            # every completed iteration reports an error?
            M = set()
            for c in B.calls:
                if c.block in blocks and c.block != next_block and ef.call_must_err(c):
                    M.add(c.block)
            if M and next_block is not None:
                start = [s for s in B.succ[B.blocks[next_block]["t"][1]["t"]] if s in blocks] \
                    if B.blocks[next_block]["t"][1]["t"] is not None else []
                seen = set()
                st = [s for s in start if s not in M]
                while st:
                    x = st.pop()
                    if x in seen:
                        continue
                    seen.add(x)
                    for s in B.succ[x]:
                        if s in blocks and s not in M and s not in seen:
                            st.append(s)
                if header not in seen and next_block not in seen:
                    eff.must_err = True
        return eff

    def closure_effects(self, cpath, elem_params):
        key = (cpath, tuple(sorted(elem_params)))
        r = self._closure_eff.get(key)
        if r is not None:
            return r
        B = self.cg.body(cpath)
        if B is None:
            r = Eff()
            r.labels.add("closure-body-missing:%s" % short(cpath))
            self._closure_eff[key] = r
            return r
        self._closure_eff[key] = Eff()          # recursion guard
        bi = E.BodyInfo(B, elem_params=elem_params, inert=self.ef.inert)
        r = self.region_effects(B, bi, None, None, set(), set())
        self._closure_eff[key] = r
        return r

    # ---- "sorted before any other use" ---------------------------------------------------
    def sorted_after(self, B, v, start_blocks, region):
        defs = cfg.simple_defs(B)
        aliases = {v}
        changed = True
        while changed:
            changed = False
            for blk in B.blocks:
                for s in blk["s"]:
                    if s[0] == "a" and not s[1][1] and s[2][0] == "use" and s[2][1][0] in ("c", "m") and \
                            not s[2][1][1][1] and s[2][1][1][0] in aliases and s[1][0] not in aliases:
                        aliases.add(s[1][0])
                        changed = True
        # locals on the way from `&mut v` to the receiver of a sort call (traced backwards from the sort)
        prep = set()
        sort_blocks = set()
        for c in B.calls:
            if not last(c.name or "").startswith("sort") or not c.args or c.args[0][0] not in ("c", "m"):
                continue
            visited = set()
            st = [c.args[0][1][0]]
            found = False
            while st:
                x = st.pop()
                if x in visited:
                    continue
                visited.add(x)
                ds = defs.get(x, [])
                if len(ds) != 1:
                    continue
                _, d = ds[0]
                if d[0] == "callres":
                    fn = cfg.callee_of(d[1]["f"])
                    if last(cfg.callee_name(fn) or "") in ("deref_mut", "as_mut_slice", "as_mut") and d[1]["a"] and \
                            d[1]["a"][0][0] in ("c", "m"):
                        st.append(d[1]["a"][0][1][0])
                    continue
                rv = d[2]
                if rv[0] == "ref" and rv[2][1] in ([], ["*"]):
                    if rv[2][0] in aliases:
                        found = True
                    else:
                        st.append(rv[2][0])
                elif rv[0] == "use" and rv[1][0] in ("c", "m") and not rv[1][1][1]:
                    st.append(rv[1][1][0])
            if found:
                sort_blocks.add(c.block)
                prep |= visited
        if not sort_blocks:
            return False, "never sorted"
        seen = set()
        st = list(start_blocks)
        while st:
            x = st.pop()
            if x in seen or x in region or B.blocks[x]["c"]:
                continue
            seen.add(x)
            blk = B.blocks[x]
            for s in blk["s"]:
                if s[0] != "a":
                    continue
                used = set(cfg.rvalue_uses(s[2])) | ({s[1][0]} if s[1][1] else set())
                if used & aliases:
                    if s[2][0] == "ref" and s[1][0] in prep:
                        continue
                    if s[2][0] == "use" and s[1][0] in aliases:
                        continue
                    return False, "used before the sort (bb%d)" % x
            t = blk["t"]
            if t[0] == "call":
                argl = set()
                for a in t[1]["a"]:
                    argl |= set(cfg.op_locals(a))
                if argl & aliases:
                    return False, "passed to a call before the sort (bb%d)" % x
                if x in sort_blocks:
                    continue
            elif t[0] == "ret" and 0 in aliases:
                return False, "returned unsorted"
            for s in B.succ[x]:
                st.append(s)
        return True, "sorted"

    # ---- one site ------------------------------------------------------------------
    def analyse(self, p, B, site_block, it_local, depth=0):
        """follow the iterator produced at `site_block` (dest local it_local) through the function.
        → (status 'ok'|'bad'|'wrapper', tags [recognisers], labels set, detail)"""
        bi = E.BodyInfo(B, cuts={site_block}, inert=self.ef.inert)
        defs = cfg.simple_defs(B)
        tags, labels, notes = [], set(), []
        loops = None
        work = [it_local]
        seen_it = set()
        wrapper = False
        while work:
            it = work.pop()
            if it in seen_it:
                continue
            seen_it.add(it)
            aliases = {it}
            changed = True
            while changed:
                changed = False
                for blk in B.blocks:
                    if blk["c"]:
                        continue
                    for s in blk["s"]:
                        if s[0] != "a" or s[1][1] or s[1][0] in aliases:
                            continue
                        rv = s[2]
                        if rv[0] == "use" and rv[1][0] in ("c", "m") and rv[1][1][0] in aliases and not rv[1][1][1]:
                            aliases.add(s[1][0])
                            changed = True
                        elif rv[0] == "ref" and rv[2][0] in aliases and rv[2][1] in ([], ["*"]):
                            aliases.add(s[1][0])
                            changed = True
            if 0 in aliases:
                wrapper = True
            # unexplained mentions
            for bi_, blk in enumerate(B.blocks):
                if blk["c"]:
                    continue
                for s in blk["s"]:
                    if s[0] != "a":
                        continue
                    if set(cfg.rvalue_uses(s[2])) & aliases and s[1][0] not in aliases:
                        labels.add("iterator-stored")
            for c in B.calls:
                hit = False
                for a in c.args:
                    if a[0] in ("c", "m") and a[1][0] in aliases:
                        hit = True
                if not hit or c.block == site_block:
                    continue
                decl = c.decl or ""
                name = c.name or decl
                ln = last(decl)
                if decl == ITER + "next":
                    if loops is None:
                        loops = {}
                        for (h, body) in B.natural_loops():
                            loops.setdefault(h, set()).update(body)
                    cands = [(len(body), h, body) for (h, body) in loops.items() if c.block in body]
                    if not cands:
                        labels.add("order-revealing:next-outside-loop")
                        continue
                    _n, h, body = min(cands)
                    allowed = set()
                    tb = c.target
                    if tb is not None and B.blocks[tb]["t"][0] == "switch":
                        sw = B.blocks[tb]["t"]
                        allowed = {bb for (val, bb) in sw[2] if val == 0}
                    eff = self.region_effects(B, bi, body, h, aliases, allowed, next_block=c.block)
                    self._judge(B, eff, tags, labels, notes, [s for b in body for s in B.succ[b] if s not in body],
                                body, "loop")
                elif decl == "core::iter::traits::collect::IntoIterator::into_iter":
                    work.append(c.dest[0])
                elif decl.startswith(ITER) and ln in ADAPT_OK:
                    cl = closure_arg(B, c, defs)
                    if cl:
                        eff = self.closure_effects(cl, self._elem_params(cl))
                        self._judge(B, eff, tags, labels, notes, [], set(), "closure of .%s()" % ln)
                    elif len(c.args) > 1:
                        labels.add("adaptor-with-opaque-callback:%s" % ln)
                    work.append(c.dest[0])
                elif decl.startswith(ITER) and ln in TERM_OK:
                    cl = closure_arg(B, c, defs)
                    if cl:
                        eff = self.closure_effects(cl, self._elem_params(cl))
                        if ln in ("any", "all") and (eff.labels or eff.pushes or "hash-insert" in eff.flags):
                            labels.add("short-circuit-with-effects:%s" % ln)
                        self._judge(B, eff, tags, labels, notes, [], set(), "closure of .%s()" % ln)
                    elif len(c.args) > 1 and ln in ("any", "all", "for_each"):
                        labels.add("consumer-with-opaque-callback:%s" % ln)
                    if ln == "collect":
                        ty = B.local_ty(c.dest[0])
                        if ty.startswith("alloc::vec::Vec<"):
                            ok, why = self.sorted_after(B, c.dest[0], [c.target] if c.target is not None else [],
                                                        set())
                            if ok:
                                tags.append("(i) collect→Vec→sort")
                            else:
                                labels.add("collect-unsorted")
                                notes.append("collected Vec %s" % why)
                        elif ty.startswith(ORDERED_TARGETS):
                            tags.append("(iii) collect into keyed container")
                        else:
                            labels.add("collect-into:%s" % short(ty.split("<")[0]))
                    elif ln in ("sum", "product"):
                        if B.local_ty(c.dest[0]) in INT_TYPES:
                            tags.append("(ii) %s" % ln)
                        else:
                            labels.add("non-associative-%s" % ln)
                    elif ln != "for_each":
                        tags.append("(ii) %s" % ln)
                elif decl == "core::iter::traits::exact_size::ExactSizeIterator::len":
                    tags.append("(ii) len")
                elif last(name) in ("extend", "from_iter") and E.is_keyed_container_fn(name):
                    tags.append("(iii) extend keyed container")
                elif VEC_PUSH.match(name) and c.args and c.args[0][0] in ("c", "m"):
                    v = base_local(B, c.args[0], defs)
                    ok, why = self.sorted_after(B, v, [c.target] if c.target is not None else [], set())
                    if ok:
                        tags.append("(i) extend Vec→sort")
                    else:
                        labels.add("extend-unsorted")
                elif decl.startswith(ITER):
                    labels.add("order-revealing:%s" % ln)
                elif name.startswith("core::mem::drop") or ln == "drop":
                    pass
                else:
                    labels.add("iterator-escapes:%s" % short(name))
        if wrapper:
            return "wrapper", tags, labels, notes
        if not tags and not labels:
            labels.add("iterator-unused-or-untracked")
        return ("bad" if labels else "ok"), tags, labels, notes

    def _elem_params(self, cl):
        B = self.cg.body(cl)
        return tuple(range(2, (B.argc if B else 1) + 1))

    def _judge(self, B, eff, tags, labels, notes, exits, region, what):
        """fold the effects of one consuming region into the site verdict"""
        if eff.must_err and "early-exit" not in eff.labels:
            tags.append("(iv') every iteration reports an error: no build output")
            return
        bad = set(eff.labels)
        for v in sorted(eff.pushes):
            ok, why = self.sorted_after(B, v, exits, region)
            nm = B.local_name(v) or "tmp"
            if ok:
                tags.append("(i) push→sort %s" % nm)
            else:
                bad.add("push-unsorted:%s" % nm)
                notes.append("Vec %s %s" % (nm, why))
        if bad:
            labels |= bad
            return
        got = False
        for f, t in (("hash-insert", "(iii) only keyed-container inserts"), ("diag", "(iv) only diagnostics"),
                     ("stdio", "(v) only debug printing to stdout/stderr"), ("elem-update", "(vi) per-element update")):
            if f in eff.flags:
                tags.append(t)
                got = True
        if not got and not eff.pushes:
            tags.append("(ii) effect-free %s" % what)


# --------------------------------------------------------------------------- R1
def find_sites(cg, lint_crates):
    """[(fn path, Body, Call, kind)] order-revealing uses of std hash containers"""
    out = []
    users = {}
    for p in sorted(cg.bodies):
        cn, b = cg.bodies[p]
        if cn not in lint_crates:
            continue
        B = cfg.Body(b)
        for c in B.calls:
            n = c.name or ""
            d = c.decl or ""
            ln = last(n) or last(d)
            if any(h in n for h in HASH_CONT) and ln in ORDER_METHODS:
                out.append((p, B, c, "method"))
            elif ln in ("extend", "from_iter", "chain", "zip", "append", "extend_from_slice") and c.args:
                # a hash container handed over as IntoIterator
                for a in c.args[(1 if ln in ("extend", "append", "chain", "zip") else 0):]:
                    if a[0] in ("c", "m"):
                        ty = B.local_ty(a[1][0]).lstrip("&").replace("mut ", "")
                        if ty.startswith(HASH_CONT):
                            out.append((p, B, c, "into-iterable"))
            if d.endswith("::new_debug") and "fmt::rt::Argument" in d and \
                    re.match(r"^\[(&'?\S* ?)*(std::collections::hash::(map::HashMap|set::HashSet)|hashbrown::)",
                             (c.fn or {}).get("g") or ""):
                out.append((p, B, c, "debug-fmt"))
            txt = n + " " + ((c.fn or {}).get("g") or "")
            if HASH_ITER_RE.search(txt):
                users.setdefault(p, c)
    return out, users


def encoded_types(F, r):
    """ADTs reachable from dora_bytecode::program::Program (what bincode writes into a package)"""
    try:
        c = F.crate("dora_bytecode")
    except Exception:
        return
    adts = {a["path"]: a for a in c.items["adts"]}
    root = None
    for pth in adts:
        if pth.endswith("::Program") and "program" in pth:
            root = pth
    if not r.anchor("dora_bytecode::…::Program", root):
        return
    seen, st = set(), [root]
    n = 0
    while st:
        x = st.pop()
        if x in seen:
            continue
        seen.add(x)
        a = adts[x]
        n += 1
        r.instance("encoded:%s" % x, sample={"encoded type": x} if n < 3 else None)
        for v in a["variants"]:
            for f in v["fields"]:
                ty = f["ty"]
                if "HashMap" in ty or "HashSet" in ty:
                    r.violation("%s:%s:hash-container-in-encoded-type" % (x, f["name"]),
                                "field `%s: %s` of a type that is bincode-encoded into packages is a hash container: "
                                "its encoding writes the entries in hash order" % (f["name"], ty), a.get("file"))
                for tok in E.PATH_RE.findall(ty):
                    if tok in adts and tok not in seen:
                        st.append(tok)
    r.floor("types encoded into a package", n, 30)


def rule_r1(chk, F, cg, ef, reach, entries):
    r = chk.rule("C15.R1", "every order-revealing use of a randomly seeded std HashMap/HashSet reachable from a build "
                           "entry is consumed order-insensitively (sorted, folded, keyed-inserted, diagnostics only); "
                           "package types hold no hash containers")
    lint = Lint(F, cg, ef)
    lint_crates = set(LINT_LIBS) | {"dora"}
    present = sorted(set(cn for (cn, b) in cg.bodies.values() if cn in lint_crates))
    if RESTRICTED:
        r.observe("VERIF_PACKAGES set: crate/site floors not applied (self-test mode); crates with facts: %s" % present)
    else:
        r.floor("crates analysed", len(present), 9)
    # errors abort the build before anything is emitted (premise of recogniser iv')
    cp = "dora::driver::start::compile_program"
    if RESTRICTED and cp not in cg.bodies:
        r.observe("driver crate not among VERIF_PACKAGES: the errors-abort-the-build premise is not re-checked")
    elif r.anchor(cp, cp in cg.bodies):
        B = cg.body(cp)
        rep = B.calls_to("driver::start::report_errors")
        emit = B.calls_to("dora_frontend::emit_program") or B.calls_to("program_emitter::emit_program")
        if r.anchor("compile_program: report_errors and emit_program calls", rep and emit):
            ok = False
            tb = rep[0].target
            if tb is not None and B.blocks[tb]["t"][0] == "switch":
                sw = B.blocks[tb]["t"]
                op = sw[1]
                if op[0] in ("c", "m") and op[1][0] == rep[0].dest[0]:
                    false_t = [bb for (val, bb) in sw[2] if val == 0]
                    true_t = [x for x in [bb for (val, bb) in sw[2] if val != 0] + [sw[3]] if x not in false_t]
                    ok = bool(false_t) and all(emit[0].block not in B.reachable(t) for t in true_t) and \
                        B.dominates(tb, emit[0].block)
            r.instance("compile_program:errors-abort-before-emit")
            if not ok:
                r.violation(cp + ":emit-after-errors", "emit_program is no longer guarded by `report_errors(..) == "
                            "false`: loops that only report errors can now influence an emitted package",
                            emit[0].where())
    sites, users = find_sites(cg, lint_crates)
    keys = {}
    evaluated = 0
    live = 0
    site_fns = set()
    wrappers = {}
    queue = []
    for (p, B, c, kind) in sites:
        recv = c.args[0] if c.args else None
        if kind == "into-iterable":
            recv = [a for a in c.args if a[0] in ("c", "m") and
                    B.local_ty(a[1][0]).lstrip("&").replace("mut ", "").startswith(HASH_CONT)][0]
        recv_ty = B.local_ty(recv[1][0]) if recv and recv[0] in ("c", "m") else ""
        h = hasher_of(c.fn or {}, recv_ty)
        if h == "fixed":
            r.observe("deterministic hasher, not a site: %s in %s" % (short(c.name), p))
            continue
        queue.append((p, B, c, kind, recv, h, None))
    done = set()
    while queue:
        (p, B, c, kind, recv, h, via) = queue.pop(0)
        defs = cfg.simple_defs(B)
        cont = place_name(B, recv[1], defs) if recv and recv[0] in ("c", "m") else "?"
        meth = last(c.name or c.decl or "")
        if via:
            meth = "%s()" % last(short(via))
        base = "%s:%s.%s" % (p, cont, meth)
        n = keys.get(base, 0)
        keys[base] = n + 1
        key = base if n == 0 else "%s#%d" % (base, n + 1)
        if (p, c.block) in done:
            continue
        done.add((p, c.block))
        site_fns.add(p)
        evaluated += 1
        if kind == "debug-fmt":
            status, tags, labels, notes = "bad", [], {"debug-format-of-hash-container"}, []
        elif kind == "into-iterable":
            nm = c.name or ""
            if E.is_keyed_container_fn(nm):
                status, tags, labels, notes = "ok", ["(iii) extend keyed container"], set(), []
            else:
                status, tags, labels, notes = "bad", [], {"hash-container-as-iterable:%s" % short(nm)}, []
        elif meth == "retain" and not via:
            cl = closure_arg(B, c, defs)
            eff = lint.closure_effects(cl, lint._elem_params(cl)) if cl else None
            if eff is not None and not eff.labels and not eff.pushes and "hash-insert" not in eff.flags:
                status, tags, labels, notes = "ok", ["(ii) retain with effect-free predicate"], set(), []
            else:
                status, tags, labels, notes = "bad", [], set(eff.labels if eff else {"retain-opaque-predicate"}) or \
                    {"retain-predicate-with-effects"}, []
        else:
            if c.dest[1]:
                status, tags, labels, notes = "bad", [], {"iterator-stored"}, []
            else:
                status, tags, labels, notes = lint.analyse(p, B, c.block, c.dest[0])
        is_live = p in reach
        if status == "wrapper":
            callers = sorted(q for q in cg.redges.get(p, ()) if q in cg.bodies)
            wrappers[p] = callers
            r.instance(key, sample={"site": key, "verdict": "returns the iterator; callers analysed", "callers": callers})
            for q in callers:
                QB = cg.body(q)
                for qc in QB.calls:
                    if qc.fn and p in [t for (t, k) in cg.targets(qc.fn)]:
                        queue.append((q, QB, qc, "method", qc.args[0] if qc.args else None, h, p))
            if not callers:
                r.observe("dead site (iterator-returning wrapper without callers): %s" % key)
            continue
        exc = EXCEPTIONS.get((p, "%s.%s" % (cont, meth)))
        verdict = None
        if status == "ok":
            verdict = "; ".join(sorted(set(tags)))
        elif exc is not None and labels <= set(exc[0]):
            verdict = "exception: %s" % exc[1]
        r.instance(key, sample={"site": key, "hasher": h, "verdict": verdict or sorted(labels), "live": is_live})
        if is_live:
            live += 1
        if verdict is not None:
            lint_log.append((key, is_live, verdict))
            if not is_live:
                r.observe("dead site (no caller from a build entry; accepted: %s): %s" % (verdict[:60], key))
            continue
        lint_log.append((key, is_live, "REJECTED %s" % sorted(labels)))
        msg = ("the iteration order of `%s` (std hash container, %s hasher) can influence state that outlives the "
               "iteration: %s%s" % (cont, h, ", ".join(sorted(labels)), ("; " + "; ".join(notes)) if notes else ""))
        if not is_live:
            r.observe("dead site (no caller from a build entry; would be rejected: %s): %s" % (sorted(labels), key))
            continue
        path = cg.path(entries[0], {p}) if entries else None
        for e in entries[1:]:
            if path is None:
                path = cg.path(e, {p})
        if path:
            msg += "; reached via " + " → ".join(short(x) for x in (path if len(path) <= 5 else path[:1] + path[-4:]))
        r.violation(key, msg, c.where())
    # fail closed: a hash iterator consumed in a function without an attributed site
    for p, c in sorted(users.items()):
        if p not in site_fns and p not in wrappers:
            r.violation("%s:unattributed-hash-iterator" % p,
                        "a std hash-container iterator (%s) is consumed here but was not produced by a recognised "
                        "site in this function: the lint cannot vouch for it" % short(c.name), c.where())
    unused = [k for k in EXCEPTIONS if not any(l[0].startswith("%s:%s" % k) for l in lint_log)]
    for k in unused:
        r.observe("stale exception entry (no such site any more): %s:%s" % k)
    if not RESTRICTED:
        r.floor("hash-order sites evaluated", evaluated, 23)
        r.floor("hash-order sites reachable from a build entry", live, 19)
    encoded_types(F, r)
    return lint


lint_log = []


# --------------------------------------------------------------------------- R2
SOURCES = [
    # (kind, regex on the resolved callee, sink kinds that make it a violation)
    ("clock", re.compile(r"^std::time::(Instant|SystemTime)::now$"), ("output", "subprocess")),
    ("random", re.compile(r"^<?(rand|fastrand|getrandom|rand_core)::|^std::(hash::random|collections::hash::map)::"
                          r"RandomState::new$"), ("output", "subprocess")),
    ("pid", re.compile(r"^std::process::id$"), ("output", "subprocess")),
    ("thread-id", re.compile(r"^std::thread::(current|Thread::id)$"), ("output", "subprocess")),
    ("env", re.compile(r"^std::env::(var|var_os|vars|vars_os)$"), ("output",)),
    ("temp-name", re.compile(r"^<?tempfile::"), ("output",)),
    # location of the compiler installation / working directory: constant across runs on one machine → recorded only
    ("path-of-installation", re.compile(r"^std::env::(current_exe|temp_dir|home_dir)$"), ()),
    # the property compares builds made "from different working directories": the working directory must not reach
    # an emitted artefact (source paths are stored in the package and in the stack-trace string table)
    ("working-directory", re.compile(r"^std::env::current_dir$"), ("output", "subprocess")),
]
TEMP_TY = re.compile(r"NamedTempFile|TempPath|TempDir")
# Frozen, one reason each: (function, source kind) pairs whose use of the value is an *input*, not ambient state
R2_EXCEPTIONS = {
    ("dora::driver::test::command_test", "working-directory"):
        "`dora test` without a path argument: the working directory is the documented default of the omitted package "
        "path (TestArgs::path, 'default: current directory') — it names the sources, exactly as passing the path would",
}


def rule_r2(chk, F, cg, ef, reach):
    from rules.c15_taint import Taint
    r = chk.rule("C15.R2", "no clock / random / pid / thread-id / environment / temp-file-name / pointer-address value "
                           "obtained in the build pipeline flows into file contents or a subprocess command line "
                           "(timing and diagnostic printouts are allowed)")
    scope = set(LINT_LIBS) | {"dora"}
    seeds = {}           # kind -> [(fn, local, where, callee)]
    for p in sorted(cg.bodies):
        cn, b = cg.bodies[p]
        if cn not in scope:
            continue
        B = cfg.Body(b)
        for c in B.calls:
            n = c.name or ""
            for (kind, rx, bad) in SOURCES:
                if not rx.search(n):
                    continue
                if kind == "temp-name" and not TEMP_TY.search(B.local_ty(c.dest[0])):
                    continue
                if c.dest[1]:
                    continue
                seeds.setdefault(kind, []).append((p, c.dest[0], c.where(), n))
        # pointer → integer
        for blk in B.blocks:
            if blk["c"]:
                continue
            for s in blk["s"]:
                if s[0] == "a" and s[2][0] == "cast" and "ExposeProvenance" in str(s[2][1]) and not s[1][1]:
                    seeds.setdefault("pointer-address", []).append((p, s[1][0], "%s:%d" % (B.file, s[3]), "as usize"))
    tn = Taint(cg, ef)
    total = 0
    seen_keys = {}
    bad_for = {k: bad for (k, rx, bad) in SOURCES}
    bad_for["pointer-address"] = ("output", "subprocess")
    for kind in sorted(seeds):
        for (p, loc, where, callee) in seeds[kind]:
            total += 1
            live = p in reach
            record_only = not bad_for[kind]
            hits, nfn, truncated = tn.run([(p, loc)], budget=300 if record_only else 4000)
            key = "%s:%s:%s" % (p, kind, short(callee))
            seen_keys[key] = seen_keys.get(key, 0) + 1
            if seen_keys[key] > 1:
                key += "#%d" % seen_keys[key]
            sinks = sorted(set(h[0] for h in hits))
            r.instance(key, sample={"source": key, "reaches": sinks, "functions touched": nfn, "live": live})
            r.observe("%s %s in %s → %s" % (kind, short(callee), short(p),
                                            ", ".join("%s(%s in %s)" % (h[0], h[2], short(h[1])) for h in hits) or
                                            "no sink"))
            if truncated and record_only:
                r.observe("%s %s in %s spreads widely (e.g. source-file paths stored in the package); recorded only, "
                          "not a per-process value" % (kind, short(callee), short(p)))
            if not live:
                continue
            if (p, kind) in R2_EXCEPTIONS:
                r.observe("%s in %s: accepted — %s" % (kind, short(p), R2_EXCEPTIONS[(p, kind)]))
                continue
            crate = p.split("::", 1)[0]
            bad = sorted((h for h in hits if h[0] in bad_for[kind]),
                         key=lambda h: (h[1].split("::", 1)[0] != crate, h[0], h[1]))
            if bad:
                r.violation("%s→%s" % (key, "+".join(sorted(set(h[0] for h in bad)))),
                            "a %s value (%s) obtained in %s reaches %s%s: the emitted artefact differs from run to "
                            "run" % (kind, short(callee), short(p),
                                     "; ".join("%s `%s` in %s" % ("file contents written by" if h[0] == "output" else
                                                                  "the command line built by", h[2], short(h[1]))
                                               for h in bad[:3]),
                                     " (and %d more sinks)" % (len(bad) - 3) if len(bad) > 3 else ""), bad[0][3])
            elif truncated and not record_only:
                r.violation(key + ":analysis-budget", "taint propagation did not converge within its budget", where)
    if not RESTRICTED:
        r.floor("per-process sources examined", total, 12)
    return seeds


# --------------------------------------------------------------------------- R3
STRIP_FLAGS = {"-Wl,-x", "-Wl,--discard-all", "-Wl,-s", "-Wl,--strip-all", "-s", "-Wl,-S", "-Wl,--strip-debug"}


def rule_r3(chk, F, cg, ef):
    r = chk.rule("C15.R3", "every linker invocation built by the driver passes the strip-local-symbols flag "
                           "(`-Wl,-x`) before the command is run, on every path")
    cands = []
    for p in sorted(cg.bodies):
        cn, b = cg.bodies[p]
        if cn != "dora":
            continue
        B = cfg.Body(b)
        defs = None
        libs, flags, runs = [], [], []
        for c in B.calls:
            n = c.name or ""
            if n == "std::process::Command::arg" and len(c.args) > 1:
                defs = defs or cfg.simple_defs(B)
                o = cfg.origin(B, c.args[1], defs)
                sv = o[1].get("str") if o[0] == "const" else None
                if sv is None:
                    continue
                if re.match(r"^-l\w+", sv):
                    libs.append((c, sv))
                if sv in STRIP_FLAGS:
                    flags.append((c, sv))
            elif n in ("std::process::Command::status", "std::process::Command::output",
                       "std::process::Command::spawn"):
                runs.append(c)
        if libs:
            cands.append((p, B, libs, flags, runs))
    if RESTRICTED and not any(cn == "dora" for (cn, b) in cg.bodies.values()):
        r.observe("driver crate not among VERIF_PACKAGES: rule not evaluated in this self-test run")
        return
    if not r.anchor("a driver function that builds a linker command line (`-l…` arguments)", cands):
        return
    for (p, B, libs, flags, runs) in cands:
        bi = ef.body_info(p)

        def cmd_of(call):
            return set(loc[1] for loc in bi.closure_of(bi.value(call.args[0])) if loc[0] == "L" and
                       "process::Command" in B.local_ty(loc[1]) and not B.local_ty(loc[1]).startswith("&"))
        cmds = set()
        for (c, sv) in libs:
            cmds |= cmd_of(c)
        r.anchor("%s: Command local receiving the -l arguments" % p, cmds)
        myruns = [c for c in runs if cmd_of(c) & cmds]
        r.anchor("%s: the linker command is run" % p, myruns)
        myflags = [(c, sv) for (c, sv) in flags if cmd_of(c) & cmds]
        r.instance(p + ":strip-flag", sample={"fn": p, "libs": [sv for (c, sv) in libs],
                                              "strip flags": [sv for (c, sv) in myflags]})
        if not myflags:
            r.violation(p + ":no-strip-local-symbols-flag",
                        "the link command (%s) is built without `-Wl,-x`: the local symbols that name the C compiler's "
                        "randomly named temporary objects stay in the executable, so two links of the same object "
                        "differ" % " ".join(sv for (c, sv) in libs), B.file)
            continue
        for run in myruns:
            if not any(B.dominates(c.block, run.block) for (c, sv) in myflags):
                r.violation(p + ":strip-flag-skippable",
                            "a path reaches the linker invocation without passing the strip-local-symbols flag",
                            run.where())


# --------------------------------------------------------------------------- R4
def rule_r4(chk, F):
    import doraq
    r = chk.rule("C15.R4", "(observation) iteration over Dora HashMap/HashSet in pkgs/boots; Dora's hash has no random "
                           "seed, so sites are recorded; a Hash impl built on object identity/addresses fails")
    D = F.dora()
    files = sorted(f for f in D if f.startswith("pkgs/boots/"))
    if not r.anchor("pkgs/boots/*.dora", files):
        return
    names = set()
    decl = re.compile(r"^(?:let(?:mut)?\s*|pub\s*|mut\s*)*([A-Za-z_][A-Za-z0-9_]*)(?::|=)\s*(?:std::)?(?:collections::)?"
                      r"Hash(Map|Set)\[")
    for f in files:
        for n in doraq.walk(D[f]):
            if n[0] in ("FIELD_DECL", "LET", "PARAM"):
                tx = doraq.text(n)
                m = decl.match(tx.replace("let mut ", "let ").replace("let ", ""))
                if m:
                    names.add(m.group(1))
    sites = 0
    for f in files:
        if "/tests" in f or f.endswith("_tests.dora"):
            continue
        for n in doraq.walk(D[f]):
            if n[0] == "FOR_EXPR":
                tx = doraq.text(n)
                m = re.match(r"^for(.+?)\bin ([^{]+)\{", tx)
                if not m:
                    continue
                it = m.group(2).strip()
                tail = re.split(r"[.]", it)[-1]
                tail = re.sub(r"\(.*\)$", "", tail)
                if tail in names or (tail in ("keys", "values", "iter") and len(it.split(".")) > 1 and
                                     it.split(".")[-2] in names):
                    sites += 1
                    r.instance("%s:for-in:%s#%d" % (f, it, sites))
                    if sites <= 25:
                        r.observe("%s:%d iterates hash container `%s`" % (f, n[1], it))
        for n in doraq.walk(D[f]):
            if n[0] == "IMPL":
                tx = doraq.text(n)
                if re.match(r"^impl(\[.*?\])?\s*(std::)?(traits::)?Hash for", tx):
                    r.instance("%s:impl-hash:%s" % (f, tx[:60]))
                    if re.search(r"identity|address|unsafe|\bptr\b|to_address|as_ptr", tx):
                        r.violation("%s:%s:hash-by-identity" % (f, re.sub(r"\{.*", "", tx)[:80]),
                                    "this Hash impl derives the hash from an object address/identity: iteration order "
                                    "of containers keyed by it changes from run to run", "%s:%d" % (f, n[1]))
    r.floor("Dora hash-container iteration sites in boots", sites, 8)


# --------------------------------------------------------------------------- driver
def diag_base(cg):
    out = {}
    for p in cg.bodies:
        if p.startswith("dora_frontend::error::diag::Diagnostic::"):
            ln = last(p)
            if ln.startswith("report"):
                out[p] = "err"
            elif ln == "warn":
                out[p] = "warn"
    return out


def build_entries(cg):
    ents = []
    for p in ("dora::main", "dora_cannon_compiler::main", "dora_startup::dora_boots_compiler_main",
              "dora_startup::boots::dora_boots_compiler_main"):
        if p in cg.bodies:
            ents.append(p)
    return ents


def run(chk, F):
    del lint_log[:]
    cg = CallGraph(F, libs=GRAPH_LIBS, bins=BINS)
    r0 = chk.rule("C15.R0", "analysis frame: build-producing entry points and the frontend's diagnostic sink exist")
    entries = build_entries(cg)
    db = diag_base(cg)
    if not RESTRICTED:
        r0.anchor("dora::main", "dora::main" in cg.bodies)
        r0.anchor("dora_cannon_compiler::main (bin)", "dora_cannon_compiler::main" in cg.bodies)
        r0.anchor("dora_startup::boots::dora_boots_compiler_main",
                  "dora_startup::boots::dora_boots_compiler_main" in cg.bodies)
        r0.anchor("dora_frontend::error::diag::Diagnostic::{report,warn}",
                  "err" in db.values() and "warn" in db.values())
    r0.instance("entries", sample={"entries": entries})
    if entries:
        reach = cg.reachable_from(entries)
    elif RESTRICTED:
        r0.observe("no build entry among VERIF_PACKAGES: every site is treated as live")
        reach = set(cg.bodies)
    else:
        return
    ef = E.Effects(cg, db)
    rule_r1(chk, F, cg, ef, reach, entries)
    rule_r2(chk, F, cg, ef, reach)
    rule_r3(chk, F, cg, ef)
    rule_r4(chk, F)
    if os.environ.get("C15_DEBUG"):
        for (k, lv, v) in lint_log:
            print("  %s %s\n        %s" % ("live" if lv else "DEAD", k, v))
    chk.assumptions += [
        "effects of Drop impls and of `unsafe` pointer arithmetic are not modelled; a sort is taken to establish a "
        "canonical order (its key is assumed to distinguish the elements, as it does for the map keys sorted today)",
        "diagnostics, stdout/stderr text and timing printouts are not build outputs",
        "only host-cfg, non-test code is analysed (the facts come from `cargo check` on this machine)",
    ]

"""Guarded narrowing casts of instruction operands (used as C08.R6 for arm64 and C07.R5 for x64).

An `as` cast from a wider to a narrower integer type silently drops the high bits.  In an assembler
that is exactly "an operand that cannot be encoded is silently truncated".  Rule: a narrowing cast
whose source derives (through copies and monotone arithmetic with constants) from a non-`self`
integer *parameter* of the function must be preceded, on every path, by a guard that can bound the
value from above (a comparison `<`/`<=` with a constant, or a boolean predicate call such as
fits_*/is_* applied to a member of the value's derivation family) — and, when the destination is
unsigned and the source signed, by a guard that can bound it from below — unless the cast operand
is explicitly masked/shifted (deliberate bit extraction).
The rule checks the *existence* of the guards, not their numeric adequacy (stated in the evidence).
"""
import cfg

W = {"u8": 8, "i8": 8, "u16": 16, "i16": 16, "u32": 32, "i32": 32, "u64": 64, "i64": 64, "usize": 64, "isize": 64,
     "u128": 128, "i128": 128}
MONO = ("Div", "Shr", "Mul", "Add", "Sub", "AddWithOverflow", "SubWithOverflow", "MulWithOverflow")


def last(p):
    return p.rsplit("::", 1)[-1]


def family(B, local, defs):
    """(set of locals in the derivation chain, root local, masked?, shifted?)"""
    fam = {local}
    masked = shifted = False
    cur = local
    for _ in range(24):
        ds = defs.get(cur, [])
        if len(ds) != 1:
            break
        kind = ds[0][1]
        if kind[0] == "callres":
            break
        rv = kind[2]
        nxt = None
        if rv[0] == "use" and rv[1][0] in ("c", "m"):
            nxt = rv[1][1][0]
        elif rv[0] == "cast" and rv[2][0] in ("c", "m"):
            nxt = rv[2][1][0]
        elif rv[0] == "bin":
            a, b = rv[2], rv[3]
            if rv[1] == "BitAnd" and (a[0] == "k" or b[0] == "k"):
                masked = True
                nxt = (a if a[0] != "k" else b)[1][0] if (a[0] != "k" or b[0] != "k") else None
            elif rv[1] in ("Shr", "Shl") and b[0] == "k":
                shifted = shifted or rv[1] == "Shr"
                nxt = a[1][0] if a[0] != "k" else None
            elif rv[1] in MONO and (a[0] == "k") != (b[0] == "k"):
                nxt = (a if a[0] != "k" else b)[1][0]
            elif rv[1] in MONO and a[0] != "k" and b[0] != "k":
                nxt = a[1][0]
        elif rv[0] == "un" and rv[2][0] in ("c", "m"):
            nxt = rv[2][1][0]
        if nxt is None:
            break
        cur = nxt
        fam.add(cur)
    return fam, cur, masked, shifted


def edge_of(B, s, b):
    """on which edge of switch block s does block b lie? → value list (e.g. [0] = false edge) or None"""
    t = B.blocks[s]["t"]
    hits = []
    for (v, tb) in t[2]:
        if b == tb or b in B.reachable(tb, avoid={s}):
            hits.append(v)
    ob = t[3]
    if b == ob or b in B.reachable(ob, avoid={s}):
        hits.append("other")
    return hits


def guards_for(B, blk, fam, defs, _depth=0):
    """scan dominating branches: returns (has_upper, has_lower, details)"""
    up = lo = False
    det = []
    for s in range(B.n):
        t = B.blocks[s]["t"]
        if t[0] != "switch" or s == blk or not B.dominates(s, blk) or t[1][0] not in ("c", "m"):
            continue
        hits = edge_of(B, s, blk)
        if len(hits) != 1:
            continue
        on_true = hits[0] == "other" or hits[0] == 1
        o = cfg.origin(B, t[1], defs)
        if o[0] == "local" and not o[2] and hits[0] != "other" and _depth < 2:
            # a discriminator local assigned constants in several branches (`let mode = if a <= x && x < b {1} ..`):
            # the guards that hold where the selecting constant was assigned hold here as well
            dblocks = []
            for (db, st) in defs.get(o[1], []):
                if st[0] == "a" and st[2][0] == "use" and st[2][1][0] == "k" and st[2][1][1].get("v") == hits[0]:
                    dblocks.append(db)
            if dblocks:
                res = [guards_for(B, db, fam, defs, _depth + 1) for db in dblocks]
                if all(x[0] for x in res):
                    up = True
                if all(x[1] for x in res):
                    lo = True
                det.append("via discriminator _%d == %s" % (o[1], hits[0]))
            continue
        neg = False
        if o[0] == "un" and o[1] == "Not":
            neg = True
            o = cfg.origin(B, o[2], defs)
        truth = on_true != neg
        if o[0] == "bin" and o[1] in ("Lt", "Le", "Gt", "Ge", "Eq", "Ne"):
            a, b = o[2], o[3]
            la = a[1][0] if a[0] in ("c", "m") else None
            lb = b[1][0] if b[0] in ("c", "m") else None
            fa = la is not None and bool(family(B, la, defs)[0] & fam)
            fb = lb is not None and bool(family(B, lb, defs)[0] & fam)
            op = o[1]
            if not truth:
                op = {"Lt": "Ge", "Le": "Gt", "Gt": "Le", "Ge": "Lt", "Eq": "Ne", "Ne": "Eq"}[op]
            if fa and not fb:
                if op in ("Lt", "Le", "Eq"):
                    up = True
                    det.append("%s bb%d" % (op, s))
                if op in ("Gt", "Ge", "Eq"):
                    lo = True
                    det.append("%s bb%d" % (op, s))
            elif fb and not fa:
                if op in ("Gt", "Ge", "Eq"):
                    up = True
                    det.append("rev-%s bb%d" % (op, s))
                if op in ("Lt", "Le", "Eq"):
                    lo = True
                    det.append("rev-%s bb%d" % (op, s))
        elif o[0] == "call" and truth:
            fn = cfg.callee_of(o[1]["f"])
            nm = cfg.callee_name(fn) or ""
            ret_bool = True
            if last(nm).startswith(("fits", "is_", "can_")) or "fits" in last(nm):
                for a in o[1]["a"]:
                    if a[0] in ("c", "m") and (family(B, a[1][0], defs)[0] & fam):
                        up = lo = True
                        det.append("pred %s bb%d" % (last(nm), s))
    return up, lo, det


def run(chk, F, rid, module_prefix, what):
    r = chk.rule(rid, "%s: a narrowing `as` cast of a value derived from an operand parameter is preceded by guards "
                      "that can bound it (upper bound; lower bound too for signed→unsigned), or is an explicit "
                      "mask/shift extraction" % what)
    c = F.crate("dora_asm")
    total = scoped = 0
    for p, mb in sorted(c.mir.items()):
        if not p.startswith(module_prefix) or "::tests::" in p:
            continue
        B = cfg.Body(mb)
        defs = None
        for bi, blk in enumerate(B.blocks):
            if blk["c"] or bi not in B.reachable(0):
                continue
            for s in blk["s"]:
                if not (s[0] == "a" and s[2][0] == "cast" and s[2][1] == "IntToInt" and s[2][2][0] in ("c", "m")):
                    continue
                src_l = s[2][2][1][0]
                src, dst = B.local_ty(src_l), s[2][3]
                if src not in W or dst not in W or W[src] <= W[dst]:
                    continue
                total += 1
                if defs is None:
                    defs = cfg.simple_defs(B)
                fam, root, masked, shifted = family(B, src_l, defs)
                # root must be a non-self integer parameter (or a field of a by-value operand parameter)
                is_param = 2 <= root <= B.argc or (root == 1 and "Assembler" not in B.local_ty(1)
                                                   and B.local_ty(1) in W)
                if not is_param:
                    # destructured operand structs: `let MemOperand { base, offset } = opnd;`
                    ds = defs.get(root, [])
                    if len(ds) == 1 and ds[0][1][0] == "a" and ds[0][1][2][0] == "use" and \
                            ds[0][1][2][1][0] in ("c", "m") and 2 <= ds[0][1][2][1][1][0] <= B.argc:
                        is_param = True
                if not is_param:
                    continue
                scoped += 1
                nm = B.local_name(src_l) or B.local_name(root) or "_%d" % src_l
                key = "%s:%s as %s" % (p, nm, dst)
                if not (masked or shifted):
                    # little-endian byte splitting: the same value is also cast after `>> k` in this function
                    for blk2 in B.blocks:
                        for s2 in blk2["s"]:
                            if s2[0] == "a" and s2[2][0] == "cast" and s2[2][1] == "IntToInt" and \
                                    s2[2][2][0] in ("c", "m") and s2[2][3] == dst and s2 is not s:
                                f2, r2, m2, sh2 = family(B, s2[2][2][1][0], defs)
                                if sh2 and (f2 & fam):
                                    shifted = True
                if masked or shifted:
                    r.instance(key + "@%d" % s[3], nontrivial=False, sample={"fn": p, "cast": "%s→%s" % (src, dst),
                                                                             "accepted": "mask/shift extraction"})
                    continue
                up, lo, det = guards_for(B, bi, fam, defs)
                need_lo = src.startswith("i") and dst.startswith("u")
                ok = up and (lo or not need_lo)
                r.instance(key + "@%d" % s[3], sample={"fn": p, "cast": "%s→%s" % (src, dst), "guards": det[:4],
                                                      "ok": ok})
                if not ok:
                    miss = []
                    if not up:
                        miss.append("no upper-bound guard")
                    if need_lo and not lo:
                        miss.append("no lower-bound guard")
                    r.violation(key + ":unguarded",
                                "`%s as %s` narrows an operand-derived %s with %s on the path to the cast: values "
                                "outside %s are silently truncated instead of refused" % (
                                    nm, dst, src, " and ".join(miss), dst), "%s:%d" % (B.file, s[3]))
    r.observe("narrowing casts in %s: %d, of which %d derive from an operand parameter; guard existence is checked, "
              "not numeric adequacy" % (module_prefix, total, scoped))
    return scoped

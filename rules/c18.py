"""C18 — packages and bytecode survive being written and read back.

Decided clauses (static; nothing is executed):
  R1  per opcode the bytecode writer, the Rust reader and the Dora reader agree on number, order and encoding class
      of the operands (signatures derived by abstract interpretation of the function bodies, see c18_hir/c18_dora),
      both readers route operand i into the same field of the instruction, the variable- and fixed-width codecs
      agree on their constants, and forward-jump placeholders are patched where they were reserved
  R2  opcode numbering: tools/bytecode.toml = constants in dora-bytecode/src/opcode.rs = constants in
      pkgs/boots/bytecode/opcode.dora (position = value), From<BytecodeOpcode> for u8 / TryFrom<u8> is an inverse
      table pair (rules/tables.py), From<ConstPoolOpcode> for u8 is total and injective
  R3  every ADT under dora_bytecode::Program has both a bincode Encode and Decode impl; hand-written pairs encode and
      decode the same types; decode_program_from_bytes rejects trailing bytes and never panics on the decode path
R4 (wire codecs) is a separate, thorough-tier rule and not part of this module.
"""
import re

import cfg
import doraq
import facts
import hirq
from hirq import def_path, is_node, last
from rules import tables
from rules import c18_hir as H
from rules import c18_dora as DD

CRATE = "dora_bytecode"
OPC_ENUM = "dora_bytecode::data::BytecodeOpcode"
INSN_ENUM = "dora_bytecode::data::BytecodeInstruction"
WRITER = "dora_bytecode::writer::BytecodeWriter"
READER = "dora_bytecode::reader::BytecodeReader"
READ_ENTRY = "read_instruction"
DORA_READER = "pkgs/boots/bytecode/reader.dora"
DORA_DIR = "pkgs/boots/bytecode/"
TOML = "tools/bytecode.toml"


def _strip_generics(t):
    return re.sub(r"<.*>$", "", t or "")


# =============================================================================================== R2 numbering

def load_toml():
    import tomllib
    with open(facts.repo_path(TOML), "rb") as fh:
        cfgd = tomllib.load(fh)
    return {s: list(v.get("variants", [])) for s, v in cfgd.items() if isinstance(v, dict)}


def run_r2(r, F, c, D):
    out = {"opc": None, "dora_consts": {}, "sections": {}}
    try:
        sections = load_toml()
    except Exception as e:                                     # noqa: BLE001
        r.anchor(TOML + " (%s)" % type(e).__name__, None)
        return out
    if not r.anchor(TOML, sections):
        return out
    out["sections"] = sections
    # Rust side: constants of the generated module, in declaration order; a section generated as a Rust enum
    # (`rust_enum = true`) is represented by its discriminants
    mod = CRATE + "::opcode::"
    rc = sorted((k for k in c.items["consts"] if k["path"].startswith(mod) and isinstance(k.get("value"), int)),
                key=lambda k: (k.get("file") or "", k.get("line") or 0))
    rust_consts = [(last(k["path"]), k["value"]) for k in rc]
    for s in sections:
        a = c.adt("opcode::" + s)
        if a is not None and a.get("kind") == "enum":
            rust_consts += [(s + "_" + v["name"], v.get("discr")) for v in a["variants"]]
    r.anchor("constants of " + mod, rust_consts)
    tables.check_generated_numbering(r, "numbering", sections, rust_consts, "rust")
    dt = D.get(DORA_DIR + "opcode.dora")
    if r.anchor(DORA_DIR + "opcode.dora", dt):
        dconsts = [(n, v) for n, v in doraq.consts(dt).items() if isinstance(v, int)]
        out["dora_consts"] = dict(dconsts)
        per = tables.check_generated_numbering(r, "numbering", sections, dconsts, "dora")
        out["dora_sections"] = per
    r.floor("numbering sections", len(sections), 11)
    r.floor("BytecodeOpcode variants in %s" % TOML, len(sections.get("BytecodeOpcode", [])), 70)

    # the two explicit match tables
    conv = tables.find_conversion_fns(c, OPC_ENUM)
    if r.anchor("From<BytecodeOpcode> for an integer", len(conv["encode"]) == 1) and \
            r.anchor("TryFrom/From<integer> for BytecodeOpcode", len(conv["decode"]) == 1):
        summ = tables.check_inverse_pair(r, c, conv["encode"][0], conv["decode"][0], "BytecodeOpcode",
                                         enum_path=OPC_ENUM, floor=70)
        out["opc"] = summ
        if summ:
            tv = sections.get("BytecodeOpcode", [])
            rsec = {n for (n, _v) in rust_consts if tables._norm(n).startswith("BYTECODEOPCODE")}
            for name, val in sorted(summ["enc"].items(), key=lambda kv: kv[1]):
                key = "BytecodeOpcode:%s:toml" % name
                r.instance(key, nontrivial=True)
                if not (0 <= val < len(tv)) or tv[val] != name:
                    r.violation(key, "BytecodeOpcode::%s encodes to %d but position %d of [BytecodeOpcode] in %s is %s"
                                % (name, val, val, TOML, tv[val] if 0 <= val < len(tv) else "out of range"), TOML)
                cn = summ["enc_const"].get(name)
                if cn and cn not in rsec:
                    r.observe("BytecodeOpcode::%s is encoded with %s, a constant of another section" % (name, cn))
    cp = tables.find_conversion_fns(c, "dora_bytecode::data::ConstPoolOpcode")
    if r.anchor("From<ConstPoolOpcode> for an integer", len(cp["encode"]) == 1):
        s2 = tables.check_encode_table(r, c, cp["encode"][0], "ConstPoolOpcode",
                                       enum_path="dora_bytecode::data::ConstPoolOpcode", floor=20)
        if s2:
            tv = sections.get("ConstPoolOpcode", [])
            for name, val in s2["enc"].items():
                if not (0 <= val < len(tv)) or tv[val] != name:
                    r.violation("ConstPoolOpcode:%s:toml" % name,
                                "ConstPoolOpcode::%s encodes to %d but position %d of [ConstPoolOpcode] is %s"
                                % (name, val, val, tv[val] if 0 <= val < len(tv) else "out of range"), TOML)
        if cp["decode"]:
            r.observe("ConstPoolOpcode now has a Rust decoder %s: check it as an inverse pair" % cp["decode"][0])
    for en in ("dora_bytecode::ty::BytecodeType", "dora_bytecode::program::ConstValue"):
        cv = tables.find_conversion_fns(c, en)
        if cv["encode"] or cv["decode"]:
            r.observe("%s gained integer conversion tables %s: not yet paired" % (last(en), cv))
    r.observe("BytecodeType / ConstValueOpcode tags have no match-table pair in dora_bytecode: they are written and "
              "read inside the wire codecs (C18.R4); only their numbering is checked here")
    return out


# =============================================================================================== R1 signatures

def _impl_methods(c, adt_path):
    out = {}
    for f in c.items["fns"]:
        if f.get("container") == "impl" and not f.get("trait") and _strip_generics(f.get("self_ty")) == adt_path \
                and f["path"] in c.hir:
            out[f["path"]] = c.hir[f["path"]]
    return out


def _fn_items(c, adt_path):
    return {f["path"]: f for f in c.items["fns"]
            if f.get("container") == "impl" and not f.get("trait") and _strip_generics(f.get("self_ty")) == adt_path}


def _canon(alias, t):
    n = 0
    while t in alias and n < 50:
        t = alias[t]
        n += 1
    return t


def _find_struct(v, pred):
    if v is None:
        return None
    if v.k == "struct":
        if pred(v.a[0]):
            return v
        for _f, x in v.a[1]:
            y = _find_struct(x, pred)
            if y is not None:
                return y
    elif v.k == "tuple":
        for x in v.a:
            y = _find_struct(x, pred)
            if y is not None:
                return y
    elif v.k == "some":
        return _find_struct(v.a, pred)
    return None


def _summarise_paths(results, pred):
    """group the paths of a dispatching reader by arm -> {arm key: {'sigs': set, 'why': set, 'rec': one record}}"""
    by = {}
    for res in results:
        keys = [t[3] for t in res["trace"] if t[2] == "dispatch"]
        if res["outcome"] == "diverge":
            if keys:
                by.setdefault(keys[0], {"sigs": set(), "why": set(), "rec": None, "diverged": 0})["diverged"] += 1
            continue
        if not keys:
            by.setdefault(("<no dispatch>",), {"sigs": set(), "why": set(), "rec": None, "diverged": 0})["why"].add(
                res.get("why", "no opcode dispatch reached"))
            continue
        e = by.setdefault(keys[0], {"sigs": set(), "why": set(), "rec": None, "diverged": 0})
        if res["outcome"] != "ok":
            e["why"].add(res.get("why", "?"))
            continue
        if len(keys) > 1:
            e["why"].add("second opcode dispatch")
            continue
        toks = res["toks"]
        ids = [t["id"] for t in toks]
        sig = H.signature(toks)
        st = _find_struct(res["value"], pred)
        flows = [set() for _ in toks]
        variant, nfields, fnames = None, 0, []
        if st is not None:
            variant = st.a[0]
            nfields = len(st.a[1])
            for (fname, fv) in st.a[1]:
                fnames.append(fname)
                for t in fv.toks:
                    t = _canon(res["alias"], t)
                    if t in ids:
                        flows[ids.index(t)].add(fname)
        # a count flows where its list flows
        for i, t in enumerate(toks):
            if t["star"] is not None and t["star"][0] == "tok" and t["star"][1] in ids:
                flows[ids.index(t["star"][1])] |= flows[i]
        opc_from_first = bool(toks) and toks[0]["cls"] == "B"
        rec = {"sig": sig, "variant": variant, "flows": [tuple(sorted(f)) for f in flows], "fields": fnames,
               "nfields": nfields, "opcode_first": opc_from_first}
        e["sigs"].add((tuple(sig), variant, tuple(rec["flows"])))
        e["rec"] = rec
    return by


def writer_summary(r, c):
    """-> {opcode: [ {fn, sig (operands), directs, types} ]}, analysed fn count, interp"""
    a = c.adt(WRITER)
    if not r.anchor(WRITER, a):
        return None
    streams = [f["name"] for f in a["variants"][0]["fields"] if f["ty"] == "alloc::vec::Vec<u8>"]
    if not r.anchor(WRITER + ": exactly one Vec<u8> field (the code stream)", len(streams) == 1):
        return None
    methods = _impl_methods(c, WRITER)
    items = _fn_items(c, WRITER)
    I = H.Interp(c, methods, streams[0], "w", OPC_ENUM)
    per_op = {}
    analysed = 0
    patches = []
    reserves = {}
    for path in sorted(methods):
        f = items[path]
        if not f.get("pub") or path not in I.may_touch:
            continue
        ins = f.get("inputs") or []
        if not ins or _strip_generics(ins[0].lstrip("&").replace("mut ", "").strip()) != WRITER:
            continue
        args = [H.Val("self")]
        ptypes = {}
        for nm, ty in zip(f["params"][1:], ins[1:]):
            ptypes[nm] = ty
            lab = frozenset({("top", nm)})
            if ty.startswith("&[") or ty.startswith("&mut [") or "alloc::vec::Vec<" in ty:
                args.append(H.Val("slice", nm, deps=lab, direct=nm))
            else:
                args.append(H.Val("unk", deps=lab, direct=nm))
        results = I.explore(path, args)
        oks = [x for x in results if x["outcome"] == "ok"]
        bad = sorted({x.get("why", "?") for x in results if x["outcome"] == "unsupported"})
        sigs = {tuple(H.signature(x["toks"])) for x in oks}
        emits = any(x["toks"] for x in oks)
        for x in oks:
            for ev in x["events"]:
                if ev[0] == "patch":
                    patches.append((path,) + ev[1:])
        if bad or len(sigs) > 1:
            r.observe("writer: cannot summarise %s (%s)" % (last(path), "; ".join(bad) if bad else
                                                             "paths disagree: %s" % sorted(sigs)))
            continue
        if not emits:
            continue
        x = oks[0]
        toks = x["toks"]
        ops = [t["op"] for t in toks if t["op"] is not None]
        key = "%s:opcode" % path
        if len(ops) != 1 or toks[0]["op"] is None:
            r.instance(key, nontrivial=True)
            r.violation(key, "%s emits %s: an instruction emitter must write exactly one constant opcode byte, first"
                        % (last(path), " ".join(H.signature(toks)) or "nothing"), "%s:%s" % (f["file"], f["line"]))
            continue
        analysed += 1
        ids = [t["id"] for t in toks]
        rec = {"fn": path, "sig": H.signature(toks)[1:], "directs": [t["direct"] for t in toks[1:]],
               "types": [ptypes.get(t["direct"]) for t in toks[1:]], "where": "%s:%s" % (f["file"], f["line"])}
        per_op.setdefault(ops[0], []).append(rec)
        # placeholders: which stream position does the emitter remember in a side table?
        for ev in x["events"]:
            if ev[0] == "sfpush" and ev[2].k == "tuple":
                for ci, comp in enumerate(ev[2].a):
                    for d in comp.deps:
                        if d[0] == "pos":
                            nxt = ids.index(d[1]) + 1 if d[1] in ids else 0
                            reserves.setdefault(path, []).append(
                                (ev[1], ci, toks[nxt]["cls"] if nxt < len(toks) else None, nxt))
    return {"per_op": per_op, "analysed": analysed, "interp": I, "patches": patches, "reserves": reserves,
            "methods": methods}


def rust_reader_summary(r, c):
    a = c.adt(READER)
    if not r.anchor(READER, a):
        return None
    streams = [f["name"] for f in a["variants"][0]["fields"] if "[u8]" in f["ty"]]
    if not r.anchor(READER + ": exactly one [u8] field (the code stream)", len(streams) == 1):
        return None
    methods = _impl_methods(c, READER)
    cursors = set()
    for b in methods.values():
        for n in hirq.walk(b["body"]):
            if n[0] == "index":
                x, i = hirq.strip(n[1]), hirq.strip(n[2])
                if is_node(x) and x[0] == "field" and hirq.local_name(x[1]) == "self" and x[2] == streams[0] \
                        and is_node(i) and i[0] == "field" and hirq.local_name(i[1]) == "self":
                    cursors.add(i[2])
    if not r.anchor(READER + ": one cursor field indexes the stream", len(cursors) == 1):
        return None
    entry = [p for p in methods if last(p) == READ_ENTRY]
    if not r.anchor(READER + "::" + READ_ENTRY, len(entry) == 1):
        return None
    I = H.Interp(c, methods, streams[0], "r", OPC_ENUM, cursor=cursors.pop())
    results = I.explore(entry[0], [H.Val("self")])
    by = _summarise_paths(results, lambda p: p.startswith(INSN_ENUM + "::"))
    return {"by": by, "interp": I, "methods": methods, "entry": entry[0]}


def dora_reader_summary(r, D):
    t = D.get(DORA_READER)
    if not r.anchor(DORA_READER, t):
        return None
    allf = doraq.functions(t, DORA_READER)
    ent = [f for f in allf if f.name == READ_ENTRY and f.container]
    if not r.anchor(DORA_READER + ": fn " + READ_ENTRY, len(ent) == 1):
        return None
    cls = ent[0].container
    fields = DD.class_fields(t, cls)
    if not r.anchor(DORA_READER + ": class " + cls, fields):
        return None
    streams = [n for n, ty in fields.items() if ty and ty.replace(" ", "") == "Array[UInt8]"]
    if not r.anchor("%s: exactly one Array[UInt8] field (the code stream)" % cls, len(streams) == 1):
        return None
    fns = {f.name: f for f in allf if f.container == cls}
    cursors = set()
    for f in fns.values():
        for n in doraq.walk(f.node):
            if n[0] == "METHOD_CALL_EXPR" and doraq.ident(n) == streams[0] and doraq.text(doraq.nodes(n)[0]) == "self":
                for cs in [doraq.Call(n)]:
                    for a in cs.args:
                        if a[0] == "FIELD_EXPR" and doraq.text(doraq.nodes(a)[0]) == "self":
                            cursors.add(doraq.ident(a))
    if not r.anchor("%s: one cursor field indexes the stream" % cls, len(cursors) == 1):
        return None
    I = DD.DoraInterp(fns, streams[0], cursors.pop(), fields)
    results = I.explore(READ_ENTRY, [H.Val("self")])
    # the instruction enum: an enum of the bytecode package whose variants the arms construct
    enums = {}
    for fpath, tree in D.items():
        if fpath.startswith(DORA_DIR):
            for n in doraq.walk(tree):
                if n[0] == "ENUM":
                    enums[doraq.ident(n)] = (fpath, DD.enum_variants(tree, doraq.ident(n)))

    def pred(p):
        return "::" in p and p.split("::")[0] in enums and p.split("::")[1] in enums[p.split("::")[0]][1]
    by = _summarise_paths(results, pred)
    return {"by": by, "interp": I, "fns": fns, "enums": enums, "cls": cls}


def _varint(v):
    out = []
    while True:
        b = v & 0x7F
        v >>= 7
        if v:
            b |= 0x80
        out.append(b)
        if not v:
            return out


def _example(sig, opc):
    """concrete bytes a writer with operand signature `sig` produces (varint operands >= 128 so that width matters)"""
    out = [opc]
    n = 200
    for s in sig:
        if s.startswith("N"):
            out.append(2)
            continue
        reps = 2 if "*" in s else 1
        for _ in range(reps):
            if s[0] == "F":
                out += [n & 0xFF, 0, 0, 0]
            elif s[0] == "V":
                out += _varint(n)
            else:
                out.append(n & 0xFF)
            n += 1
    return out


def _consumed(sig, data):
    """how many bytes of `data` a reader with operand signature `sig` consumes (opcode byte included)"""
    pos = 1
    counts = {}

    def one(cls, pos):
        if cls == "F":
            return pos + 4, 0
        if cls == "V":
            v, sh = 0, 0
            while pos < len(data):
                b = data[pos]
                pos += 1
                v |= (b & 0x7F) << sh
                sh += 7
                if not b & 0x80:
                    return pos, v
            return pos + 1, v
        return pos + 1, (data[pos] if pos < len(data) else 0)
    for s in sig:
        if s.startswith("N"):
            pos, v = one("V", pos)
            counts[s[1:]] = v
        elif "*" in s:
            for _ in range(min(counts.get(s[s.index("*") + 1:], 1), 64)):
                pos, _v = one(s[0], pos)
        else:
            pos, _v = one(s[0], pos)
    return pos


def _hex(bs):
    return " ".join("%02x" % (b & 0xFF) for b in bs)


def _desync(wsig, rsig, opc):
    ex = _example(wsig, opc)
    n = _consumed(rsig, ex)
    if n > len(ex):
        return "e.g. the writer emits [%s] (%d bytes) and this reader runs past the end into the next instruction" % (
            _hex(ex), len(ex))
    if n < len(ex):
        return "e.g. the writer emits [%s] (%d bytes); this reader consumes %d and decodes byte %02x as the next opcode" % (
            _hex(ex), len(ex), n, ex[n])
    return "e.g. the writer emits [%s]; the reader consumes the same length but splits the operands differently" % _hex(ex)


def _norm_ty(t):
    if not t:
        return None
    t = t.strip()
    t = re.sub(r"^&(mut )?", "", t)
    m = re.match(r"^\[(.*)\]$", t) or re.match(r"^alloc::vec::Vec<(.*)>$", t)
    if m:
        t = m.group(1)
    return t


# ---- codec shape: literals of the variable-width encoding

def _pow2(x):
    return isinstance(x, int) and x > 1 and (x & (x - 1)) == 0


def hir_codec(body):
    ands, ors, shrs, adds = set(), set(), set(), set()
    shl_vars = set()
    for n in hirq.walk(body):
        if n[0] == "bin":
            op = n[1]
            lits = [hirq.lit_int(x) for x in (n[2], n[3])]
            lv = [x for x in lits if x is not None]
            if op == "BitAnd":
                ands.update(lv)
            elif op == "BitOr":
                ors.update(lv)
            elif op == "Shr" and lits[1] is not None:
                shrs.add(lits[1])
            elif op == "Shl":
                ln = hirq.local_name(n[3])
                if ln:
                    shl_vars.add(ln)
                elif lits[1] is not None:
                    shrs.add(lits[1])
            elif op == "Add" and lits[1] is not None and hirq.local_name(n[2]) in shl_vars:
                adds.add(lits[1])
        elif n[0] == "assignop":
            v = hirq.lit_int(n[3])
            if v is None:
                continue
            if n[1] == "BitAndAssign":
                ands.add(v)
            elif n[1] == "BitOrAssign":
                ors.add(v)
            elif n[1] == "ShrAssign":
                shrs.add(v)
            elif n[1] == "AddAssign":
                adds.add((hirq.local_name(n[2]), v))
    steps = set(shrs)
    for a in adds:
        if isinstance(a, tuple):
            if a[0] in shl_vars:
                steps.add(a[1])
        else:
            steps.add(a)
    # `x = x + 7` on the shift variable
    for n in hirq.walk(body):
        if n[0] == "assign" and hirq.local_name(n[1]) in shl_vars:
            rhs = hirq.strip(n[2])
            if is_node(rhs) and rhs[0] == "bin" and rhs[1] == "Add" and hirq.lit_int(rhs[3]) is not None:
                steps.add(hirq.lit_int(rhs[3]))
    return _codec(ands, ors, steps)


def dora_codec(fn):
    ands, ors, steps = set(), set(), set()
    shl_vars = set()
    for n in doraq.walk(fn.node):
        if n[0] == "BIN_EXPR":
            ops = [c[1] for c in doraq.kids(n) if doraq.is_tok(c)]
            ns = doraq.nodes(n)
            if not ops or len(ns) < 2:
                continue
            lits = [doraq.lit_value(x) if x[0] in ("LIT_INT_EXPR", "PAREN_EXPR", "UN_EXPR") else None for x in ns[:2]]
            lv = [x for x in lits if isinstance(x, int) and not isinstance(x, bool)]
            if ops[0] == "&":
                ands.update(lv)
            elif ops[0] == "|":
                ors.update(lv)
            elif ops[0] == ">>" and lits[1] is not None:
                steps.add(lits[1])
            elif ops[0] == "<<":
                if ns[1][0] == "PATH_EXPR":
                    shl_vars.add(doraq.text(ns[1]))
                elif lits[1] is not None:
                    steps.add(lits[1])
    for n in doraq.walk(fn.node):
        if n[0] == "ASSIGN_EXPR":
            ns = doraq.nodes(n)
            if ns[0][0] == "PATH_EXPR" and doraq.text(ns[0]) in shl_vars and ns[1][0] == "BIN_EXPR":
                ops = [c[1] for c in doraq.kids(ns[1]) if doraq.is_tok(c)]
                rn = doraq.nodes(ns[1])
                if ops == ["+"] and doraq.text(rn[0]) == doraq.text(ns[0]) and rn[1][0] == "LIT_INT_EXPR":
                    steps.add(doraq.lit_value(rn[1]))
    return _codec(ands, ors, steps)


def _hir_has_exit(e):
    return e is not None and any(n[0] in ("break", "ret") for n in hirq.walk(e))


def hir_reader_polarity(body, flag):
    """'stop-when-clear' / 'stop-when-set' / None: which value of the continuation bit ends the read loop"""
    for n in hirq.walk(body):
        if n[0] != "if":
            continue
        c = hirq.strip(n[1])
        if not (is_node(c) and c[0] == "bin" and c[1] in ("Eq", "Ne")):
            continue
        sides = [hirq.strip(c[2]), hirq.strip(c[3])]
        test = [x for x in sides if is_node(x) and x[0] == "bin" and x[1] == "BitAnd" and
                flag in (hirq.lit_int(x[2]), hirq.lit_int(x[3]))]
        zero = [x for x in sides if hirq.lit_int(x) == 0]
        if not (test and zero):
            continue
        then_exit, else_exit = _hir_has_exit(n[2]), _hir_has_exit(n[3])
        if then_exit == else_exit:
            return None
        clear_branch_exits = then_exit if c[1] == "Eq" else else_exit
        return "stop-when-clear" if clear_branch_exits else "stop-when-set"
    return None


def hir_writer_polarity(body, flag):
    """'set-when-more': the flag is OR-ed in under the same condition that keeps the emit loop running"""
    set_cond = None
    for n in hirq.walk(body):
        if n[0] == "if" and n[2] is not None and any(
                x[0] == "assignop" and x[1] == "BitOrAssign" and hirq.lit_int(x[3]) == flag for x in hirq.walk(n[2])):
            set_cond = hirq.render(n[1])
    loop_cond = None
    for n in hirq.walk(body):
        if n[0] == "macro" and n[1].startswith("desugar:WhileLoop"):
            w = hirq.unmacro(n)
            if is_node(w) and w[0] == "if":
                c = hirq.unmacro(w[1])
                if is_node(c) and c[0] == "block" and c[2] is not None:
                    c = c[2]
                if _hir_has_exit(w[3]) and not _hir_has_exit(w[2]):
                    loop_cond = hirq.render(c)
    if set_cond is not None and loop_cond is not None and set_cond == loop_cond:
        return "set-when-more"
    return None


def dora_reader_polarity(fn, flag):
    for n in doraq.walk(fn.node):
        if n[0] != "IF_EXPR":
            continue
        ns = doraq.nodes(n)
        c = ns[0]
        while c[0] == "PAREN_EXPR":
            c = doraq.nodes(c)[0]
        if c[0] != "BIN_EXPR":
            continue
        ops = [k[1] for k in doraq.kids(c) if doraq.is_tok(k)]
        if not ops or ops[0] not in ("==", "!="):
            continue
        sides = []
        for x in doraq.nodes(c)[:2]:
            while x[0] == "PAREN_EXPR":
                x = doraq.nodes(x)[0]
            sides.append(x)
        test = False
        for x in sides:
            if x[0] == "BIN_EXPR" and [k[1] for k in doraq.kids(x) if doraq.is_tok(k)][:1] == ["&"]:
                if flag in [doraq.lit_value(y) for y in doraq.nodes(x) if y[0] == "LIT_INT_EXPR"]:
                    test = True
        zero = any(x[0] == "LIT_INT_EXPR" and doraq.lit_value(x) == 0 for x in sides)
        if not (test and zero):
            continue

        def exits(b):
            return b is not None and any(y[0] in ("BREAK_EXPR", "RETURN_EXPR") for y in doraq.walk(b))
        then_exit = exits(ns[1])
        else_exit = exits(ns[2]) if len(ns) > 2 else False
        if then_exit == else_exit:
            return None
        clear_branch_exits = then_exit if ops[0] == "==" else else_exit
        return "stop-when-clear" if clear_branch_exits else "stop-when-set"
    return None


def _codec(ands, ors, steps):
    masks = {x for x in ands if isinstance(x, int) and x > 0 and ((x + 1) & x) == 0}
    flags = {x for x in (ands | ors) if _pow2(x)}
    return {"mask": masks, "flag": flags, "step": {s for s in steps if isinstance(s, int) and s > 0}}


def run_r1(r, F, c, D, tabs):
    opc = tabs.get("opc")
    if not r.anchor("C18.R2 opcode tables (variant <-> number)", opc):
        return
    a_opc = c.adt(OPC_ENUM)
    a_ins = c.adt(INSN_ENUM)
    if not (r.anchor(OPC_ENUM, a_opc) and r.anchor(INSN_ENUM, a_ins)):
        return
    W = writer_summary(r, c)
    R = rust_reader_summary(r, c)
    Dr = dora_reader_summary(r, D)
    if not (W and R and Dr):
        return
    decl = {v["name"]: [f["name"] for f in v["fields"]] for v in a_ins["variants"]}
    decl_ty = {v["name"]: {f["name"]: f["ty"] for f in v["fields"]} for v in a_ins["variants"]}

    # ---- Rust reader arms by opcode
    rust = {}
    for key, e in R["by"].items():
        for nm in key:
            if nm == "_":
                r.observe("rust reader has a wildcard opcode arm")
                continue
            rust[nm] = e
    # ---- Dora reader arms by opcode: constant -> number (Dora table) -> variant (Rust TryFrom table)
    dora = {}
    dconsts = tabs.get("dora_consts", {})
    opsec = {n for (n, _v) in tabs.get("dora_sections", {}).get("BytecodeOpcode", [])}
    by_num = {}
    for name, val in opc["enc"].items():
        by_num.setdefault(val, name)
    for key, e in Dr["by"].items():
        for ptxt in key:
            if ptxt in ("_", "<no dispatch>"):
                continue
            cname = ptxt.split("::")[-1]
            val = dconsts.get(cname)
            if val is None:
                r.violation("%s:%s:unresolved" % (DORA_READER, ptxt),
                            "reader arm pattern %s is not a constant of %sopcode.dora" % (ptxt, DORA_DIR), DORA_READER)
                continue
            if cname not in opsec:
                r.observe("dora reader arm %s uses a constant outside the BytecodeOpcode section" % ptxt)
            var = by_num.get(val)       # the byte the writer emits for a variant is From<BytecodeOpcode> (the encoder)
            if var is None:
                r.observe("dora reader arm %s = %d is not a number of any BytecodeOpcode variant" % (ptxt, val))
                continue
            if var in dora:
                r.violation("BytecodeOpcode::%s:dora-duplicate-arm" % var,
                            "two Dora reader arms decode opcode %d (%s)" % (val, var), DORA_READER)
            dora[var] = dict(e, pattern=ptxt)

    n_w = n_r = n_d = 0
    for v in a_opc["variants"]:
        X = v["name"]
        num = opc["enc"].get(X)
        key = "BytecodeOpcode::%s" % X
        ws = W["per_op"].get(X, [])
        re_, de = rust.get(X), dora.get(X)
        r.instance(key, nontrivial=bool(ws and re_ and de),
                   sample={"opcode": X, "number": num, "writer": ws[0]["sig"] if ws else None,
                           "rust_reader": re_["rec"]["sig"][1:] if re_ and re_["rec"] else None,
                           "dora_reader": de["rec"]["sig"][1:] if de and de["rec"] else None})
        if not ws:
            r.observe("%s is never emitted by BytecodeWriter (readers handle it)" % X)
        else:
            n_w += 1
        sides = {}
        for side, e, where in (("rust-reader", re_, R["entry"]), ("dora-reader", de, DORA_READER)):
            if e is None:
                if ws or side == "rust-reader":
                    r.violation("%s:no-%s-arm" % (key, side),
                                "%s (opcode %s) can be written but the %s has no arm for it%s"
                                % (X, num, side, ": it stops with a fatal error" if side == "dora-reader" else ""), where)
                continue
            if e["why"] or len(e["sigs"]) != 1 or e["rec"] is None:
                r.observe("%s: cannot summarise arm %s (%s)" % (side, X, "; ".join(sorted(e["why"])) or
                                                                "paths disagree or diverge"))
                continue
            rec = e["rec"]
            if not rec["opcode_first"]:
                r.observe("%s: arm %s does not start by reading the opcode byte" % (side, X))
                continue
            sides[side] = rec
            if side == "rust-reader":
                n_r += 1
            else:
                n_d += 1
        # signatures
        for w in ws:
            for side, rec in sides.items():
                if w["sig"] != rec["sig"][1:]:
                    r.violation("%s:writer≠%s" % (key, side),
                                "%s writes operands [%s] but the %s reads [%s] for %s (opcode %s): %s"
                                % (last(w["fn"]), " ".join(w["sig"]), side, " ".join(rec["sig"][1:]), X, num,
                                   _desync(w["sig"], rec["sig"][1:], num or 0)), w["where"])
        if len(ws) > 1 and len({tuple(w["sig"]) for w in ws}) > 1:
            r.violation("%s:writers-disagree" % key, "%s is emitted with different operand layouts by %s"
                        % (X, ", ".join(last(w["fn"]) for w in ws)), ws[0]["where"])
        if "rust-reader" in sides and "dora-reader" in sides:
            a, b = sides["rust-reader"], sides["dora-reader"]
            if a["sig"] != b["sig"] and not ws:
                r.violation("%s:rust-reader≠dora-reader" % key,
                            "the Rust reader reads [%s] but the Dora reader reads [%s] for %s (opcode %s)"
                            % (" ".join(a["sig"][1:]), " ".join(b["sig"][1:]), X, num), DORA_READER)
            # both arms build the same-named variant (mirror enums) and route operand i to field i
            av = last(a["variant"]) if a["variant"] else None
            bv = b["variant"].split("::")[-1] if b["variant"] else None
            if av != X:
                r.violation("%s:rust-reader-builds-%s" % (key, av),
                            "the Rust reader arm for %s constructs BytecodeInstruction::%s" % (X, av), R["entry"])
            if bv != av:
                r.violation("%s:dora-reader-builds-%s" % (key, bv),
                            "the Dora reader arm %s (opcode %s = %s) constructs %s, the Rust reader %s"
                            % (de.get("pattern"), num, X, b["variant"], a["variant"]), DORA_READER)
            elif av in decl and a["sig"] == b["sig"]:
                dnames = decl[av]
                if b["nfields"] != len(dnames):
                    r.violation("%s:field-count" % key,
                                "BytecodeInstruction::%s has %d fields in Rust but the Dora reader passes %d"
                                % (av, len(dnames), b["nfields"]), DORA_READER)
                for i in range(1, len(a["sig"])):
                    fa = sorted(dnames.index(n) for n in a["flows"][i] if n in dnames)
                    fb = sorted(int(n) for n in b["flows"][i] if n.isdigit())
                    if fa != fb:
                        r.violation("%s:operand-%d-field" % (key, i),
                                    "operand #%d (%s) of %s is stored in field %s (%s) by the Rust reader but in "
                                    "field %s by the Dora reader: consumers see %s swapped"
                                    % (i, a["sig"][i], X, fa, ",".join(a["flows"][i]) or "-", fb,
                                       "/".join(dnames[j] for j in sorted(set(fa) ^ set(fb)) if j < len(dnames))),
                                    DORA_READER)
        # operand kinds: the writer parameter that becomes operand i has the type of the field operand i is read into
        if ws and "rust-reader" in sides:
            a = sides["rust-reader"]
            av = last(a["variant"]) if a["variant"] else None
            for w in ws:
                if w["sig"] != a["sig"][1:]:
                    continue
                for i, (pn, pty) in enumerate(zip(w["directs"], w["types"])):
                    fl = a["flows"][i + 1]
                    if pn is None or pty is None or len(fl) != 1 or av not in decl_ty:
                        continue
                    fty = decl_ty[av].get(fl[0])
                    ta, tb = _norm_ty(pty), _norm_ty(fty)
                    if ta and tb and ta != tb:
                        if ta.startswith(CRATE + "::") and tb.startswith(CRATE + "::"):
                            r.violation("%s:operand-%d-kind" % (key, i + 1),
                                        "%s writes its parameter %s: %s as operand #%d of %s, the reader reads operand "
                                        "#%d into %s: %s" % (last(w["fn"]), pn, last(ta), i + 1, X, i + 1, fl[0],
                                                             last(tb)), w["where"])
                        else:
                            r.observe("%s operand #%d: writer parameter %s: %s, reader field %s: %s"
                                      % (X, i + 1, pn, ta, fl[0], tb))
    r.floor("opcodes with a summarised writer", n_w, 70)
    r.floor("opcodes with a summarised Rust reader arm", n_r, 70)
    r.floor("opcodes with a summarised Dora reader arm", n_d, 70)

    # ---- the codecs themselves
    wv, rv, dv = sorted(W["interp"].vprims), sorted(R["interp"].vprims), sorted(Dr["interp"].vprims)
    if r.anchor("one variable-width emitter", len(wv) == 1) and r.anchor("one variable-width Rust read", len(rv) == 1) \
            and r.anchor("one variable-width Dora read", len(dv) == 1):
        cw = hir_codec(W["methods"][wv[0]]["body"])
        cr = hir_codec(R["methods"][rv[0]]["body"])
        cd = dora_codec(Dr["fns"][dv[0]])
        for what in ("step", "mask", "flag"):
            key = "varint:%s" % what
            vals = {"writer " + last(wv[0]): cw[what], "rust " + last(rv[0]): cr[what], "dora " + dv[0]: cd[what]}
            r.instance(key, nontrivial=True, sample={"codec": what, "values": {k: sorted(v) for k, v in vals.items()}})
            if any(len(v) != 1 for v in vals.values()):
                r.violation("ANALYSIS:" + key, "cannot extract a single %s literal on every side: %s"
                            % (what, {k: sorted(v) for k, v in vals.items()}), wv[0])
            elif len({next(iter(v)) for v in vals.values()}) != 1:
                r.violation(key, "the variable-width codec disagrees on its %s: %s — every operand above the first "
                            "payload width decodes to a different number"
                            % (what, ", ".join("%s=%s" % (k, hex(next(iter(v)))) for k, v in vals.items())), wv[0])
        if all(len(x["flag"]) == 1 for x in (cw, cr, cd)):
            pol = {"writer": hir_writer_polarity(W["methods"][wv[0]]["body"], next(iter(cw["flag"]))),
                   "rust": hir_reader_polarity(R["methods"][rv[0]]["body"], next(iter(cr["flag"]))),
                   "dora": dora_reader_polarity(Dr["fns"][dv[0]], next(iter(cd["flag"])))}
            r.instance("varint:polarity", nontrivial=all(pol.values()), sample={"codec": "polarity", "values": pol})
            if pol["writer"] is None or pol["rust"] is None or pol["dora"] is None:
                r.observe("varint: continuation-bit polarity not recognised on every side: %s" % pol)
            for side in ("rust", "dora"):
                if pol["writer"] == "set-when-more" and pol[side] == "stop-when-set":
                    r.violation("varint:polarity:%s" % side,
                                "the writer sets the continuation bit when more bytes follow but the %s reader stops "
                                "when the bit is set: every operand is mis-read" % side, rv[0] if side == "rust" else DORA_READER)
        # worst-case length: every reader must be able to consume the longest encoding the writer can emit
        wb = W["methods"][wv[0]]
        mw = W["interp"].max_bytes(wv[0], [H.Val("self")] + [H.Val("unk") for _ in wb["params"][1:]])
        mr = R["interp"].max_bytes(rv[0], [H.Val("self")])
        md = Dr["interp"].max_bytes(dv[0], [H.Val("self")])
        show = lambda m: "unbounded" if m is None else m        # noqa: E731
        r.instance("varint:max-length", nontrivial=True,
                   sample={"codec": "max bytes per operand", "values": {"writer": show(mw), "rust": show(mr),
                                                                        "dora": show(md)}})
        for side, m in (("writer", mw), ("rust-reader", mr), ("dora-reader", md)):
            if isinstance(m, str):
                r.violation("ANALYSIS:varint:max-length:%s" % side, "worst-case length of the %s varint loop: %s"
                            % (side, m), wv[0])
        if mw is None:
            r.observe("varint: the emitter's loop has no bound derivable from the operand width")
        elif isinstance(mw, int):
            stp = next(iter(cw["step"])) if len(cw["step"]) == 1 else 7
            for side, m, where in (("rust-reader", mr, rv[0]), ("dora-reader", md, DORA_READER)):
                if isinstance(m, int) and m < mw:
                    r.violation("varint:max-length:%s" % side,
                                "%s emits up to %d bytes per operand but the %s consumes at most %d: every operand "
                                ">= 2^%d = %d is truncated and its byte #%d is decoded as the next opcode"
                                % (last(wv[0]), mw, side, m, stp * m, 1 << (stp * m), m + 1), where)
        if all(len(cw[k]) == 1 for k in cw):
            st, mk, fl = (next(iter(cw[k])) for k in ("step", "mask", "flag"))
            r.instance("varint:shape", nontrivial=True)
            if mk != (1 << st) - 1 or fl != (1 << st):
                r.violation("varint:shape", "emitter uses shift %d, mask %s, flag %s: payload and continuation bit overlap "
                            "or leave a gap" % (st, hex(mk), hex(fl)), wv[0])
    wf, rf, df = W["interp"].fprims, R["interp"].fprims, Dr["interp"].fprims
    if r.anchor("one fixed-width emitter", len(wf) == 1) and r.anchor("one fixed-width Rust read", len(rf) == 1) \
            and r.anchor("one fixed-width Dora read", len(df) == 1):
        sw, sr, sd = list(wf.values())[0], list(rf.values())[0], list(df.values())[0]
        r.instance("fixed32:byte-order", nontrivial=True, sample={"writer": sw, "rust": sr, "dora": sd})
        if None in (sw or [None]) or None in (sr or [None]) or None in (sd or [None]):
            r.violation("ANALYSIS:fixed32:byte-order", "cannot extract byte lanes: writer %s rust %s dora %s"
                        % (sw, sr, sd), list(wf)[0])
        elif not (sw == sr == sd):
            r.violation("fixed32:byte-order", "fixed-width offsets are written with byte shifts %s but read with %s "
                        "(Rust) / %s (Dora): every forward jump distance is scrambled" % (sw, sr, sd), list(wf)[0])
        # placeholders are patched where they were reserved, with the same byte order
        fw = last(list(wf)[0])
        pats = W["patches"]
        sites = {}
        for (pfn, base, k, bdeps, shr, _rd) in pats:
            comps = {(d[1], d[2]) for d in bdeps if d[0] == "comp"}
            sites.setdefault((pfn, base), {"comps": comps, "lanes": {}})["lanes"][k] = shr
            sites[(pfn, base)]["comps"] |= comps
        emitters_f = {w["fn"] for ws in W["per_op"].values() for w in ws if "F" in w["sig"]}
        r.instance("fixed32:patch", nontrivial=bool(emitters_f))
        if emitters_f:
            patched = set()
            for (pfn, base), s in sites.items():
                lanes = [s["lanes"].get(i) for i in range(4)]
                if sorted(s["lanes"]) != [0, 1, 2, 3] or lanes != sw:
                    r.violation("%s:patch-layout" % pfn, "placeholder patch writes bytes %s with shifts %s but %s "
                                "emits shifts %s" % (sorted(s["lanes"]), lanes, fw, sw), pfn)
                for (sfs, ci) in s["comps"]:
                    for sf in sfs:
                        patched.add((sf, ci))
            if not patched:
                r.violation("fixed32:never-patched", "forward offsets are reserved as placeholders but no pub fn of "
                            "the writer patches the stream", list(wf)[0])
            for fn in sorted(emitters_f):
                res = W["reserves"].get(fn, [])
                hit = [x for x in res if (x[0], x[1]) in patched]
                if not hit:
                    r.violation("%s:placeholder-not-recorded" % fn,
                                "%s reserves a 4-byte placeholder but records no stream position in a table that is "
                                "patched later: the offset stays 0" % last(fn), fn)
                for (sf, ci, cls, _n) in hit:
                    if cls != "F":
                        r.violation("%s:placeholder-position" % fn,
                                    "%s records the position of a %s token in %s[%d], which is later patched as a "
                                    "4-byte offset: the patch overwrites other operand bytes" % (last(fn), cls, sf, ci), fn)


# =============================================================================================== R3 derive symmetry

ENC = ("bincode::enc::Encode",)
DEC = ("bincode::de::Decode",)
BDEC = ("bincode::de::BorrowDecode",)
ENC_FN, DEC_FN, BDEC_FN = "bincode::enc::Encode::encode", "bincode::de::Decode::decode", \
    "bincode::de::BorrowDecode::borrow_decode"


def _trait_is(tr, names):
    return tr is not None and any(tr == n or tr.startswith(n + "<") for n in names)


def _adts_in(ty, adts):
    return {m for m in re.findall(r"[A-Za-z_][\w]*(?:::[A-Za-z_][\w]*)+", ty or "") if m in adts}


def _is_derived(c, mpath, derive_names):
    """the method body comes out of a `#[derive(X)]` expansion: rsfacts wraps the outermost node of every macro
    expansion in ["macro", "X!", ..] (BorrowDecode is generated by derive(Decode))"""
    b = c.hir.get(mpath)
    if b is None:
        return None
    for n in hirq.walk(b["body"]):
        if n[0] == "macro" and n[1].endswith("!") and n[1].rstrip("!").split("::")[-1] in derive_names:
            return True
    return False


def _self_types(c, mpath, callee):
    """Self types (first generic argument) of the calls to `callee` in the MIR of mpath, in block order"""
    m = c.mir.get(mpath)
    if m is None:
        return None
    out = []
    for b in m["blocks"]:
        t = b["t"]
        if t and t[0] == "call":
            fn = cfg.callee_of(t[1]["f"])
            if fn and fn.get("d") == callee:
                g = fn.get("g") or ""
                out.append(g.strip("[]").split(",")[0].strip())
    return out


PANIC_METHODS = {"unwrap", "expect", "unwrap_err", "expect_err", "unwrap_unchecked"}
PANIC_MACROS = {"panic", "unreachable", "unimplemented", "todo", "assert", "assert_eq", "assert_ne"}


def _may_panic(b):
    out = []
    for n in hirq.walk(b["body"]):
        if n[0] == "mcall" and n[3] in PANIC_METHODS and (n[2] or "").startswith("core::"):
            out.append("%s() at line %s" % (n[3], n[1]))
        elif n[0] == "call" and (def_path(n[2]) or "").startswith(("core::panicking", "std::rt::begin_panic")):
            out.append("panic at line %s" % n[1])
        elif n[0] == "macro" and n[1].rstrip("!").split("::")[-1] in PANIC_MACROS:
            out.append("%s at line %s" % (n[1], n[3] if len(n) > 3 else "?"))
        elif n[0] == "index":
            out.append("indexing")
    return out


def _parents(root):
    """node id -> parent node, for the tree under root"""
    par = {}
    st = [root]
    while st:
        x = st.pop()
        if isinstance(x, list):
            for ch in x:
                if isinstance(ch, list):
                    par[id(ch)] = x
                    st.append(ch)
    return par


def run_r3(r, c, F=None):
    adts = {a["path"]: a for a in c.items["adts"]}
    root = CRATE + "::program::Program"
    if not r.anchor(root, adts.get(root)):
        return
    reach, todo = set(), [root]
    while todo:
        p = todo.pop()
        if p in reach:
            continue
        reach.add(p)
        for v in adts[p]["variants"]:
            for f in v["fields"]:
                for q in _adts_in(f["ty"], adts):
                    if q not in reach:
                        todo.append(q)
    impls = {}
    for im in c.items["impls"]:
        st = _strip_generics(im.get("self_ty"))
        if st in adts:
            impls.setdefault(st, []).append(im)
    manual = []
    for p in sorted(reach):
        have = {"enc": None, "dec": None, "bdec": None}
        for im in impls.get(p, []):
            for k, names in (("enc", ENC), ("dec", DEC), ("bdec", BDEC)):
                if _trait_is(im.get("trait"), names):
                    have[k] = im
        key = "%s:encode+decode" % p
        r.instance(key, nontrivial=True, sample={"type": p, "encode": bool(have["enc"]), "decode": bool(have["dec"]),
                                                  "borrow_decode": bool(have["bdec"])})
        w = "%s:%s" % (adts[p].get("file"), adts[p].get("line"))
        if not have["enc"]:
            r.violation("%s:no-Encode" % p, "%s is part of Program but has no bincode::Encode impl" % p, w)
        if not have["dec"]:
            r.violation("%s:no-Decode" % p, "%s is part of Program but has no bincode::Decode impl" % p, w)
        kinds = {}
        for k, tl in (("enc", ("Encode",)), ("dec", ("Decode",)), ("bdec", ("Decode", "BorrowDecode"))):
            if have[k] and have[k]["methods"]:
                kinds[k] = _is_derived(c, have[k]["methods"][0][1], tl)
        if have["enc"] and have["dec"]:
            if kinds.get("enc") is None or kinds.get("dec") is None:
                r.violation("ANALYSIS:%s:impl-body" % p, "no HIR body for the Encode/Decode impl of %s" % p, w)
            elif kinds["enc"] != kinds["dec"]:
                r.violation("%s:derive-asymmetry" % p,
                            "%s: Encode is %s but Decode is %s — the two sides are no longer generated from the same "
                            "field list" % (p, "derived" if kinds["enc"] else "hand-written",
                                            "derived" if kinds["dec"] else "hand-written"), w)
            if kinds.get("enc") is False or kinds.get("dec") is False or kinds.get("bdec") is False:
                manual.append((p, have, kinds))
    r.floor("ADTs reachable from Program", len(reach), 33)
    # hand-written impls: same sequence of encoded / decoded types
    for (p, have, kinds) in manual:
        seqs = {}
        for k, callee in (("enc", ENC_FN), ("dec", DEC_FN), ("bdec", BDEC_FN)):
            if have[k] and kinds.get(k) is False:
                seqs[k] = _self_types(c, have[k]["methods"][0][1], callee)
        key = "%s:manual-pair" % p
        r.instance(key, nontrivial=True, sample={"type": p, "sequences": seqs})
        if any(v is None for v in seqs.values()):
            r.violation("ANALYSIS:" + key, "no MIR for a hand-written codec impl of %s" % p, p)
            continue
        base = seqs.get("enc")
        for k in ("dec", "bdec"):
            if base is not None and k in seqs and seqs[k] != base:
                r.violation("%s:%s" % (key, k),
                            "hand-written Encode for %s writes %s but %s reads %s: every value after the first %s in a "
                            "Program is decoded from the wrong bytes"
                            % (p, base or "nothing", "Decode" if k == "dec" else "BorrowDecode", seqs[k] or "nothing",
                               last(p)), p)
        fields = [f["ty"] for v in adts[p]["variants"] for f in v["fields"]
                  if not f["ty"].startswith("core::marker::PhantomData")]
        if base is not None and fields and base != fields:
            r.observe("%s: hand-written Encode writes %s, the non-phantom fields are %s" % (last(p), base, fields))
    r.floor("hand-written codec pairs", len(manual), 1)

    # ---- decode_program_from_bytes
    ser = {p: b for p, b in c.hir.items() if p.startswith(CRATE + "::serializer::") and "{closure" not in p}
    dp = ser.get(CRATE + "::serializer::decode_program_from_bytes")
    if not r.anchor(CRATE + "::serializer::decode_program_from_bytes", dp):
        return
    r.floor("functions in serializer.rs", len(ser), 2)
    dec_calls = [n for n in hirq.walk(dp["body"]) if n[0] == "call" and
                 (def_path(n[2]) or "").startswith("bincode::decode_from_slice")]
    if r.anchor("decode_program_from_bytes calls bincode::decode_from_slice", len(dec_calls) == 1):
        call = dec_calls[0]
        par = _parents(dp["body"])
        # (1) the result goes through `?` (Try::branch), possibly via map_err — not unwrap/expect
        node, via = call, []
        ok_q = False
        while id(node) in par:
            up = par[id(node)]
            if is_node(up) and up[0] == "mcall" and up[4] is node:
                via.append(up[3])
            elif is_node(up) and up[0] == "call" and (def_path(up[2]) or "").endswith("Try::branch"):
                ok_q = True
                break
            elif is_node(up) and up[0] in ("let", "block", "match", "if"):
                break
            node = up
        key = "decode_program_from_bytes:error-propagation"
        r.instance(key, nontrivial=True, sample={"via": via, "question_mark": ok_q})
        if not ok_q or any(v in PANIC_METHODS for v in via):
            r.violation(key, "the result of bincode::decode_from_slice is consumed through %s instead of `?`: a "
                        "malformed package aborts instead of returning Err" % (via or "a non-propagating expression"),
                        "%s:%s" % (dp["file"], dp["line"]))
        # (2) decoded length compared with the input length, mismatch returns Err
        src = hirq.local_name(call[3][0]) if call[3] else None
        lens = set()
        for n in hirq.walk(dp["body"]):
            if n[0] == "let" and is_node(n[1]) and n[1][0] == "ptuple" and n[2] is not None and \
                    any(x is call for x in hirq.walk(n[2])):
                if len(n[1][1]) == 2 and is_node(n[1][1][1]) and n[1][1][1][0] == "pbind":
                    lens.add(n[1][1][1][1])
        found = False
        for n in hirq.walk(dp["body"]):
            if n[0] == "if" and is_node(n[1]) and n[1][0] == "bin" and n[1][1] in ("Ne", "Eq"):
                sides = [n[1][2], n[1][3]]
                names = {hirq.local_name(s) for s in sides}
                is_len = any(is_node(hirq.strip(s)) and hirq.strip(s)[0] == "mcall" and hirq.strip(s)[3] == "len"
                             and hirq.local_name(hirq.strip(s)[4]) == src for s in sides)
                if names & lens and is_len:
                    bad_branch = n[2] if n[1][1] == "Ne" else n[3]
                    if bad_branch is not None and any(
                            x[0] == "call" and (def_path(x[2]) or "").endswith("Result::Err")
                            for x in hirq.walk(bad_branch)):
                        found = True
        key = "decode_program_from_bytes:trailing-bytes"
        r.instance(key, nontrivial=True, sample={"decoded_len_vars": sorted(lens), "input": src, "checked": found})
        if not found:
            r.violation(key, "decode_program_from_bytes does not compare the decoded length with %s.len() and return "
                        "Err on mismatch: a package with trailing bytes is accepted" % (src or "the input"),
                        "%s:%s" % (dp["file"], dp["line"]))
    # (2b) who-may-decode: the length-checked entry is the only place in the workspace that turns bytes into a
    # Program.  A decode from a reader (`decode_from_std_read`, `decode_from_reader`) returns no consumed length at
    # all: whatever trailing-data test follows can only look at the reader's current buffer, not at the file.
    n_dec = 0
    for crate in (F.all_crates() if F is not None else [c]):
        for p, b in crate.hir.items():
            for n in hirq.walk(b["body"]):
                if n[0] != "call":
                    continue
                dpth = def_path(n[2]) or ""
                # the top-level entry functions of bincode (`bincode::decode_from_*`, `bincode::serde::decode_*`), not
                # the derive-generated per-field `Decode::decode` calls
                # (matched by the function's own name: the public names are re-exports of `bincode::features::…`)
                if not (dpth.startswith("bincode::") and last(dpth).startswith(("decode_from", "borrow_decode_from",
                                                                                 "decode_borrowed_from"))):
                    continue
                n_dec += 1
                key = "%s:%s" % (p, last(dpth))
                r.instance(key, nontrivial=True, sample={"fn": p, "decoder": dpth})
                if p == CRATE + "::serializer::decode_program_from_bytes" and last(dpth) == "decode_from_slice":
                    continue
                if last(dpth) == "decode_from_slice":
                    # another slice-based entry (the executable's embedded program): it must make the same comparison
                    # of the consumed length with the slice's length (`!=`/`==` or assert_eq! over a `.len()`)
                    cmp_len = False
                    for m_ in hirq.walk(b["body"]):
                        if is_node(m_) and ((m_[0] == "bin" and m_[1] in ("Eq", "Ne")) or
                                            (m_[0] == "macro" and "assert_eq" in m_[1]) or
                                            (m_[0] == "match" and any(is_node(x) and x[0] == "tup" for x in [m_[1]]))):
                            if any(is_node(x) and x[0] == "mcall" and x[3] == "len" for x in hirq.walk(m_)):
                                cmp_len = True
                    if cmp_len:
                        continue
                r.violation(key + ":decode-outside-the-length-checked-entry",
                            "%s decodes with %s outside decode_program_from_bytes (the only entry that compares the "
                            "consumed length with the input's length): %s — a package with trailing data can be "
                            "accepted" % (last(p), dpth, "a reader-based decode reports no consumed length, so "
                            "trailing bytes beyond the reader's buffer cannot be seen" if "read" in last(dpth)
                            else "no length comparison applies to this call"),
                            "%s:%s" % (b["file"], b["line"]))
    r.floor("bincode decode calls in the workspace", n_dec, 1)
    # (3) who-may-panic over serializer.rs and the hand-written decoders
    scope = dict(ser)
    for (p, have, kinds) in manual:
        for k in ("dec", "bdec"):
            if have[k] and kinds.get(k) is False:
                mp = have[k]["methods"][0][1]
                if mp in c.hir:
                    scope[mp] = c.hir[mp]
    for p, b in sorted(scope.items()):
        key = "%s:no-panic" % p
        pan = _may_panic(b)
        r.instance(key, nontrivial=True, sample={"fn": p, "panicking_constructs": pan})
        if pan:
            r.violation(key, "%s is on the package decode path and can panic (%s) instead of returning Err"
                        % (p, "; ".join(pan[:3])), "%s:%s" % (b["file"], b["line"]))


# ===============================================================================================

def run_r5(chk, F):
    """float identity: bytecode data that carries an f32/f64 must never be compared with `==` by the code that
    writes or emits bytecode — IEEE equality identifies 0.0 with -0.0 and separates NaN from itself, so merging or
    deduplicating on it changes the program that is written."""
    import re
    import cfg
    r = chk.rule("C18.R5", "writers/emitters never compare float-carrying bytecode data (ConstPoolEntry, ConstValue, "
                           "…) with PartialEq: interning by IEEE equality merges 0.0 with -0.0")
    c = F.crate(CRATE)
    carriers = set()
    for a in c.items["adts"]:
        for v in a["variants"]:
            for f in v["fields"]:
                if f["ty"] in ("f32", "f64"):
                    carriers.add(a["path"])
    if not r.anchor("dora_bytecode ADTs with an f32/f64 field", sorted(carriers)):
        return
    r.floor("float-carrying ADTs", len(carriers), 2)
    nfn = nsites = 0
    for cn, scope in (("dora_bytecode", ("dora_bytecode::writer::", "dora_bytecode::builder::", "dora_bytecode::data::",
                                         "dora_bytecode::program::")),
                      ("dora_frontend", ("dora_frontend::generator", "dora_frontend::program_emitter"))):
        cc = F.crate(cn)
        for pth, mb in sorted(cc.mir.items()):
            if "::tests" in pth or pth.startswith("<") or not pth.startswith(scope):
                continue
            nfn += 1
            B = cfg.Body(mb)
            for x in B.calls:
                m = re.match(r"<(.+) as core::cmp::PartialEq(<.*>)?>::(eq|ne)$", x.name or "")
                if m:
                    self_ty = m.group(1).lstrip("&").split("<")[0]
                    inner = re.findall(r"dora_bytecode::[A-Za-z0-9_:]+", m.group(1))
                    hit = [t for t in ([self_ty] + inner) if t in carriers]
                elif last(x.name or "") in ("contains", "dedup", "starts_with", "ends_with") and x.fn:
                    # equality-based library searches instantiated at a carrier type
                    gen = str(x.fn.get("g") or "")
                    hit = [t for t in re.findall(r"dora_bytecode::[A-Za-z0-9_:]+", gen) if t in carriers]
                else:
                    continue
                if not hit:
                    continue
                nsites += 1
                key = "%s:==(%s)" % (pth, last(hit[0]))
                r.instance(key, sample={"fn": pth, "type": hit[0]})
                r.violation(key + ":float-carrying-data-compared-by-ieee-equality",
                            "`==` on %s inside bytecode-writing code: entries holding 0.0 and -0.0 compare equal (and "
                            "NaN never equals itself), so reusing/merging on this comparison writes a different "
                            "constant than the one requested — e.g. `-0f64` next to `0f64` reads back as `0.0`" % hit[0],
                            "%s:%d" % (B.file, x.line))
    r.floor("writer/emitter functions scanned", nfn, 300)
    r.instance("scan:no-ieee-equality-on-float-carriers", sample={"functions": nfn, "sites": nsites,
                                                                    "carriers": sorted(carriers)})



def run_r6(chk, F, D):
    """Dora's `.to_int64()` / `.to_int32()` sign-extend a signed source.  Reassembling a wide integer as
    `(hi << 32) | lo` is only correct when every piece below the most significant one was zero-extended (a UInt8
    source, or masked): otherwise a piece with its top bit set smears ones over everything above it.  The Rust side
    of the same wire (`u32 as u64`) zero-extends, so the mirrored shape is right there and wrong here."""
    r = chk.rule("C18.R6", "pkgs/boots: every integer reassembled from shifted pieces (`(a << k) | b …`) takes each "
                           "piece below the top one from a zero-extending source (UInt8 widened, or masked)")
    WIDEN = ("to_int64", "to_int32", "to_uint64")
    ret = {}
    per_file = {}
    for f, t in D.items():
        if not f.startswith("pkgs/boots/"):
            continue
        for fn in doraq.functions(t, f):
            rt = fn.return_type()
            if rt:
                per_file.setdefault(f, {})[fn.name] = rt
                ret.setdefault(fn.name, set()).add(rt)

    def ty_of_call(f, name):
        if name in per_file.get(f, {}):
            return per_file[f][name]
        ts = ret.get(name, set())
        return next(iter(ts)) if len(ts) == 1 else None

    def flatten_or(n, out):
        if doraq.is_node(n) and n[0] == "PAREN_EXPR":
            inner = doraq.nodes(n)
            return flatten_or(inner[0], out) if inner else None
        if doraq.is_node(n) and n[0] == "BIN_EXPR":
            ops = [tk[1] for tk in doraq.toks(n)]
            ns = doraq.nodes(n)
            if "|" in ops and len(ns) == 2:
                flatten_or(ns[0], out)
                flatten_or(ns[1], out)
                return
        out.append(n)

    def unparen(n):
        while doraq.is_node(n) and n[0] == "PAREN_EXPR" and doraq.nodes(n):
            n = doraq.nodes(n)[0]
        return n

    def shift_of(n):
        n = unparen(n)
        if doraq.is_node(n) and n[0] == "BIN_EXPR" and "<<" in [tk[1] for tk in doraq.toks(n)]:
            ns = doraq.nodes(n)
            v = doraq.lit_value(unparen(ns[1])) if len(ns) == 2 else None
            return unparen(ns[0]), (v if isinstance(v, int) else "var")
        return n, 0
    nsites = 0
    for f, t in sorted(D.items()):
        if not f.startswith("pkgs/boots/"):
            continue
        for fn in doraq.functions(t, f):
            if fn.body is None:
                continue
            lets = {}
            for n in doraq.walk(fn.body):
                if doraq.is_node(n) and n[0] == "LET":
                    ns = doraq.nodes(n)
                    if len(ns) >= 2 and ns[0][0] == "IDENT_PATTERN":
                        lets[doraq.text(ns[0])] = ns[-1]
            seen = set()
            for n in doraq.walk(fn.body):
                if not (doraq.is_node(n) and n[0] == "BIN_EXPR" and "|" in [tk[1] for tk in doraq.toks(n)]):
                    continue
                if id(n) in seen:
                    continue
                parts = []
                flatten_or(n, parts)
                for sub in doraq.walk(n):
                    seen.add(id(sub))
                pieces = [shift_of(x) for x in parts]
                if not any(sh != 0 for (_e, sh) in pieces) or len(pieces) < 2:
                    continue
                nsites += 1
                top = max((sh for (_e, sh) in pieces if isinstance(sh, int)), default=0)
                key = "%s::%s:reassembly@%d" % (f, fn.qual, len(pieces))
                bad = []
                for (e, sh) in pieces:
                    if sh == "var" or (isinstance(sh, int) and sh == top and sh != 0):
                        continue
                    src = e
                    if doraq.is_node(src) and src[0] == "PATH_EXPR" and doraq.text(src) in lets:
                        src = unparen(lets[doraq.text(src)])
                    txt = doraq.text(src)
                    if doraq.is_node(src) and src[0] == "BIN_EXPR" and "&" in [tk[1] for tk in doraq.toks(src)]:
                        continue                                   # masked
                    if doraq.is_node(src) and src[0] == "METHOD_CALL_EXPR" and doraq.ident(src) in WIDEN:
                        inner = unparen(doraq.nodes(src)[0])
                        ity = None
                        if doraq.is_node(inner) and inner[0] in ("METHOD_CALL_EXPR", "CALL_EXPR"):
                            ity = ty_of_call(f, doraq.Call(inner).name)
                        # only a *known signed narrower* source is a violation; unknown receiver types are not judged
                        if ity == "Int32" and doraq.ident(src) in ("to_int64", "to_uint64"):
                            bad.append((doraq.text(e), txt, ity))
                    # anything else (plain variables of the target width, literals) carries no widening
                r.instance(key, sample={"pieces": [doraq.text(e)[:30] + ("<<%s" % sh if sh else "") for e, sh in pieces][:8]})
                for (nm, txt, ity) in bad:
                    r.violation("%s::%s:reassembly:%s:sign-extended-piece" % (f, fn.qual, nm),
                                "`%s` (= `%s`, source type %s) is OR-ed in below a higher piece after a sign-extending "
                                "widening: when its top bit is set the ones it carries overwrite the higher pieces — "
                                "e.g. the Int64 constant 2147483648 is read back as -2147483648 and 0.1 as NaN by the "
                                "optimizing compiler" % (nm, txt[:60], ity), "%s:%d" % (f, n[1]))
    r.floor("shifted-piece reassembly sites in pkgs/boots", nsites, 4)


def run(chk, F):
    r1 = chk.rule("C18.R1", "per opcode the writer, the Rust reader and the Dora reader agree on operand count, order "
                            "and encoding class; both readers fill the same fields; codecs agree on their constants")
    r2 = chk.rule("C18.R2", "opcode numbering agrees in tools/bytecode.toml, opcode.rs, opcode.dora and the "
                            "From/TryFrom tables (inverse table pair)")
    r3 = chk.rule("C18.R3", "every type under Program has symmetric bincode Encode/Decode; the decoder rejects "
                            "trailing bytes and returns Err instead of panicking")
    c = F.crate(CRATE)
    D = F.dora()
    tabs = run_r2(r2, F, c, D)
    run_r1(r1, F, c, D, tabs)
    run_r3(r3, c, F)
    from rules import c18_wire
    c18_wire.run_wire(chk, F, rid="C18.R4")
    run_r5(chk, F)
    run_r6(chk, F, D)
    chk.assumptions += [
        "bincode's own Encode/Decode impls and its derive are trusted (C18 decides symmetry of what the repository "
        "writes, not decode(encode(p)) == p over all programs)",
        "operand signatures are over encoding classes {byte, varint, fixed32, counted list}; the numeric meaning of "
        "jump distances and const-pool indices is not decided here",
        "C18.R4 (Rust<->Dora wire codecs): signature trees are compared structurally; the byteorder crate is trusted",
    ]

"""Roles of the AST→bytecode generator, located by shape (C01): the node enums, the dispatchers, the pattern
destructors, the node lookups.  Nothing is found by name."""
import hirq

from rules.c01_sym import ty_kind


class Roles:
    def __init__(self, rule, c, module="dora_frontend::generator"):
        self.ok = False
        self.module = module
        adts = dict((a["path"], a) for a in c.items["adts"])
        fns = dict((f["path"], f) for f in c.items["fns"])
        gen_fns = [p for p in c.hir if p.startswith(module + "::")]
        if not rule.anchor("functions of the generator module (%s::*) with body facts" % module, len(gen_fns) >= 50):
            return
        # --- per function: which enum's variants does a `match`/`if let` on a looked-up node name?
        matched = {}                      # fn -> {enum path: set(variant)}
        for p in gen_fns:
            per = {}
            for n in hirq.walk(c.hir[p]["body"]):
                if n[0] in ("pts", "pstruct", "ppath"):
                    d = hirq.def_path(n[1])
                    if d and "::" in d:
                        owner = d.rsplit("::", 1)[0]
                        if owner in adts and adts[owner]["kind"] == "enum":
                            per.setdefault(owner, set()).add(hirq.last(d))
            matched[p] = per

        def id_params(p):
            out = []
            f = fns.get(p)
            for i, t in enumerate((f or {}).get("inputs", [])):
                k = ty_kind(t)
                if k[0] == "id":
                    out.append((i, k[1]))
            return out

        # --- expression dispatcher: the function with an id parameter of enum E that names (almost) all variants of E,
        #     E being the enum with the most variants among such candidates
        best = None
        for p in gen_fns:
            for (i, target) in id_params(p):
                if target in adts and adts[target]["kind"] == "enum":
                    nv = len(adts[target]["variants"])
                    got = len(matched[p].get(target, ()))
                    if nv >= 10 and got >= 0.8 * nv:
                        if best is None or nv > best[3]:
                            best = (p, i, target, nv)
        if not rule.anchor("expression dispatcher (function matching ≥80% of the variants of the node enum its id "
                           "parameter points to)", best):
            return
        self.expr_dispatch, self.expr_arg, self.E, _nv = best
        # --- other node enums: id targets inside E's payload (transitively through sema structs)
        scope = self.E.rsplit("::", 2)[0] + "::"          # dora_frontend::sema::
        self.scope = scope
        targets = set()

        def collect(ty, seen):
            k = ty_kind(ty)
            if k[0] == "id":
                if k[1] in adts and adts[k[1]]["kind"] == "enum" and k[1].startswith(scope):
                    if k[1] not in targets:
                        targets.add(k[1])
                        for v in adts[k[1]]["variants"]:
                            for f in v["fields"]:
                                collect(f["ty"], seen)
            elif k[0] in ("vec", "opt", "box"):
                collect(k[1], seen)
            elif k[0] == "adt" and k[1] in adts and k[1].startswith(scope) and k[1] not in seen:
                for v in adts[k[1]]["variants"]:
                    for f in v["fields"]:
                        collect(f["ty"], seen | {k[1]})
        for v in adts[self.E]["variants"]:
            for f in v["fields"]:
                collect(f["ty"], frozenset([self.E]))
        targets.discard(self.E)
        # --- statement dispatcher: a generator function with an Id<S> parameter naming all variants of S, S ≠ E,
        #     S's payload pointing back to E
        self.S = self.stmt_dispatch = None
        self.P = None
        for t in sorted(targets):
            nv = len(adts[t]["variants"])
            cands = [p for p in gen_fns if any(tt == t for _i, tt in id_params(p))
                     and len(matched[p].get(t, ())) == nv]
            mentions_E = any(ty_kind(f["ty"]) == ("id", self.E) or self.E in f["ty"] or "Expr" in f["ty"]
                             for v in adts[t]["variants"] for f in v["fields"])
            if cands and mentions_E and nv <= 6 and self.S is None:
                # the dispatcher is the candidate that calls the expression dispatcher's module handlers, i.e. the
                # shortest body that forwards each arm
                cands.sort(key=lambda p: len(str(c.hir[p]["body"])))
                self.S, self.stmt_dispatch = t, cands[0]
                self.stmt_arg = [i for i, tt in id_params(cands[0]) if tt == t][0]
        if not rule.anchor("statement enum and its dispatcher (generator function naming every variant of an id target "
                           "of the expression payloads)", self.S):
            return
        rest = [t for t in targets if t != self.S]
        # --- pattern enum and destructors: generator functions with (Id<P>, Register) parameters that are called
        #     from another module of the generator
        self.pattern_sinks = {}
        for t in rest:
            for p in gen_fns:
                f = fns.get(p)
                if not f:
                    continue
                ids = [i for i, tt in id_params(p) if tt == t]
                has_reg = any(x.endswith("::Register") for x in f["inputs"])
                if ids and has_reg:
                    mod = p.rsplit("::", 1)[0]
                    callers = [q for q in gen_fns if not q.startswith(mod + "::")
                               and any(cs.callee == p for cs in hirq.calls(c.hir[q]["body"]))]
                    if callers:
                        self.pattern_sinks[p] = (ids[0], "pattern")
                        self.P = t
        if not rule.anchor("pattern destructors (generator functions with (pattern id, value register) parameters "
                           "called from handler modules)", self.pattern_sinks):
            return
        self.kinds = {self.E: "expr", self.S: "stmt", self.P: "pattern"}
        # --- lookups: (&T, Id<X>) -> &X
        self.lookups = {}
        for p, f in fns.items():
            ins = f.get("inputs", [])
            if len(ins) == 2 and f.get("output", "").startswith("&"):
                k = ty_kind(ins[1])
                out = f["output"].lstrip("&").strip()
                if k[0] == "id" and k[1] in self.kinds and out == k[1]:
                    self.lookups[p] = k[1]
        if not rule.anchor("node lookups ((&T, Id<X>) -> &X for the three node enums)",
                           len(set(self.lookups.values())) == 3):
            return
        self.sinks = dict(self.pattern_sinks)
        self.sinks[self.expr_dispatch] = (self.expr_arg, "expr")
        self.sinks[self.stmt_dispatch] = (self.stmt_arg, "stmt")
        self.adts = adts
        self.fns = fns
        self.ok = True

"""C18.R4 — the Rust<->Dora wire codecs agree (boots compiler host side <-> pkgs/boots (de)serializers).

Both directions of the compiler interface are hand-written twice: `encode_X` in Rust is read by `decode_X` in Dora
(compilation requests, struct/enum data, inlining info ...) and `encode_X` in Dora is read by `decode_X` in Rust (the
code descriptor with its tables and relocations).  Nothing but convention keeps the two in step.

Every function that takes the byte buffer/reader of its language is summarised from its body into a signature tree
(rules/c18_wire_ir.py; summarisers c18_wire_rs.py over HIR facts and c18_wire_dora.py over Dora syntax trees; the
buffer helpers' widths are derived from the helpers' own bodies).  Pairs are formed by name stem (`encode_`/`decode_`
stripped, case and underscores ignored); a pair is compared structurally, calls are compared as pairs of their own
(coinductively) or expanded in place where the two languages factor their helpers differently, so functions without
a same-named partner are still compared wherever a matched pair reaches them at corresponding positions.

Violations: a field written with another width, order or count than it is read with; a loop whose count is not the
element the other side uses; a tag value the writer emits that the reader has no live arm for, or decodes into
another variant (tag constants are resolved to their VALUES on each side: dora_bytecode::opcode constants and
From<Enum> for u8 tables in Rust, pkgs/boots/bytecode/opcode.dora in Dora; C18.R2 ties both to tools/bytecode.toml).
Root messages (request/reply byte arrays of the `*_raw` natives and of the compile entry points) are compared the same
way; the native link is `mangle("<dora native path>")` = the Rust function's export symbol.
"""
import re

import facts
from rules import c18_wire_ir as IR
from rules import c18_wire_rs as RS
from rules import c18_wire_dora as DS

DORA_FILES = ["pkgs/boots/deserializer.dora", "pkgs/boots/serializer.dora", "pkgs/boots/bytecode/deserializer.dora"]
PREFIX = re.compile(r"^(encode|decode|serialize|deserialize|write|read|emit)_")
VIOLATION_KINDS = ("width", "count", "kind", "length-prefix", "tag-source", "tag-unread", "tag-variant", "class", "permuted")


def stem(name):
    base = name.split("::")[-1]
    m = PREFIX.match(base)
    if not m:
        return None
    return re.sub(r"[^a-z0-9]", "", base[m.end():].lower())


def _analysis(r, key, msg, where=None):
    full = "ANALYSIS:%s:%s" % (r.name, key)
    if not any(v[0] == full for v in r.violations):
        r.violations.append((full, msg, where))


def _where(W, R, d):
    return "%s / %s" % (d.wloc or W.where, d.rloc or R.where)


def report_pair(r, cmp, W, R, diffs, counted):
    pk = "%s~%s" % (W.key[1], R.key[1])
    sample = {"writer": "%s %s" % (W.lang, W.key[1]), "reader": "%s %s" % (R.lang, R.key[1]),
              "writer_sig": IR.render(W.seq)[:160], "reader_sig": IR.render(R.seq)[:160]}
    opaque = [d for d in diffs if d.kind == "opaque"]
    real = [d for d in diffs if d.kind in VIOLATION_KINDS]
    r.instance(pk, nontrivial=not opaque, sample=sample)
    for d in real:
        r.violation("%s:%s:%s" % (pk, d.kind, d.path or "[0]"),
                    "%s (writer %s %s, reader %s %s): at element %s %s" % (
                        "wire codec disagreement", W.lang, W.name, R.lang, R.name, d.path or "[0]", d.msg),
                    _where(W, R, d))
    for d in opaque:
        r.observe("pair %s not fully analysed at %s: %s" % (pk, d.path, d.msg))
    if not opaque:
        counted.add(pk)
    return not real and not opaque


def run_wire(chk, F, rid="C18.R4"):
    r = chk.rule(rid, "each Rust/Dora wire codec pair writes and reads the same fields, widths, counted loops and "
                      "tag-to-variant dispatch")
    try:
        rs = RS.RsSide(F)
        D = F.dora()
    except facts.AnalysisError as e:
        r.anchor("facts (%s)" % e, None)
        return
    ds = DS.DoraSide(D, DORA_FILES)
    ok = r.anchor("methods of " + RS.WRITER_TY, any(p.startswith(RS.WRITER_TY + "::") for p in rs.hir))
    ok &= r.anchor("methods of " + RS.READER_TY, any(p.startswith(RS.READER_TY + "::") for p in rs.hir))
    ok &= r.anchor("Dora class %s with methods" % DS.WRITER_CLS, any(k[0] == DS.WRITER_CLS for k in ds.methods_src))
    ok &= r.anchor("Dora class %s with methods" % DS.READER_CLS, any(k[0] == DS.READER_CLS for k in ds.methods_src))
    for f in DORA_FILES[:2]:
        ok &= r.anchor(f, f in D)
    if not ok:
        return

    fns = {}
    for p in rs.codec_functions():
        rs.function(p)
    for n in ds.codec_functions():
        ds.function(n)
    fns.update(rs.fns)
    fns.update(ds.fns)
    r.anchor("Dora opcode constants reachable through the `opc` alias", any(ds.consts.get(s) for s in ds.consts))

    for p in sorted(rs.hir):
        if p.startswith(RS.WRITER_TY + "::") or p.startswith(RS.READER_TY + "::"):
            rs.method(p)
    for (cls, name) in sorted(ds.methods_src):
        ds.method(cls, name)
    fns.update(rs.fns)
    fns.update(ds.fns)
    # primitives: derived widths must exist on all four ends
    prims = {"rust": {k: v for k, v in rs.methods.items() if v[0] == "prim"},
             "dora": {k: v for k, v in ds.methods.items() if v[0] == "prim"}}
    r.floor("stream primitives summarised from helper bodies (Rust)", len(prims["rust"]), 6)
    r.floor("stream primitives summarised from helper bodies (Dora)", len(prims["dora"]), 5)
    r.observe("derived primitives: Rust %s; Dora %s" % (
        ", ".join("%s=%d" % (k.split("::")[-1], v[1]) for k, v in sorted(prims["rust"].items())),
        ", ".join("%s=%d" % (k[1], v[1]) for k, v in sorted(prims["dora"].items()))))

    _byte_order(r, rs, ds)

    stems = {}
    for k, f in fns.items():
        s = stem(f.name)
        if s:
            stems[k] = s
    cmp = IR.Comparer(fns, stems)

    # functions that could not be summarised at all
    for k, f in sorted(fns.items()):
        why = IR.opaque_reasons(f.seq)
        if why:
            r.observe("%s %s is not summarisable: %s" % (f.lang, f.name, "; ".join(sorted(set(why)))[:200]))

    counted = set()
    n_stem = 0
    for (wl, rl) in (("rust", "dora"), ("dora", "rust")):
        ws = sorted(k for k, f in fns.items() if f.lang == wl and f.side == "w" and k in stems)
        rds = sorted(k for k, f in fns.items() if f.lang == rl and f.side == "r" and k in stems)
        for wk in ws:
            for rk in rds:
                if stems[wk] != stems[rk]:
                    continue
                n_stem += 1
                diffs = cmp.pair(wk, rk)
                report_pair(r, cmp, fns[wk], fns[rk], diffs, counted)
    # pairs reached through corresponding call positions although their names differ
    n_induced = 0
    for (wk, rk) in sorted(cmp.induced):
        if stems.get(wk) is not None and stems.get(wk) == stems.get(rk):
            continue
        if fns[wk].lang == fns[rk].lang:
            continue
        diffs = cmp.memo.get((wk, rk))
        if diffs == "busy" or diffs is None:
            continue
        n_induced += 1
        report_pair(r, cmp, fns[wk], fns[rk], diffs, counted)

    n_root = _roots(r, F, rs, ds, fns, stems, cmp, counted)

    for note in sorted(set(cmp.notes)):
        r.observe(note)
    for k, f in sorted(fns.items()):
        if k not in cmp.covered:
            r.observe("unmatched: %s %s (%s) has no partner by name and is not reached from any compared pair"
                      % (f.lang, f.name, "writer" if f.side == "w" else "reader"))
    unimpl = [fn.name for fn in _unimplemented(D)]
    if unimpl:
        r.observe("pkgs/boots/bytecode/deserializer.dora: %d methods are `unimplemented()` stubs (no codec to compare)"
                  % len(unimpl))
    r.floor("codec pairs matched by name stem", n_stem, 28)
    r.floor("codec pairs fully analysed (stem, induced and root messages)", len(counted), 56)
    r.floor("root messages (natives / entry points) compared", n_root, 20)


def _byte_order(r, rs, ds):
    from rules import c18_wire_endian as EN
    raw = EN.byte_orders(rs, ds)
    wrappers = {k: v for k, v in raw.items() if isinstance(v, tuple)}
    for k, v in sorted(wrappers.items()):
        r.observe("%s forwards to %s (byte order %s)" % (k, v[1], v[2]))
    orders = {k: v for k, v in raw.items() if not isinstance(v, tuple)}
    known = {k: v for k, v in orders.items() if v in ("LE", "BE")}
    votes = {}
    for v in known.values():
        votes[v] = votes.get(v, 0) + 1
    major = max(votes, key=lambda k: votes[k]) if votes else None
    for k, v in sorted(orders.items()):
        key = "byte-order:%s" % k.replace(" ", ":")
        r.instance(key, nontrivial=v is not None, sample={"primitive": k, "order": v})
        if v == "mixed":
            r.violation(key, "the multi-byte primitive %s assembles its bytes in neither little- nor big-endian order"
                        % k)
        elif v is None:
            r.observe("byte order of %s could not be derived from its body" % k)
        elif v != major:
            r.violation(key, "%s is %s-endian but the other stream primitives are %s-endian (%s)"
                        % (k, v, major, ", ".join("%s=%s" % kv for kv in sorted(known.items()))))
    r.floor("multi-byte primitives with a derived byte order", len(known), 7)
    r.observe("derived byte orders: " + ", ".join("%s=%s" % kv for kv in sorted(orders.items())))


def _unimplemented(D):
    import doraq
    out = []
    t = D.get(DORA_FILES[2])
    if not t:
        return out
    for fn in doraq.functions(t, DORA_FILES[2]):
        if fn.body is not None and re.sub(r"\s+", "", doraq.text(fn.body)) == "{unimplemented()}":
            out.append(fn)
    return out


def _roots(r, F, rs, ds, fns, stems, cmp, counted):
    from rules import c18_wire_roots as RT
    notes = []
    try:
        rfns, pairs = RT.build_root_pairs(F, rs, ds, F.dora(), notes.append)
    except Exception as e:                                      # noqa: BLE001
        _analysis(r, "root-messages", "root messages could not be collected: %s: %s" % (type(e).__name__, e))
        return 0
    for n in notes:
        r.observe(n)
    fns.update(rfns)
    n = 0
    for (wk, rk, link) in pairs:
        W, R = fns[wk], fns[rk]
        why = IR.opaque_reasons(W.seq) + IR.opaque_reasons(R.seq)
        diffs = cmp.pair(wk, rk)
        if report_pair(r, cmp, W, R, diffs, counted) or not why:
            n += 1
    return n

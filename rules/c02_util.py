"""Shared helpers for the C02 table/ABI/handler-coverage rules (c02_tables.py, c02_natives.py).

Everything here is a query over facts (HIR / MIR / items / Dora trees); nothing is executed.
"""
import re

import doraq
import hirq
from hirq import def_path, is_node, last

PAT_TAGS = {"pwild", "pbind", "ppath", "pts", "pstruct", "ptuple", "por", "pref", "prange", "pslice"}


def strip_generics(t):
    """`a::B<'a, T>` -> `a::B`; `a::B::<'a>::f` -> `a::B::f`"""
    if not t:
        return t
    out, depth = [], 0
    i = 0
    while i < len(t):
        ch = t[i]
        if ch == "<":
            depth += 1
        elif ch == ">" and depth:
            depth -= 1
        elif depth == 0:
            out.append(ch)
        i += 1
    return "".join(out).replace("::::", "::")


# ------------------------------------------------------------------------------------------ HIR: panics

def _single(e):
    """look through macro wrappers and blocks that hold exactly one statement or only a tail"""
    while True:
        e = hirq.unmacro(e)
        if is_node(e) and e[0] == "block" and len(e[1]) + (1 if e[2] is not None else 0) == 1:
            e = e[1][0] if e[1] else e[2]
            continue
        return e


def is_panic_expr(e):
    """the expression is nothing but a call into the panic machinery (panic!/unreachable!/unimplemented!/todo!, with or
    without a message: decided by the callee `core::panicking::*` / `std::rt::begin_panic*`, not by the macro name)"""
    e = _single(e)
    if is_node(e) and e[0] == "call":
        d = def_path(e[2]) or ""
        return d.startswith("core::panicking::") or d.startswith("std::rt::begin_panic") or \
            d.startswith("std::rt::panic_fmt")
    return False


def always_panics(c, path, depth=3):
    """the body of fn `path` is a bare panic, or a single call to a function of the same crate that always panics"""
    b = c.hir.get(path)
    if b is None:
        return False
    return _body_panics(c, b["body"], depth)


def _body_panics(c, body, depth):
    if is_panic_expr(body):
        return True
    e = _single(body)
    if depth > 0 and is_node(e) and e[0] in ("call", "mcall"):
        cs = hirq.CallSite(e)
        if cs.callee and cs.callee in c.hir:
            return _body_panics(c, c.hir[cs.callee]["body"], depth - 1)
    return False


def expr_walk(e):
    """pre-order over expression nodes only (patterns of match arms / lets are not entered); yields (node, parent)"""
    st = [(e, None)]
    while st:
        x, par = st.pop()
        if not isinstance(x, list):
            continue
        if is_node(x):
            if x[0] in PAT_TAGS:
                continue
            yield x, par
            if x[0] == "match":
                st.append((x[1], x))
                for arm in x[2]:
                    if arm[1] is not None:
                        st.append((arm[1], x))
                    st.append((arm[2], x))
                continue
            if x[0] in ("let", "letx"):
                for ch in x[2:]:
                    if isinstance(ch, list):
                        st.append((ch, x))
                continue
            for ch in x[1:]:
                if isinstance(ch, list):
                    st.append((ch, x))
        else:
            for ch in x:
                if isinstance(ch, list):
                    st.append((ch, par))


def matches_on(body, enum_prefix, min_arms=2):
    """all `match` nodes of a body with at least `min_arms` arms whose patterns name variants of `enum_prefix`"""
    out = []
    for n in hirq.walk(body):
        if n[0] != "match":
            continue
        k = 0
        for (pat, _g, _b) in hirq.match_arms(n):
            if any(p.startswith(enum_prefix) for p in hirq.pat_paths(pat)):
                k += 1
        if k >= min_arms:
            out.append(n)
    return out


# ------------------------------------------------------------------------------------------ MIR: constant functions

PRIM_SIZE = {"u8": 1, "i8": 1, "bool": 1, "u16": 2, "i16": 2, "u32": 4, "i32": 4, "f32": 4, "char": 4,
             "u64": 8, "i64": 8, "f64": 8, "usize": 8, "isize": 8}       # host build (x86_64) — as the facts are


def type_size(ty, crates):
    ty = (ty or "").strip()
    if ty in PRIM_SIZE:
        return PRIM_SIZE[ty]
    if ty.startswith("*const ") or ty.startswith("*mut ") or ty.startswith("&"):
        return 8 if "[" not in ty and "dyn " not in ty else None
    m = re.match(r"^core::sync::atomic::Atomic<(\w+)>$", ty)
    if m:
        return PRIM_SIZE.get(m.group(1))
    if ty.startswith("core::marker::PhantomData"):
        return 0
    for c in crates:
        for a in c.items["adts"]:
            if a["path"] == ty and a.get("size") is not None:
                return a["size"]
    return None


def mir_const_eval(crates, path, depth=6):
    """value of a parameterless straight-line function (`const fn size() -> i32 { size_of::<usize>() as i32 }`,
    `offset_of!(..) as i32`, `a() + b()`), evaluated over its MIR; None when the shape is not recognised"""
    if depth < 0:
        return None
    body = None
    for c in crates:
        body = c.mir.get(path)
        if body is not None:
            break
    if body is None or body.get("argc", 0) != 0:
        return None
    env = {}

    def place_val(pl):
        loc, proj = pl
        v = env.get(loc)
        for p in proj:
            if isinstance(v, tuple) and p.startswith("."):
                try:
                    v = v[int(p[1:])]
                except (ValueError, IndexError):
                    return None
            else:
                return None
        return v

    def operand(op):
        if not isinstance(op, list):
            return None
        if op[0] in ("c", "m"):
            return place_val(op[1])
        if op[0] == "k":
            v = op[1].get("v")
            return v if isinstance(v, int) and not isinstance(v, bool) else None
        return None

    bb, steps = 0, 0
    blocks = body["blocks"]
    while steps < 64:
        steps += 1
        blk = blocks[bb]
        for s in blk["s"]:
            if s[0] != "a":
                continue
            (loc, proj), rv = s[1], s[2]
            if proj:
                return None
            k = rv[0]
            if k == "use":
                env[loc] = operand(rv[1])
            elif k == "cast":
                env[loc] = operand(rv[2])
            elif k == "bin":
                a, b = operand(rv[2]), operand(rv[3])
                op = rv[1]
                if a is None or b is None:
                    env[loc] = None
                elif op in ("Add", "AddWithOverflow", "AddUnchecked"):
                    env[loc] = (a + b, False) if op == "AddWithOverflow" else a + b
                elif op in ("Sub", "SubWithOverflow", "SubUnchecked"):
                    env[loc] = (a - b, False) if op == "SubWithOverflow" else a - b
                elif op in ("Mul", "MulWithOverflow", "MulUnchecked"):
                    env[loc] = (a * b, False) if op == "MulWithOverflow" else a * b
                else:
                    env[loc] = None
            else:
                env[loc] = None
        t = blk["t"]
        if t[0] == "ret":
            v = env.get(0)
            return v if isinstance(v, int) else None
        if t[0] == "goto":
            bb = t[1]
        elif t[0] == "assert":
            # ["assert", cond, expected, target, unwind, msg]: overflow checks of const arithmetic; follow success
            if len(t) < 4 or not isinstance(t[3], int) or isinstance(t[3], bool):
                return None
            bb = t[3]
        elif t[0] == "call":
            info = t[1]
            f = info["f"]
            fn = f[1].get("fn") if isinstance(f, list) and f[0] == "k" else None
            if not fn or info.get("a"):
                return None
            d = fn.get("d")
            if d in ("core::mem::size_of", "std::mem::size_of"):
                val = type_size((fn.get("g") or "").strip("[]"), crates)
            else:
                val = mir_const_eval(crates, d, depth - 1)
            dest = info["d"]
            if dest[1]:
                return None
            env[dest[0]] = val
            if info.get("t") is None:
                return None
            bb = info["t"]
        else:
            return None
    return None


# ------------------------------------------------------------------------------------------ Dora trees

DORA_DIVERGES = {"fatal_error", "unreachable", "unimplemented", "panic"}    # std functions of type Never


def dora_pattern_paths(pat):
    """constructor / constant paths named by a Dora match pattern (through `a | b`); '_' for a catch-all"""
    if pat[0] == "ALT":
        out = []
        for ch in doraq.nodes(pat):
            out += dora_pattern_paths(ch)
        return out
    if pat[0] in ("UNDERSCORE_PATTERN", "IDENT_PATTERN"):
        return ["_"]
    pd = doraq.child(pat, "PATH_DATA")
    if pd is not None:
        return [doraq.text(pd)]
    t = doraq.text(pat)
    m = re.match(r"^[\w:]+", t)
    return [m.group(0)] if m else [t]


def dora_single(node):
    """look through blocks / expression statements that hold exactly one expression"""
    while True:
        if node[0] in ("BLOCK_EXPR", "EXPR_STMT", "PAREN_EXPR") and len(doraq.nodes(node)) == 1:
            node = doraq.nodes(node)[0]
            continue
        return node


def dora_call_name(node):
    if node[0] in ("CALL_EXPR", "METHOD_CALL_EXPR"):
        try:
            return doraq.Call(node)
        except Exception:                                   # noqa: BLE001
            return None
    return None


def dora_is_panic(node):
    """the arm body / function body is nothing but a call of a Never-typed std function"""
    e = dora_single(node)
    cs = dora_call_name(e)
    if cs is None or cs.recv is not None:
        return False
    name = re.sub(r"\[.*\]$", "", cs.callee).split("::")[-1]
    return name in DORA_DIVERGES


def dora_always_panics(node, fns_by_name, depth=3):
    """bare panic, or a single `self.f(..)` / `f(..)` delegation to a function (same file set) that always panics"""
    if dora_is_panic(node):
        return True
    # `{ self.f(..); false }`: a delegation followed by a literal result
    e = node
    if e[0] == "BLOCK_EXPR":
        ns = [x for x in doraq.nodes(e)]
        ns = [x for x in ns if dora_single(x)[0] not in ("LIT_BOOL_EXPR",)]
        if len(ns) != 1:
            return False
        e = ns[0]
    e = dora_single(e)
    cs = dora_call_name(e)
    if cs is None or depth <= 0:
        return False
    if cs.recv is not None and doraq.text(cs.recv) != "self":
        return False
    f = fns_by_name.get(cs.name)
    if f is None or f.body is None:
        return False
    return dora_always_panics(f.body, fns_by_name, depth - 1)


def norm_name(s):
    return re.sub(r"[^A-Za-z0-9]", "", s or "").upper()


def snake(s):
    return re.sub(r"(?<=[a-z0-9])(?=[A-Z])", "_", s).lower()

"""Abstract interpreter over HIR for the child-iterator discipline of dora-format (used by rules/c17.py).

Every formatter function walks `node.children_with_tokens()` (a dora_parser SyntaxElementIter) and either EMITS the
elements it takes (Formatter::token / format_node / a formatter that takes the node) or DROPS them.  The interpreter
evaluates a function body path-insensitively-joined but branch-sensitively, tracking

  * per child iterator: H = the kinds the *next* element can have (END = exhausted), N = the kinds the next
    *non-trivia* element can have; refined by tests on peek_kind()/peek_kind_ignore_trivia() (match arms, matches!,
    if-let, ==, assert_eq!) — a peeked value is forgotten as soon as its iterator advances;
  * per consumed element: the kinds it can have (refined by tests on elem.syntax_kind(), to_token()/to_node()
    unwraps and Token/Node patterns) until it is emitted; whatever is still pending when the function returns
    normally is a *drop* with that kind set;
  * per iterator created in the function: H at the point where it goes out of scope (its *death*).

Helpers that take the iterator as a parameter are inlined at their call sites (so `eat_token_opt(f, iter, K, opt)`
yields a drop of {K} attributed to the calling function); functions that take a node are summarised by EMITS (the
set of parameters that are emitted on every normal path: greatest fixpoint, so recursion over the tree is fine).
Panicking paths are not paths.  Anything outside the interpreted fragment raises Unsupported (analysis failure).
"""
import hirq
from hirq import is_node, last

END = "<END>"
UNK = ("unk",)
UNIT = ("unit",)

ITER_TY = "dora_parser::ast::SyntaxElementIter"
FMT_TY = "dora_format::doc::Formatter"
NEXT = "core::iter::traits::iterator::Iterator::next"
INTO_ITER = "core::iter::traits::collect::IntoIterator::into_iter"

# std conversions that hand on the very same value (std semantics, trusted): Option unwrap/expect/clone/as_ref …
STD_IDENTITY = ("core::option::Option::<T>::unwrap", "core::option::Option::<T>::expect",
                "core::clone::Clone::clone", "core::option::Option::<T>::as_ref", "core::option::Option::<T>::cloned",
                "core::option::Option::<&T>::cloned", "core::convert::Into::into", "core::convert::From::from",
                "core::borrow::Borrow::borrow", "core::convert::AsRef::as_ref")
STD_UNWRAP = ("core::option::Option::<T>::unwrap", "core::option::Option::<T>::expect")


class Unsupported(Exception):
    pass


def strip_ty(ty):
    ty = ty.strip()
    while ty.startswith("&"):
        ty = ty[1:].strip()
        if ty.startswith("'"):
            ty = ty.split(" ", 1)[1] if " " in ty else ""
        if ty.startswith("mut "):
            ty = ty[4:]
    return ty


def is_iter_ty(ty):
    return strip_ty(ty).startswith(ITER_TY)


def is_fmt_ty(ty):
    return strip_ty(ty) == FMT_TY


def is_kind_ty(ty):
    return strip_ty(ty) == "dora_parser::token::TokenKind"


def is_sym(k):
    return k.startswith("$")


_TRIVIA = frozenset()      # set by Interp.__init__ (symbolic kinds are assumed to be non-trivia kinds)


def kinter(a, b):
    """intersection; a symbolic kind (a TokenKind parameter: some unknown non-trivia kind) survives an intersection
    with any set that has a non-trivia member"""
    r = set(a & b)
    if any((k not in _TRIVIA and k != END) for k in b):
        r |= {k for k in a if is_sym(k)}
    if any((k not in _TRIVIA and k != END) for k in a):
        r |= {k for k in b if is_sym(k)}
    return frozenset(r)


def kminus(a, b):
    return frozenset(k for k in a if k not in b)


class St:
    """iters: key → (H, N);  pend: elem id → kinds;  env: name → value;  leaked: frozenset((id, kinds))"""
    __slots__ = ("iters", "pend", "env", "leaked", "nc", "nodes", "ek", "tail", "dclosed")

    def __init__(self):
        self.iters = {}
        self.pend = {}
        self.env = {}
        self.leaked = frozenset()
        self.nc = frozenset()        # elements / iterators known to contain no comment (has_comment(..) was false)
        self.nodes = frozenset()     # consumed elements known (on this path) to be nodes
        self.ek = {}                 # elements that may be a LINE_COMMENT → their possible kinds (kept after emission)
        self.tail = frozenset()      # obligations at the end of the current output buffer: a hard line must come next
        self.dclosed = frozenset()   # deferred docs known (on this path) to end with a hard line

    def copy(self):
        s = St()
        s.iters = dict(self.iters)
        s.pend = dict(self.pend)
        s.env = dict(self.env)
        s.leaked = self.leaked
        s.nc = self.nc
        s.nodes = self.nodes
        s.ek = dict(self.ek)
        s.tail = self.tail
        s.dclosed = self.dclosed
        return s

    def same(self, o):
        return (o is not None and self.iters == o.iters and self.pend == o.pend and self.env == o.env
                and self.leaked == o.leaked and self.nc == o.nc and self.nodes == o.nodes and self.ek == o.ek
                and self.tail == o.tail and self.dclosed == o.dclosed)


def join(a, b):
    if a is None:
        return b
    if b is None:
        return a
    s = St()
    for k in set(a.iters) | set(b.iters):
        x, y = a.iters.get(k), b.iters.get(k)
        if x is None or y is None:
            s.iters[k] = x or y
        else:
            s.iters[k] = (x[0] | y[0], x[1] | y[1], x[2] if x[2] == y[2] else None)
    for k in set(a.pend) | set(b.pend):
        s.pend[k] = a.pend.get(k, frozenset()) | b.pend.get(k, frozenset())
    for k in set(a.env) | set(b.env):
        x, y = a.env.get(k), b.env.get(k)
        if x == y:
            s.env[k] = x
        else:
            s.env[k] = UNK
    s.leaked = a.leaked | b.leaked
    s.nc = a.nc & b.nc
    s.nodes = a.nodes & b.nodes
    for k in set(a.ek) | set(b.ek):
        s.ek[k] = a.ek.get(k, frozenset()) | b.ek.get(k, frozenset())
    s.tail = a.tail | b.tail
    s.dclosed = a.dclosed & b.dclosed
    return s


def joinall(states):
    out = None
    for s in states:
        out = join(out, s)
    return out


class Frame:
    def __init__(self, fn, ctx, parent=None):
        self.fn = fn                 # function (or closure) path whose body is evaluated
        self.ctx = ctx               # tuple of call-site node ids (inline context)
        self.parent = parent
        self.rets = []               # [(value, state)]
        self.loops = []              # stack of {'breaks':[], 'conts':[], 'depth': scope depth at entry}
        self.scopes = []             # ids of the blocks being evaluated
        self.root = parent.root if parent else self
        self.stack = (parent.stack if parent else ()) + (fn,)


class Model:
    """static facts about dora_parser / dora_format that the interpreter needs (all derived, see c17.py)"""

    def __init__(self):
        self.allk = frozenset()
        self.trivia = frozenset()
        self.nodek = frozenset()
        self.identity = {}            # dora_parser fn path → None | 'tok' | 'node' | 'cast'
        self.consuming = set()        # resolved callee paths that advance the iterator
        self.peek_h = set()
        self.peek_n = set()
        self.iter_readonly = set()    # other SyntaxElementIter methods (no effect)
        self.fns = {}                 # dora_format hir bodies
        self.inline_once = {}         # Formatter combinator path → index of the closure argument (in args)
        self.base_emit = {}           # path → arg index (all_args) that is emitted (Formatter::token, format_node)
        self.carriers = {}            # ctor path → set(field indices holding a syntax element)
        self.syntax_kind_fns = set()
        self.children_fns = set()
        self.accessor_formatters = {}  # frozen exceptions: path → reason
        self.token_fn = None
        self.doc_from_children = set()
        self.droppable = frozenset()   # layout + optional separators (the property's own vocabulary)
        self.comments = frozenset()
        self.comment_preds = set()     # fns that answer "does this subtree contain a comment token?"
        self.line_comment = "LINE_COMMENT"
        self.fmt_push = {}             # Formatter method → 'hard' | 'generic' | 'append' (what it pushes to the output)
        self.comb_kind = {}            # Formatter combinator → 'wrap' | 'ifbreak' | 'detach'
        self.is_trivia_fn = None
        self.ehl_preds = set()         # fns that answer "does this doc end with a hard line?"
        self.doc_carriers = {}         # ctor → field indices of type Doc
        self.doc_ty = "dora_format::doc::Doc"


class Interp:
    def __init__(self, model, emits=None):
        self.m = model
        self.emits = emits if emits is not None else {}
        global _TRIVIA
        _TRIVIA = frozenset(model.trivia)
        self.top = frozenset(model.allk | {END})
        self.eleminfo = {}            # id → dict(fn, line, itkey, origin)
        self.iterinfo = {}            # key → dict(fn, line, owned, ctx)
        self.deaths = {}              # key → [H]
        self.emitted_via = {}         # id → set(via)
        self.carried = {}             # ctor → set(fn)
        self.consumed_order = []      # ids in first-consumption order
        self.closures = {}            # cid → (node, fnpath)
        self.havocs = []              # (fn, line, what)
        self.sites = {}               # (site fn, node id) → {line, kinds}: every consuming call evaluated
        self.benign = {}              # (site fn, node id) → droppable kinds dropped there
        self.notes = []
        self.ncons = {}               # iterator key → how often it advanced (to invalidate peeks held by callers)
        self.unsummarised = set()     # helpers called without being inlined (recursion): judged from an unknown state
        self.r7_emits = {}            # (site fn, node id) → {"line", "root"}: Formatter::token on a possible line comment
        self.r7_events = []           # (kind, fn where it happens, detail, origins)
        self.carried_kinds = {}       # token carrier ctor → kinds put in
        self.doc_carried_open = {}    # doc carrier ctor → set(fn) that stored a doc ending in an open line comment
        self.copen = {}               # (input) doc carrier ctors that may hold an open doc
        self.ckinds = {}              # (input) token carrier ctor → kinds
        self.retopen_in = set()       # (input) fns whose returned doc may end in an open line comment

    # ------------------------------------------------------------------ iterator state
    def norm(self, S, key):
        H, N, L = S.iters[key]
        tr = self.m.trivia
        if key in S.nc:
            H = kminus(H, self.m.comments)
        H = frozenset(k for k in H if k in tr or k in N or is_sym(k))
        if not (H & tr):
            N2 = kinter(N, H)
            N = N2
        S.iters[key] = (H, N, L)
        return bool(H)

    def refine_iter(self, S, key, mode, kinds, positive):
        """restrict H (mode 'H') or N (mode 'N') of iterator `key`; returns False when the state is impossible"""
        if key not in S.iters:
            return True
        H, N, L = S.iters[key]
        if mode == "H":
            H = kinter(H, kinds) if positive else kminus(H, kinds)
        else:
            N = kinter(N, kinds) if positive else kminus(N, kinds)
        S.iters[key] = (H, N, L)
        if not N:
            return False
        return self.norm(S, key)

    def forget_peeks(self, S, key):
        self.ncons[key] = self.ncons.get(key, 0) + 1      # the iterator moved (or was reset): peeked values are stale
        for n, v in list(S.env.items()):
            if v[0] == "peek" and v[1] == key:
                S.env[n] = UNK

    def consume(self, S, key, e, fr):
        H, N, L = S.iters[key]
        eid = (fr.ctx, id(e))
        if key in S.nc:
            H = kminus(H, self.m.comments)
            S.nc = S.nc | {eid}
        if eid not in self.eleminfo:
            self.eleminfo[eid] = {"fn": fr.fn, "line": e[1] if len(e) > 1 and isinstance(e[1], int) else 0,
                                  "itkey": key, "origin": "consumed", "root": fr.root.fn, "site": id(e)}
            self.consumed_order.append(eid)
        self.sites.setdefault((fr.fn, id(e)), {"line": self.eleminfo[eid]["line"], "kinds": set(), "n": 0})
        self.sites[(fr.fn, id(e))]["kinds"] |= H
        if eid in S.pend:
            S.leaked = S.leaked | {(eid, kminus(S.pend[eid], {END}))}
        if self.m.line_comment in H:
            S.ek[eid] = kminus(H, {END})
        else:
            S.ek.pop(eid, None)
        if H <= self.m.droppable | {END}:
            # layout / optional separator: dropping it is always acceptable, no need to track it
            S.pend.pop(eid, None)
            self.benign.setdefault((fr.fn, id(e)), set()).update((fr.root.fn, k) for k in H if k != END)
        else:
            S.pend[eid] = H
        tr = self.m.trivia
        if all((k in tr or k == END) for k in H):
            S.iters[key] = (frozenset(tr | N), N, L)
        else:
            if all((k in self.m.nodek) for k in H):
                S.nodes = S.nodes | {eid}
            else:
                S.nodes = S.nodes - {eid}
            S.iters[key] = (self.top, self.top, eid)
        # a variable holding the peeked kind of the head now holds the kind of the element just taken
        for n, v in list(S.env.items()):
            if v[0] == "peek" and v[1] == key and v[2] == "H" and not v[3]:
                S.env[n] = ("ekind", eid)
        self.forget_peeks(S, key)
        return ("elem", eid, "next")

    def new_iter(self, S, e, fr, owned=True):
        key = ("it", fr.ctx, id(e))
        if key in S.iters and owned:
            self.kill(S, key)
        S.iters[key] = (self.top, self.top, None)
        if key not in self.iterinfo:
            self.iterinfo[key] = {"fn": fr.fn, "line": e[1] if isinstance(e[1], int) else 0, "owned": owned,
                                  "ctx": fr.ctx, "root": fr.root.fn}
        self.forget_peeks(S, key)
        return ("iter", key)

    def kill(self, S, key):
        if key in S.iters and self.iterinfo.get(key, {}).get("owned"):
            H = S.iters[key][0]
            if key in S.nc:
                H = kminus(H, self.m.comments)
            L = S.iters[key][2]
            self.deaths.setdefault(key, []).append((H, L is not None and L in S.nodes))

    def havoc(self, S, key, fr, line, what):
        if key in S.iters:
            S.iters[key] = (self.top, self.top, None)
            self.forget_peeks(S, key)
            self.havocs.append((fr.root.fn, fr.fn, line, what))

    # ------------------------------------------------------------------ elements
    def emit(self, S, eid, via):
        self.emitted_via.setdefault(eid, set()).add(via)
        S.pend.pop(eid, None)

    def refine_elem(self, S, eid, kinds, positive):
        if eid in S.ek:
            ks = S.ek[eid]
            ks = kinter(ks, kinds) if positive else kminus(ks, kinds)
            S.ek[eid] = ks
            if not ks:
                return False
            self.prune(S)
        if eid not in S.pend:
            return True
        ks = S.pend[eid]
        ks = kinter(ks, kinds) if positive else kminus(ks, kinds)
        S.pend[eid] = ks
        return bool(ks)

    # ------------------------------------------------------------------ R7: what follows a line comment
    def prune(self, S):
        """obligations that can no longer be a line comment on this path are dropped before paths are joined"""
        if S.tail:
            S.tail = frozenset(o for o in S.tail if self.live(S, o))

    def live(self, S, o):
        if o[0] == "e":
            return self.m.line_comment in S.ek.get(o[1], ())
        if o[0] == "d":
            return o[1] not in S.dclosed and self.live(S, o[2])
        if o[0] == "c":
            return o[1] not in S.dclosed
        return True

    def doc_open(self, S, v):
        return v[0] == "doc" and v[1] not in S.dclosed and any(self.live(S, o) for o in v[2])

    def origins(self, S, obs):
        out = set()
        for o in obs:
            while o[0] == "d":
                o = o[2]
            if o[0] == "e":
                info = self.eleminfo.get(o[1], {})
                out.add(info.get("emit_fn") or info.get("fn"))
            elif o[0] == "c":
                out.add("carrier:" + o[2])
            else:
                out.add(str(o[1]))
        return tuple(sorted(x for x in out if x))

    def push(self, S, fr, what, line, new_tail=frozenset(), discharges=False):
        """something is appended to the current output buffer"""
        if not discharges:
            lv = [o for o in S.tail if self.live(S, o)]
            if lv:
                self.r7_events.append(("push", fr.fn, what, self.origins(S, lv), line))
        S.tail = frozenset(new_tail)

    def exit_check(self, S, fr, where_):
        lv = [o for o in S.tail if self.live(S, o)]
        if lv:
            self.r7_events.append(("return", fr.fn, where_, self.origins(S, lv), 0))

    def elem_is_none(self, S, eid):
        """the Option returned by next() is None: nothing was consumed, the iterator is exhausted"""
        if eid in S.pend and END not in S.pend[eid]:
            return False
        S.pend.pop(eid, None)
        info = self.eleminfo.get(eid)
        if info and info["itkey"] in S.iters:
            S.iters[info["itkey"]] = (frozenset({END}), frozenset({END}), None)
        return True

    def elem_is_some(self, S, eid):
        if eid in S.pend:
            ks = kminus(S.pend[eid], {END})
            S.pend[eid] = ks
            return bool(ks)
        return True

    def unwrap_flag(self, S, v):
        """value ('elem', id, flag) is unwrapped / matched against Some: returns (value, ok)"""
        _, eid, flag = v
        ok = True
        if flag == "next":
            ok = self.elem_is_some(S, eid)
        elif flag == "tok":
            ok = self.refine_elem(S, eid, self.m.nodek, False)
        elif flag == "node":
            ok = self.refine_elem(S, eid, self.m.nodek, True)
            S.nodes = S.nodes | {eid}
        return ("elem", eid, None), ok

    # ------------------------------------------------------------------ patterns
    def pat_kinds(self, p):
        if not is_node(p):
            return None
        k = p[0]
        if k == "ppath":
            d = hirq.def_path(p[1])
            if d and "::TokenKind::" in d:
                return frozenset({last(d)})
            return None
        if k == "por":
            out = set()
            for q in p[1]:
                ks = self.pat_kinds(q)
                if ks is None:
                    return None
                out |= ks
            return frozenset(out)
        if k == "pbind" and p[2] is not None:
            return self.pat_kinds(p[2])
        if k == "pref":
            return self.pat_kinds(p[1])
        return None

    def ctor_of(self, p):
        """(ctor path, [subpatterns by position]) for pts / pstruct / ppath patterns"""
        k = p[0]
        if k == "pts":
            return hirq.def_path(p[1]), list(p[2])
        if k == "pstruct":
            subs = []
            for fld in p[2]:
                subs.append(fld[1])
            return hirq.def_path(p[1]), subs
        if k == "ppath":
            return hirq.def_path(p[1]), []
        return None, []

    def refine_kindlike(self, S, v, kinds, positive):
        """v is a kind-valued abstract value; returns False if impossible"""
        t = v[0]
        if t == "peek":
            return self.refine_iter(S, v[1], v[2], kinds, positive)
        if t == "ekind":
            return self.refine_elem(S, v[1], kinds, positive)
        if t == "kind":
            ks = v[1]
            if any(is_sym(k) for k in ks):
                return True
            if positive:
                return bool(ks & kinds)
            return not (ks <= kinds)
        return True

    def bind(self, p, v, S, fr):
        """positive match of pattern p against value v (mutates S); returns False if the match is impossible"""
        if not is_node(p):
            return True
        k = p[0]
        if k == "pwild":
            return True
        if k == "pbind":
            S.env[p[1]] = v if v[0] not in ("bsplit", "vsplit") else UNK
            if p[2] is not None:
                return self.bind(p[2], v, S, fr)
            return True
        if k == "pref":
            return self.bind(p[1], v, S, fr)
        ks = self.pat_kinds(p)
        if ks is not None:
            if v[0] == "peek" and v[3]:
                # a bare kind pattern against Option<kind> does not type-check; defensive
                return True
            return self.refine_kindlike(S, v, ks, True)
        if k == "ptuple":
            vs = v[1] if v[0] == "tup" and len(v[1]) == len(p[1]) else [UNK] * len(p[1])
            for q, x in zip(p[1], vs):
                if not self.bind(q, x, S, fr):
                    return False
            return True
        if k in ("pts", "pstruct", "ppath"):
            ctor, subs = self.ctor_of(p)
            nm = last(ctor) if ctor else None
            if ctor and ctor.startswith("core::option::Option::"):
                if nm == "None":
                    if v[0] == "elem" and v[2] == "next":
                        return self.elem_is_none(S, v[1])
                    if v[0] == "peek" and v[3]:
                        return self.refine_iter(S, v[1], v[2], frozenset({END}), True)
                    if v[0] == "some":
                        return False
                    return True
                if nm == "Some":
                    inner = UNK
                    if v[0] == "elem" and v[2] is not None:
                        inner, ok = self.unwrap_flag(S, v)
                        if not ok:
                            return False
                    elif v[0] == "peek" and v[3]:
                        if not self.refine_iter(S, v[1], v[2], frozenset({END}), False):
                            return False
                        inner = ("peek", v[1], v[2], False)
                    elif v[0] == "some":
                        inner = v[1]
                    elif v[0] == "none":
                        return False
                    for q in subs:
                        if not self.bind(q, inner, S, fr):
                            return False
                    return True
            if v[0] == "elem" and ctor and ctor.startswith("dora_parser::"):
                # wrappers of the same element (SyntaxElement::Token/Node, Ast unions)
                if ctor == "dora_parser::ast::SyntaxElement::Token":
                    if not self.refine_elem(S, v[1], self.m.nodek, False):
                        return False
                elif ctor == "dora_parser::ast::SyntaxElement::Node":
                    if not self.refine_elem(S, v[1], self.m.nodek, True):
                        return False
                    S.nodes = S.nodes | {v[1]}
                for q in subs:
                    if not self.bind(q, ("elem", v[1], None), S, fr):
                        return False
                return True
            if ctor in self.m.carriers:
                # a carried syntax element comes back out of its carrier: it is pending again
                idxs = self.m.carriers[ctor]
                for i, q in enumerate(subs):
                    if i in idxs and is_node(q) and q[0] == "pbind":
                        eid = (fr.ctx, id(q), "carried")
                        self.eleminfo[eid] = {"fn": fr.fn, "line": 0, "itkey": None, "origin": "carrier:" + ctor,
                                              "root": fr.root.fn}
                        S.pend[eid] = frozenset(self.m.allk)
                        ck = frozenset(self.ckinds.get(ctor, ()))
                        if self.m.line_comment in ck:
                            S.ek[eid] = ck
                        else:
                            S.ek.pop(eid, None)
                        S.env[q[1]] = ("elem", eid, None)
                    elif not self.bind(q, UNK, S, fr):
                        return False
                return True
            if ctor in self.m.doc_carriers:
                for i, q in enumerate(subs):
                    if i in self.m.doc_carriers[ctor] and is_node(q) and q[0] == "pbind":
                        did = (fr.ctx, id(q))
                        opens = frozenset({("c", did, ctor)}) if ctor in self.copen else frozenset()
                        S.dclosed = S.dclosed - {did}
                        S.env[q[1]] = ("doc", did, opens)
                    elif not self.bind(q, UNK, S, fr):
                        return False
                return True
            for q in subs:
                if not self.bind(q, UNK, S, fr):
                    return False
            return True
        if k == "lit":
            return True
        return True

    def refute(self, p, v, S, fr):
        """state in which p does NOT match v (mutates S); returns False when p always matches"""
        if not is_node(p):
            return True
        k = p[0]
        if k == "pwild":
            return False
        if k == "pbind":
            if p[2] is None:
                return False
            return self.refute(p[2], v, S, fr)
        if k == "pref":
            return self.refute(p[1], v, S, fr)
        ks = self.pat_kinds(p)
        if ks is not None:
            return self.refine_kindlike(S, v, ks, False)
        if k in ("pts", "pstruct", "ppath"):
            ctor, subs = self.ctor_of(p)
            nm = last(ctor) if ctor else None
            if ctor and ctor.startswith("core::option::Option::"):
                if nm == "None":
                    if v[0] == "elem" and v[2] == "next":
                        return self.elem_is_some(S, v[1])
                    if v[0] == "peek" and v[3]:
                        return self.refine_iter(S, v[1], v[2], frozenset({END}), False)
                    if v[0] == "none":
                        return False
                    return True
                if nm == "Some" and len(subs) == 1:
                    q = subs[0]
                    always_inner = is_node(q) and (q[0] == "pwild" or (q[0] == "pbind" and q[2] is None))
                    if v[0] == "elem" and v[2] == "next" and always_inner:
                        return self.elem_is_none(S, v[1])
                    if v[0] == "peek" and v[3]:
                        if always_inner:
                            return self.refine_iter(S, v[1], v[2], frozenset({END}), True)
                        qk = self.pat_kinds(q)
                        if qk is not None:
                            return self.refine_iter(S, v[1], v[2], qk, False)
                    return True
            return True
        return True

    # ------------------------------------------------------------------ evaluation
    def eval(self, e, S, fr):
        if S is None:
            return UNK, None
        if not is_node(e):
            return UNK, S
        h = getattr(self, "ev_" + e[0], None)
        if h is None:
            return self.ev_generic(e, S, fr)
        return h(e, S, fr)

    def ev_generic(self, e, S, fr):
        for c in e[1:]:
            if isinstance(c, list):
                if is_node(c):
                    _, S = self.eval(c, S, fr)
                else:
                    for d in c:
                        if is_node(d):
                            _, S = self.eval(d, S, fr)
                        elif isinstance(d, list):
                            for x in d:
                                if is_node(x):
                                    _, S = self.eval(x, S, fr)
            if S is None:
                return UNK, None
        return UNK, S

    def ev_lit(self, e, S, fr):
        if e[1] == "bool":
            return ("bool", bool(e[2])), S
        if e[1] == "str":
            return ("str", e[2]), S
        return UNK, S

    def ev_local(self, e, S, fr):
        return S.env.get(e[1], UNK), S

    def ev_def(self, e, S, fr):
        d = e[2]
        if "::TokenKind::" in d and e[1] in ("ctor", "variant", "const"):
            return ("kind", frozenset({last(d)})), S
        if d == "core::option::Option::None":
            return ("none",), S
        if e[1] == "fn":
            return ("fnref", d), S
        return UNK, S

    def is_panic(self, e):
        if hirq.is_panic_body(e):
            return True
        return False

    def ev_macro(self, e, S, fr):
        nm = e[1].rstrip("!").split("::")[-1]
        for suf in ("_2021", "_2015"):
            if nm.endswith(suf):
                nm = nm[:-len(suf)]
        if nm in ("unreachable", "unimplemented", "panic", "todo"):
            return UNK, None
        return self.eval(e[2], S, fr)

    def kill_scope(self, S, fr, scope_id):
        """the iterators created in this frame and let-bound in block `scope_id` go out of scope"""
        for key in list(S.iters):
            info = self.iterinfo.get(key)
            if info and info["owned"] and info["ctx"] == fr.ctx and info.get("bound") == scope_id:
                self.kill(S, key)
                S.iters.pop(key, None)

    def scope_exit(self, S, names, saved, fr, scope_id):
        if S is None:
            return
        self.kill_scope(S, fr, scope_id)
        for n in names:
            if n in saved:
                S.env[n] = saved[n]
            else:
                S.env.pop(n, None)

    def pat_names(self, p, out):
        if not is_node(p):
            return
        if p[0] == "pbind":
            out.append(p[1])
            if p[2] is not None:
                self.pat_names(p[2], out)
        elif p[0] in ("pts",):
            for q in p[2]:
                self.pat_names(q, out)
        elif p[0] == "pstruct":
            for fld in p[2]:
                self.pat_names(fld[1], out)
        elif p[0] in ("ptuple", "por"):
            for q in p[1]:
                self.pat_names(q, out)
        elif p[0] == "pref":
            self.pat_names(p[1], out)

    def ev_block(self, e, S, fr):
        names = []
        for st in e[1]:
            if is_node(st) and st[0] == "let":
                self.pat_names(st[1], names)
        saved = {n: S.env[n] for n in names if n in S.env}
        v = UNIT
        fr.scopes.append(id(e))
        try:
            v, S = self.run_stmts(e[1], 0, e[2], S, fr, id(e))
            if S is None:
                return UNK, None
        finally:
            fr.scopes.pop()
        for x in self.sub_states(v):
            self.scope_exit_quiet(x, names, saved)
        self.scope_exit(S, names, saved, fr, id(e))
        return v, S

    def sub_states(self, v):
        if v[0] == "bsplit":
            return [x for x in (v[1], v[2]) if x is not None]
        if v[0] == "vsplit":
            return [cs for (_cv, cs) in v[1]]
        return []

    def run_stmts(self, stmts, i, tail, S, fr, scope_id):
        v = UNIT
        while i < len(stmts):
            st = stmts[i]
            i += 1
            if is_node(st) and st[0] == "let":
                if st[2] is not None:
                    iv, S = self.eval(st[2], S, fr)
                    if S is None:
                        return UNK, None
                    if iv[0] == "vsplit":
                        # run the rest of the block once per branch of the initialiser and join the results
                        outs = []
                        for (cv, cs) in iv[1]:
                            cs = self.finish_let(st, cv, cs.copy(), fr, scope_id)
                            outs.append(self.run_stmts(stmts, i, tail, cs, fr, scope_id) if cs is not None
                                        else (UNK, None))
                        return self.merge_branches(outs)
                    S = self.finish_let(st, iv, S, fr, scope_id)
            else:
                _, S = self.eval(st, S, fr)
            if S is None:
                return UNK, None
        if tail is not None:
            v, S = self.eval(tail, S, fr)
            if S is None:
                return UNK, None
        return v, S

    def scope_exit_quiet(self, S, names, saved):
        for n in names:
            if n in saved:
                S.env[n] = saved[n]
            else:
                S.env.pop(n, None)

    def do_let(self, st, S, fr, scope_id):
        if st[2] is None:
            return S
        v, S = self.eval(st[2], S, fr)
        if S is None:
            return None
        return self.finish_let(st, v, S, fr, scope_id)

    def finish_let(self, st, v, S, fr, scope_id):
        pat, init, els = st[1], st[2], st[3]
        if v[0] in ("bsplit", "vsplit"):
            v = UNK
        if els is not None:
            neg = S.copy()
            if self.refute(pat, v, neg, fr):
                self.eval(els, neg, fr)      # must diverge (type `!`); its effects are on a dead path
        if not self.bind(pat, v, S, fr):
            return None
        if v[0] == "iter" and is_node(pat) and pat[0] == "pbind":
            info = self.iterinfo.get(v[1])
            if info is not None and info["owned"] and info["ctx"] == fr.ctx and "bound" not in info:
                info["bound"] = scope_id
                info["name"] = pat[1]
        return S

    def ev_let(self, e, S, fr):
        return UNIT, self.do_let(e, S, fr, None)

    # ---- conditions
    def as_split(self, v, S):
        """(S_true, S_false) for a boolean abstract value"""
        if S is None:
            return None, None
        if v[0] == "bool":
            return (S, None) if v[1] else (None, S)
        if v[0] == "bsplit":
            return v[1], v[2]
        if v[0] == "hascomment":
            f = S.copy()
            f.nc = f.nc | {v[1]}
            return S, f
        if v[0] == "ktest":
            t, f = S, S.copy()
            ok_t = self.refine_kindlike(t, v[1], v[2], True)
            ok_f = self.refine_kindlike(f, v[1], v[2], False)
            t, f = (t if ok_t else None), (f if ok_f else None)
            return (t, f) if v[3] else (f, t)
        if v[0] == "ehl":
            t, f = S, S.copy()
            t.dclosed = t.dclosed | {v[1]}
            self.prune(t)
            return (t, f) if v[2] else (f, t)
        if v[0] == "vsplit":
            ts, fs = [], []
            for (cv, cs) in v[1]:
                t, f = self.as_split(cv, cs.copy())
                ts.append(t)
                fs.append(f)
            return joinall(ts), joinall(fs)
        return S, S.copy()

    def cond(self, e, S, fr):
        if S is None:
            return None, None
        e0 = e
        if is_node(e0) and e0[0] == "un" and e0[1] == "Not":
            t, f = self.cond(e0[2], S, fr)
            return f, t
        if is_node(e0) and e0[0] == "macro":
            return self.cond(e0[2], S, fr)
        if is_node(e0) and e0[0] == "letx":
            v, S = self.eval(e0[2], S, fr)
            if S is None:
                return None, None
            if v[0] in ("bsplit", "vsplit"):
                v = UNK
            neg = S.copy()
            pos = S
            if not self.bind(e0[1], v, pos, fr):
                pos = None
            if not self.refute(e0[1], v, neg, fr):
                neg = None
            return pos, neg
        if is_node(e0) and e0[0] == "bin" and e0[1] in ("And", "Or"):
            t1, f1 = self.cond(e0[2], S, fr)
            if e0[1] == "And":
                t2, f2 = self.cond(e0[3], t1, fr)
                return t2, join(f1, f2)
            t2, f2 = self.cond(e0[3], f1, fr)
            return join(t1, t2), f2
        v, S2 = self.eval(e0, S, fr)
        return self.as_split(v, S2)

    def ev_letx(self, e, S, fr):
        t, f = self.cond(e, S, fr)
        return ("bsplit", t, f), join(t, f)

    def negate(self, v):
        if v[0] == "bool":
            return ("bool", not v[1])
        if v[0] == "ktest":
            return ("ktest", v[1], v[2], not v[3])
        if v[0] == "ehl":
            return ("ehl", v[1], not v[2])
        return None

    def ev_un(self, e, S, fr):
        if e[1] == "Not":
            inner = e[2]
            if is_node(inner) and inner[0] == "letx":
                t, f = self.cond(e, S, fr)
                return ("bsplit", t, f), join(t, f)
            v, S2 = self.eval(inner, S, fr)
            if S2 is None:
                return UNK, None
            nv = self.negate(v)
            if nv is not None:
                return nv, S2
            t, f = self.as_split(v, S2)
            return ("bsplit", f, t), join(t, f)
        return self.eval(e[2], S, fr)      # Deref / Neg: same abstract value

    def ev_addr(self, e, S, fr):
        return self.eval(e[2], S, fr)

    def ev_cast(self, e, S, fr):
        return self.eval(e[1], S, fr)

    def ev_bin(self, e, S, fr):
        op = e[1]
        if op in ("And", "Or"):
            t, f = self.cond(e, S, fr)
            return ("bsplit", t, f), join(t, f)
        a, S = self.eval(e[2], S, fr)
        b, S = self.eval(e[3], S, fr)
        if S is None:
            return UNK, None
        if op in ("Eq", "Ne"):
            for x, y in ((a, b), (b, a)):
                if x[0] == "ekind" and y[0] == "kind" and len(y[1]) == 1 and not any(is_sym(k) for k in y[1]):
                    return ("ktest", x, y[1], op == "Eq"), S
            t, f = self.compare(a, b, S)
            if op == "Ne":
                t, f = f, t
            return ("bsplit", t, f), join(t, f)
        return UNK, S

    def compare(self, a, b, S):
        """(S_equal, S_not_equal)"""
        def const_kinds(v):
            if v[0] == "kind":
                return v[1], False
            if v[0] == "some" and v[1][0] == "kind":
                return v[1][1], True
            return None, False
        for x, y in ((a, b), (b, a)):
            ks, wrapped = const_kinds(y)
            if ks is None or x[0] not in ("peek", "ekind"):
                continue
            if x[0] == "peek" and x[3] != wrapped:
                continue
            t = S.copy()
            f = S.copy()
            ok_t = self.refine_kindlike(t, x, ks, True)
            single = len(ks) == 1 and not any(is_sym(k) for k in ks)
            ok_f = self.refine_kindlike(f, x, ks, False) if single else True
            return (t if ok_t else None), (f if ok_f else None)
        return S, S.copy()

    def ev_if(self, e, S, fr):
        t, f = self.cond(e[1], S, fr)
        vt, St_ = self.eval(e[2], t, fr) if t is not None else (UNK, None)
        if e[3] is not None:
            vf, Sf_ = self.eval(e[3], f, fr) if f is not None else (UNK, None)
        else:
            vf, Sf_ = UNIT, f
        return self.merge_branches([(vt, St_), (vf, Sf_)])

    def merge_branches(self, outs):
        live = [(v, s) for (v, s) in outs if s is not None]
        if not live:
            return UNK, None
        ts, fs, boolish = [], [], True
        for v, s in live:
            if v[0] == "bool":
                (ts if v[1] else fs).append(s)
            elif v[0] == "bsplit":
                ts.append(v[1])
                fs.append(v[2])
            else:
                boolish = False
        S = joinall([s for _, s in live])
        if boolish:
            return ("bsplit", joinall(ts), joinall(fs)), S
        vals = {v for v, _ in live}
        if len(vals) == 1:
            return live[0][0], S
        if all(v[0] in ("bool", "ktest", "ehl") for v in vals):
            # different stable facts on different branches: keep the branches apart until the value is used
            return ("vsplit", tuple(live)), S
        # the same element on every branch (possibly wrapped differently)
        ids = {v[1] for v in vals if v[0] == "elem"}
        if len(ids) == 1 and all(v[0] in ("elem", "none") for v in vals):
            return ("elem", ids.pop(), "cast"), S
        return UNK, S

    def ev_match(self, e, S, fr):
        v, S = self.eval(e[1], S, fr)
        if S is None:
            return UNK, None
        if v[0] in ("bsplit", "vsplit"):
            v = UNK
        outs = []
        rest = S
        for arm in e[2]:
            pat, guard, body = arm[0], arm[1], arm[2]
            if rest is None:
                break
            a = rest.copy()
            names = []
            self.pat_names(pat, names)
            saved = {n: a.env[n] for n in names if n in a.env}
            ok = self.bind(pat, v, a, fr)
            if guard is None:
                if not self.refute(pat, v, rest, fr):
                    rest = None
            if not ok:
                continue
            if guard is not None:
                g = guard[1] if (is_node(guard) and guard[0] == "guard") else guard
                a, gf = self.cond(g, a, fr)
                if a is None:
                    continue
            bv, a = self.eval(body, a, fr)
            if a is not None:
                for x in self.sub_states(bv):
                    self.scope_exit_quiet(x, names, saved)
                self.arm_exit(a, names, saved, fr)
            outs.append((bv, a))
        return self.merge_branches(outs)

    def arm_exit(self, S, names, saved, fr):
        for n in names:
            v = S.env.get(n)
            if v is not None and v[0] == "iter":
                info = self.iterinfo.get(v[1])
                if info and info["owned"] and info["ctx"] == fr.ctx and "bound" not in info:
                    # an iterator bound by the arm pattern itself (for-loop desugaring)
                    info.setdefault("name", "for:" + n)
                    self.kill(S, v[1])
                    S.iters.pop(v[1], None)
            if n in saved:
                S.env[n] = saved[n]
            else:
                S.env.pop(n, None)

    def ev_loop(self, e, S, fr):
        entry = S
        head = entry
        lc = None
        for _ in range(40):
            lc = {"breaks": [], "conts": [], "depth": len(fr.scopes)}
            fr.loops.append(lc)
            try:
                _, out = self.eval(e[2], head.copy(), fr)
            finally:
                fr.loops.pop()
            back = joinall([out] + lc["conts"])
            new = join(entry, back)
            if new.same(head):
                break
            head = new
        else:
            raise Unsupported("loop does not stabilise in %s" % fr.fn)
        ex = joinall(lc["breaks"])
        return UNIT, ex

    def ev_break(self, e, S, fr):
        if e[1] is not None:
            _, S = self.eval(e[1], S, fr)
        if S is not None:
            if not fr.loops:
                raise Unsupported("break outside loop in %s" % fr.fn)
            S = S.copy()
            for sid in fr.scopes[fr.loops[-1]["depth"]:]:
                self.kill_scope(S, fr, sid)
            fr.loops[-1]["breaks"].append(S)
        return UNK, None

    def ev_continue(self, e, S, fr):
        if not fr.loops:
            raise Unsupported("continue outside loop in %s" % fr.fn)
        if S is not None:
            S = S.copy()
            for sid in fr.scopes[fr.loops[-1]["depth"]:]:
                self.kill_scope(S, fr, sid)
            fr.loops[-1]["conts"].append(S)
        return UNK, None

    def ev_ret(self, e, S, fr):
        v = UNIT
        if e[1] is not None:
            v, S = self.eval(e[1], S, fr)
        if S is not None:
            S = S.copy()
            for key in list(S.iters):
                info = self.iterinfo.get(key)
                if info and info["owned"] and info["ctx"] == fr.ctx:
                    self.kill(S, key)
                    S.iters.pop(key, None)
            fr.rets.append((v, S))
        return UNK, None

    def ev_tup(self, e, S, fr):
        vs = []
        for x in e[1]:
            v, S = self.eval(x, S, fr)
            if S is None:
                return UNK, None
            vs.append(v if v[0] not in ("bsplit", "vsplit") else UNK)
        return ("tup", tuple(vs)), S

    def ev_field(self, e, S, fr):
        v, S = self.eval(e[1], S, fr)
        if v[0] == "elem" and e[2] == "0":
            return v, S
        if v[0] == "tup" and e[2].isdigit() and int(e[2]) < len(v[1]):
            return v[1][int(e[2])], S
        return UNK, S

    def ev_assign(self, e, S, fr):
        v, S = self.eval(e[2], S, fr)
        if S is None:
            return UNK, None
        ln = e[1]
        if is_node(ln) and ln[0] == "local":
            S.env[ln[1]] = v if v[0] not in ("bsplit", "vsplit") else UNK
        else:
            _, S = self.eval(ln, S, fr)
        return UNIT, S

    def ev_assignop(self, e, S, fr):
        _, S = self.eval(e[3], S, fr)
        if S is not None and is_node(e[2]) and e[2][0] == "local":
            S.env[e[2][1]] = UNK
        return UNIT, S

    def ev_closure(self, e, S, fr):
        cid = id(e)
        self.closures[cid] = (e, fr.fn)
        return ("closure", cid), S

    def ev_struct(self, e, S, fr):
        ctor = hirq.def_path(e[1])
        for i, fld in enumerate(e[2]):
            v, S = self.eval(fld[1], S, fr)
            if S is None:
                return UNK, None
            if v[0] == "elem" and ctor in self.m.carriers:
                self.carry(S, v, ctor, fr)
        if e[3] is not None:
            _, S = self.eval(e[3], S, fr)
        return UNK, S

    def carry(self, S, v, ctor, fr):
        self.carried_kinds.setdefault(ctor, set()).update(S.pend.get(v[1], ()) | S.ek.get(v[1], frozenset()))
        if v[1] in S.pend:
            self.carried.setdefault(ctor, set()).add(fr.fn)
            self.emit(S, v[1], "carrier:" + ctor)

    # ---- calls
    def ev_call(self, e, S, fr):
        callee = e[2]
        line = e[1]
        if is_node(callee) and callee[0] == "def":
            path = callee[2]
            if callee[1] in ("ctor", "variant", "selfctor", "struct"):
                return self.do_ctor(path, e[3], S, fr)
            return self.do_call(path, e[3], S, fr, line, e, None)
        # call through a value (closure parameter / local closure)
        cv, S = self.eval(callee, S, fr)
        vals = []
        for a in e[3]:
            v, S = self.eval(a, S, fr)
            if S is None:
                return UNK, None
            vals.append(v if v[0] not in ("bsplit", "vsplit") else UNK)
        if cv[0] == "closure":
            return self.apply_closure(cv[1], vals, S, fr, e)
        if cv[0] == "fnref" and cv[1] in self.m.fns:
            return self.call_values(cv[1], vals, S, fr, e[1], e)
        for v in vals:
            if v[0] == "iter":
                self.havoc(S, v[1], fr, line, "call through an unknown closure value")
        self.push(S, fr, "the output of a closure parameter", line)
        return UNK, S

    def do_ctor(self, path, args, S, fr):
        vals = []
        for a in args:
            v, S = self.eval(a, S, fr)
            if S is None:
                return UNK, None
            vals.append(v if v[0] not in ("bsplit", "vsplit") else UNK)
        if path == "core::option::Option::Some" and len(vals) == 1:
            if vals[0][0] == "elem":
                return ("elem", vals[0][1], vals[0][2] or "cast"), S
            return ("some", vals[0]), S
        if path in self.m.doc_carriers:
            for i, v in enumerate(vals):
                if i in self.m.doc_carriers[path] and self.doc_open(S, v):
                    self.doc_carried_open.setdefault(path, set()).add(fr.fn)
        if path in self.m.carriers:
            for i, v in enumerate(vals):
                if v[0] == "elem" and i in self.m.carriers[path]:
                    self.carry(S, v, path, fr)
            return UNK, S
        if path.startswith("dora_parser::") and len(vals) == 1 and vals[0][0] == "elem":
            return vals[0], S
        return UNK, S

    def ev_mcall(self, e, S, fr):
        path = e[2]
        args = [e[4]] + list(e[5])
        if path is None:
            # unresolved method: evaluate operands only
            vals, S = self.eval_args(args, S, fr)
            if S is None:
                return UNK, None
            for v in vals:
                if v[0] == "iter":
                    raise Unsupported("unresolved method `%s` on a child iterator in %s" % (e[3], fr.fn))
            return UNK, S
        recv = hirq.strip(e[4])
        if e[3] == "push" and is_node(recv) and recv[0] == "field" and recv[2] == "out" and len(recv) > 3 \
                and is_fmt_ty(recv[3]) and fr.fn != self.m.token_fn:
            vals, S = self.eval_args(args, S, fr)
            if S is None:
                return UNK, None
            self.escape_check(S, fr, vals[1:], "a direct push on Formatter::out", e[1])
            self.push(S, fr, "a direct push on Formatter::out", e[1])
            return UNIT, S
        return self.do_call(path, args, S, fr, e[1], e, e[6] if len(e) > 6 else None)

    def eval_args(self, args, S, fr):
        vals = []
        for a in args:
            v, S = self.eval(a, S, fr)
            if S is None:
                return vals, None
            vals.append(v if v[0] not in ("bsplit", "vsplit") else UNK)
        return vals, S

    def do_call(self, path, args, S, fr, line, e, recv_ty):
        if path.startswith("core::panicking::") or path.startswith("std::rt::begin_panic") \
                or path in ("core::option::expect_failed", "core::result::unwrap_failed"):
            return UNK, None
        vals, S = self.eval_args(args, S, fr)
        if S is None:
            return UNK, None
        return self.call_values(path, vals, S, fr, line, e, recv_ty)

    def call_values(self, path, vals, S, fr, line, e, recv_ty=None):
        m = self.m
        v0 = vals[0] if vals else UNK
        # --- the child iterator's own methods
        if v0[0] == "iter":
            key = v0[1]
            if path in m.consuming or path == NEXT:
                return self.consume(S, key, e, fr), S
            if path == INTO_ITER:
                return v0, S
            if path in m.peek_h:
                return ("peek", key, "H", True), S
            if path in m.peek_n:
                return ("peek", key, "N", True), S
            if path in m.iter_readonly:
                return UNK, S
            if path in STD_IDENTITY:
                return v0, S
        # --- emitters
        if path in m.base_emit:
            i = m.base_emit[path]
            tv = vals[i] if i < len(vals) else UNK
            if tv[0] == "elem":
                self.emit(S, tv[1], last(path))
            if path == m.token_fn:
                new_tail = frozenset()
                if tv[0] == "elem":
                    if m.line_comment in S.ek.get(tv[1], ()):
                        new_tail = frozenset({("e", tv[1])})
                        self.eleminfo[tv[1]]["emit_fn"] = fr.fn
                        self.r7_emits.setdefault((fr.fn, id(e)), {"line": line, "roots": set()})["roots"].add(fr.root.fn)
                else:
                    self.r7_events.append(("untracked-token", fr.fn, "Formatter::token on a value that is not a tracked "
                                           "syntax element", (), line))
                self.push(S, fr, "a token", line, new_tail)
            else:
                self.push(S, fr, "the output of %s" % last(path), line)
            return UNIT, S
        if path in m.fmt_push:
            kind = m.fmt_push[path]
            if kind == "hard":
                self.push(S, fr, "hard line", line, discharges=True)
            elif kind == "append":
                dv = next((v for v in vals[1:] if v[0] == "doc"), None)
                nt = frozenset(("d", dv[1], o) for o in dv[2]) if dv is not None else frozenset()
                self.push(S, fr, "an appended doc", line, nt)
            else:
                self.push(S, fr, "%s()" % last(path), line)
            return UNIT, S
        if path in m.ehl_preds:
            dv = next((v for v in vals if v[0] == "doc"), None)
            return (("ehl", dv[1], True) if dv is not None else UNK), S
        if path in m.doc_from_children:
            # the docs pushed since some earlier point are taken out of the buffer and become one deferred doc
            opens = frozenset(o for o in S.tail if self.live(S, o))
            S.dclosed = S.dclosed - {(fr.ctx, id(e))}
            return ("doc", (fr.ctx, id(e)), opens), S
        if path == m.is_trivia_fn and v0[0] == "ekind":
            return ("ktest", v0, frozenset(m.trivia), True), S
        if path in m.children_fns:
            if v0[0] == "elem":
                self.emit(S, v0[1], "children")
            nv = self.new_iter(S, e, fr)
            if v0[0] == "elem" and v0[1] in S.nc:
                S.nc = S.nc | {nv[1]}
            else:
                S.nc = S.nc - {nv[1]}
            return nv, S
        if path in m.syntax_kind_fns:
            if v0[0] == "elem" and v0[2] is None:
                return ("ekind", v0[1]), S
            return UNK, S
        # --- identity conversions
        if v0[0] == "elem":
            if path in STD_UNWRAP:
                if v0[2] is not None:
                    nv, ok = self.unwrap_flag(S, v0)
                    return (nv, S) if ok else (UNK, None)
                return v0, S
            if path in STD_IDENTITY:
                return v0, S
            if path in ("core::option::Option::<T>::is_none", "core::option::Option::<T>::is_some"):
                if v0[2] == "next":
                    t = S.copy()
                    f = S.copy()
                    ok_t = self.elem_is_none(t, v0[1])
                    ok_f = self.elem_is_some(f, v0[1])
                    t, f = (t if ok_t else None), (f if ok_f else None)
                    if path.endswith("is_some"):
                        t, f = f, t
                    return ("bsplit", t, f), join(t, f)
                return UNK, S
            if path in m.identity:
                fl = m.identity[path]
                if fl in ("tok", "node", "cast"):
                    if v0[2] is not None:
                        return UNK, S
                    return ("elem", v0[1], fl), S
                return ("elem", v0[1], v0[2]), S
        if path in m.identity:
            for v in vals:
                if v[0] == "elem":
                    fl = m.identity[path]
                    if fl in ("tok", "node", "cast"):
                        return ("elem", v[1], fl if v[2] is None else v[2]), S
                    return v, S
            return UNK, S
        # --- Formatter combinators that run a closure exactly once
        if path in m.inline_once:
            ci = m.inline_once[path]
            if ci < len(vals) and vals[ci][0] == "closure":
                ck = m.comb_kind.get(path, "wrap")
                before = S.tail
                if ck == "detach":
                    S.tail = frozenset()
                _, S = self.apply_closure(vals[ci][1], [v0], S, fr, e)
                if S is None:
                    return UNK, None
                if ck == "detach":
                    opens = frozenset(o for o in S.tail if self.live(S, o))
                    S.tail = before
                    S.dclosed = S.dclosed - {(fr.ctx, id(e))}
                    return ("doc", (fr.ctx, id(e)), opens), S
                if ck == "ifbreak":
                    S.tail = before | S.tail        # rendered only when the group breaks: discharges nothing
                return UNK, S
            raise Unsupported("combinator %s called with a non-literal closure in %s" % (path, fr.fn))
        # --- functions of the analysed crate
        if path in m.comment_preds:
            for v in vals:
                if v[0] == "elem" and v[2] is None:
                    return ("hascomment", v[1]), S
            return UNK, S
        hb = m.fns.get(path)
        if hb is not None:
            has_iter_param = any(is_iter_ty(ty) for (_p, ty) in hb["params"])
            if has_iter_param or any(v[0] == "iter" for v in vals):
                if path in fr.stack or len(fr.stack) > 14:
                    self.unsummarised.add(path)
                    for v in vals:
                        if v[0] == "iter":
                            self.havoc(S, v[1], fr, line, "recursive call of %s" % path)
                    self.apply_emits(path, vals, S)
                    return UNK, S
                return self.inline(path, hb, vals, S, fr, e)
            self.apply_emits(path, vals, S)
            self.escape_check(S, fr, vals, path, line)
            if any(is_fmt_ty(ty) for (_p, ty) in hb["params"]):
                self.push(S, fr, "the output of %s" % last(path), line)
            if path in self.retopen_in:
                did = (fr.ctx, id(e))
                S.dclosed = S.dclosed - {did}
                return ("doc", did, frozenset({("c", did, "returned by " + path)})), S
            return UNK, S
        # --- anything else
        for v in vals:
            if v[0] == "iter":
                raise Unsupported("child iterator passed to %s in %s (line %s)" % (path, fr.fn, line))
        self.escape_check(S, fr, vals, path, line)
        return UNK, S

    def escape_check(self, S, fr, vals, path, line):
        for v in vals:
            for x in self.flat(v):
                if self.doc_open(S, x):
                    self.r7_events.append(("escape", fr.fn, "a deferred doc that ends in a line comment is handed to %s"
                                           % path, self.origins(S, x[2]), line))

    def apply_emits(self, path, vals, S):
        em = self.emits.get(path, ())
        for i, v in enumerate(vals):
            if v[0] == "elem" and i in em:
                self.emit(S, v[1], "fn:" + path)

    def inline(self, path, hb, vals, S, fr, e):
        saved_env = S.env
        before = dict(self.ncons)
        S.env = {}
        nf = Frame(path, fr.ctx + (id(e),), fr)
        for i, (pat, ty) in enumerate(hb["params"]):
            v = vals[i] if i < len(vals) else UNK
            if is_kind_ty(ty) and v[0] != "kind":
                v = ("kind", frozenset({"$?"}))
            self.bind(pat, v, S, nf)
        v, out = self.eval(hb["body"], S, nf)
        res = [(v, out)] + nf.rets
        moved = {k for k, n in self.ncons.items() if before.get(k) != n}
        back = {n: (UNK if (x[0] == "peek" and x[1] in moved) else x) for n, x in saved_env.items()}
        for (_v, s) in res:
            if s is not None:
                s.env = dict(back)
            for x in self.sub_states(_v):
                x.env = dict(back)
        return self.merge_branches(res)

    def apply_closure(self, cid, vals, S, fr, e):
        node, _fn = self.closures[cid]
        params, body = node[2], node[3]
        nf = Frame(fr.fn, fr.ctx + (id(e), cid), fr)
        nf.root = fr.root
        nf.stack = fr.stack
        names = []
        for p in params:
            self.pat_names(p, names)
        saved = {n: S.env[n] for n in names if n in S.env}
        for i, p in enumerate(params):
            self.bind(p, vals[i] if i < len(vals) else UNK, S, nf)
        v, out = self.eval(body, S, nf)
        res = [(v, out)] + nf.rets
        for (_v, s) in res:
            if s is not None:
                self.scope_exit_quiet(s, names, saved)
            for x in self.sub_states(_v):
                self.scope_exit_quiet(x, names, saved)
        return self.merge_branches(res)

    # ------------------------------------------------------------------ roots
    def run_root(self, path, hb, closure=None, iter_params=()):
        """Evaluate a function (or a closure literal with the given iterator parameters) from an unknown state.
        Returns dict(final=St|None, ret_elems=set(ids))"""
        S = St()
        fr = Frame(path, ())
        self.param_ids = {}
        if closure is None:
            params = hb["params"]
            body = hb["body"]
        else:
            params = [(p, "") for p in closure[2]]
            body = closure[3]
        for i, (pat, ty) in enumerate(params):
            names = []
            self.pat_names(pat, names)
            nm = names[0] if names else "_%d" % i
            if is_iter_ty(ty) or nm in iter_params:
                key = ("param", path, i)
                S.iters[key] = (self.top, self.top, None)
                self.iterinfo[key] = {"fn": path, "line": 0, "owned": False, "ctx": (), "root": path}
                v = ("iter", key)
            elif is_kind_ty(ty):
                v = ("kind", frozenset({"$" + nm}))
            elif is_fmt_ty(ty) or strip_ty(ty) in ("bool", "u8", "u32", "usize", "u64", "i32", "i64", "&str", "str",
                                                   "dora_format::doc::utils::Options") or closure is not None:
                v = UNK
            else:
                eid = ("param", i)
                self.eleminfo[eid] = {"fn": path, "line": 0, "itkey": None, "origin": "param", "root": path}
                S.pend[eid] = frozenset(self.m.allk)
                self.param_ids[i] = eid
                v = ("elem", eid, None)
            self.bind(pat, v, S, fr)
        v, out = self.eval(body, S, fr)
        res = [(v, out)] + fr.rets
        finals = []
        returned = set()
        ret_open = False
        for (rv, s) in res:
            if s is None:
                continue
            s = s.copy()
            self.exit_check(s, fr, "return")
            for x in self.flat(rv):
                if self.doc_open(s, x):
                    ret_open = True
            for x in self.flat(rv):
                if x[0] == "elem" and x[1] in s.pend:
                    returned.add(x[1])
                    s.pend.pop(x[1])
            finals.append(s)
        return {"final": joinall(finals), "returned": returned, "ret_open": ret_open}

    def flat(self, v):
        if v[0] == "tup":
            for x in v[1]:
                yield from self.flat(x)
        elif v[0] == "some":
            yield from self.flat(v[1])
        else:
            yield v

"""C06.R3 — mandatory-child accessors of the AST are backed by the productions that close their node kind.

ast.rs has accessors that unwrap the result of a search over a node's children
(`children().find_map(U::cast).unwrap()`, `.filter_map(U::cast).nth(1).unwrap()`,
`children_with_tokens().filter_map(to_token).find(|t| t.syntax_kind() == IDENTIFIER).unwrap()` …).  Such an accessor
panics in the consumer (dora-frontend, dora-format, dora-language-server) whenever the parser closed a node of that
kind without the child.  The rule

 1. derives the accessors and their requirement from the HIR of `dora_parser::ast::Ast*::*`: the iterator chain is
    evaluated to the set of child kinds that pass every filter (node kinds via the cast-sets of rules/c06.py, token
    kinds via the predicate closures) and to the number of matches needed (`nth(k)` ⇒ k+1, `find/find_map/next` ⇒ 1);
 2. re-runs the cursor interpreter of rules/c06_cursor.py with one more state component, the *must* multiset of
    children produced so far under every open marker (a vector of lower bounds, one per requirement class):
    `open()` pushes a marker, `advance()` of a non-EOF token adds a token child, `close(m, K)` wraps everything since
    m's open into one node of kind K (a marker closed twice nests, an unclosed/cancelled marker is transparent —
    exactly `build_tree`'s reading of the event list); closes of a marker received as a parameter
    (parse_function(m), parse_tuple_or_lambda_type(m), parse_call(m)) are returned to the caller in the summary;
 3. at every close of kind K checks every accessor requirement of the AST types that cast from K.
    Error paths that close a different kind are not bound (only the paths that close K are).

An accessor no consumer crate calls is an observation, not a violation.
"""
import re
import sys
import threading

import hirq
from hirq import is_node, last
from rules import c06_cursor as cc
from rules.c06_cursor import walk, callee_of, st_set, TK, PARSER

AST = "dora_parser::ast::"
OPEN = PARSER + "open"
CLOSE = PARSER + "close"
CANCEL = PARSER + "cancel_node"
CONSUMERS = [("dora_frontend", "lib"), ("dora_format", "lib"), ("dora_format", "bin"),
             ("dora_language_server", "bin"), ("dora", "bin")]

# Sites the interpreter cannot prove because of its own imprecision (NOT because they are violable); key -> reason.
UNPROVED = {}


# --------------------------------------------------------------------------- accessors
class Unrecognised(Exception):
    pass


def _closure_of(e):
    e = hirq.strip(e)
    return e if is_node(e) and e[0] == "closure" else None


def _pred_bits(e, dom, allbits):
    """kinds for which the predicate closure body is true (argument = a token/element/kind)"""
    e = hirq.unmacro(e)
    if is_node(e) and e[0] == "block" and not e[1] and e[2] is not None:
        return _pred_bits(e[2], dom, allbits)
    if is_node(e) and e[0] == "un" and e[1] == "Not":
        return allbits & ~_pred_bits(e[2], dom, allbits)
    if is_node(e) and e[0] == "bin" and e[1] in ("And", "Or"):
        a, b = _pred_bits(e[2], dom, allbits), _pred_bits(e[3], dom, allbits)
        return a & b if e[1] == "And" else a | b
    if is_node(e) and e[0] == "bin" and e[1] in ("Eq", "Ne"):
        for x, y in ((e[2], e[3]), (e[3], e[2])):
            d = hirq.def_path(x)
            if d and d.startswith(TK) and _is_kind_of_arg(y):
                b = dom.bit.get(d, 0)
                return b if e[1] == "Eq" else allbits & ~b
    if is_node(e) and e[0] == "mcall" and e[3] == "is_trivia":
        return dom.trivia
    if is_node(e) and e[0] == "match" and _is_kind_of_arg(e[1]):
        bits = 0
        for (pat, guard, arm) in hirq.match_arms(e):
            a = hirq.strip(arm)
            if is_node(a) and a[0] == "lit" and a[2] is True and guard is None:
                if hirq.pat_is_wild(pat):
                    return allbits
                for d in hirq.pat_paths(pat):
                    bits |= dom.bit.get(d, 0)
            elif not (is_node(a) and a[0] == "lit" and a[2] is False):
                raise Unrecognised("match arm")
        return bits
    raise Unrecognised("predicate %s" % hirq.render(e)[:60])


def _is_kind_of_arg(e):
    e = hirq.strip(e)
    if is_node(e) and e[0] == "mcall" and e[3] == "syntax_kind":
        return True
    return is_node(e) and e[0] == "local"


def _opt_type(recv_ty):
    m = re.search(r"Option<&?(?:mut )?(dora_parser::ast::\w+)>", recv_ty or "")
    return m.group(1) if m else None


class Requirement:
    def __init__(self, acc, ty, bits, need, text, line):
        self.acc, self.ty, self.bits, self.need, self.text, self.line = acc, ty, bits, need, text, line


def accessors(c, dom, castbits):
    """→ (requirements, unrecognised [(fn, why)], skipped count)"""
    nodes_all = 0
    for p, b in dom.bit.items():
        if not b & dom.tokens:
            nodes_all |= b
    allbits = nodes_all | dom.tokens
    reqs, unrec, skipped = [], [], 0
    for p, fb in c.hir.items():
        if not p.startswith(AST) or "{closure" in p:
            continue
        params = fb["params"]
        if not params or not (is_node(params[0][0]) and params[0][0][0] == "pbind" and params[0][0][1] == "self"):
            continue
        ty = params[0][1].replace("&mut ", "").replace("&", "").strip()
        if not ty.startswith(AST) or ty not in castbits:
            continue
        lets = {}
        for n in walk(fb["body"]):
            if n[0] == "let" and is_node(n[1]) and n[1][0] == "pbind" and n[2] is not None:
                lets[n[1][1]] = n[2]
        next_ord, cnt = {}, {}
        for n in walk(fb["body"]):
            if n[0] == "mcall" and n[3] == "next":
                src = hirq.strip(n[4])
                if is_node(src) and src[0] == "local":
                    cnt[src[1]] = cnt.get(src[1], 0) + 1
                    next_ord[id(n)] = cnt[src[1]]
        generic = [False]

        def chain(e):
            """→ bits of the child kinds that reach the end of the iterator chain e"""
            e = hirq.strip(e)
            if is_node(e) and e[0] == "local" and e[1] in lets:
                return chain(lets[e[1]])
            if not (is_node(e) and e[0] == "mcall"):
                raise Unrecognised("not a children() chain: %s" % hirq.render(e)[:50])
            name, recv, args = e[3], e[4], e[5]
            if name in ("children", "children_with_tokens"):
                r = hirq.strip(recv)
                if is_node(r) and r[0] == "mcall" and r[3] == "syntax_node":
                    r = hirq.strip(r[4])
                if not (is_node(r) and r[0] == "local" and r[1] == "self"):
                    raise Unrecognised("children of something else than self")
                return nodes_all if name == "children" else allbits
            if name in ("filter_map", "find_map"):
                bits = chain(recv)
                clo = _closure_of(args[0]) if args else None
                if clo is None:
                    raise Unrecognised("filter_map argument")
                body = hirq.strip(clo[3])
                cal = callee_of(body) if is_node(body) and body[0] in ("call", "mcall") else None
                if cal and cal.endswith("::to_token"):
                    return bits & dom.tokens
                if cal and cal.endswith("::cast"):
                    t = cal[:-len("::cast")]
                    if t in castbits:
                        return bits & castbits[t]
                    generic[0] = True       # SyntaxNodeBase::cast: the target is the Option's type, resolved below
                    return bits & nodes_all
                raise Unrecognised("filter_map closure %s" % hirq.render(body)[:50])
            if name in ("filter", "find"):
                bits = chain(recv)
                clo = _closure_of(args[0]) if args else None
                if clo is None:
                    raise Unrecognised("filter argument")
                return bits & _pred_bits(clo[3], dom, allbits)
            raise Unrecognised("adapter %s" % name)

        def rooted_at_children(e, depth=0):
            e = hirq.strip(e)
            if depth > 12:
                return False
            if is_node(e) and e[0] == "local" and e[1] in lets:
                return rooted_at_children(lets[e[1]], depth + 1)
            if is_node(e) and e[0] == "mcall":
                if e[3] in ("children", "children_with_tokens"):
                    return True
                return rooted_at_children(e[4], depth + 1)
            return False

        for n in walk(fb["body"], enter_closures=False):
            if not (n[0] == "mcall" and (n[2] or "").startswith("core::option::Option::<T>::")
                    and n[3] in ("unwrap", "expect")):
                continue
            term = hirq.strip(n[4])
            if not rooted_at_children(term):
                skipped += 1        # not a search over this node's children (T::cast(node).expect, items().nth(i) …)
                continue
            generic[0] = False
            try:
                if not (is_node(term) and term[0] == "mcall"):
                    raise Unrecognised("unwrap of %s" % hirq.render(term)[:40])
                tname = term[3]
                if tname in ("find", "find_map"):
                    bits, need = chain(term), 1
                elif tname == "nth":
                    k = hirq.lit_int(term[5][0]) if term[5] else None
                    if k is None:
                        skipped += 1        # nth(index): the caller chooses the index — value-dependent
                        continue
                    bits, need = chain(term[4]), k + 1
                elif tname == "next":
                    bits, need = chain(term[4]), next_ord.get(id(term), 1)
                else:
                    raise Unrecognised("terminal %s" % tname)
                if generic[0]:
                    t = _opt_type(n[6] if len(n) > 6 else None)
                    if t is None or t not in castbits:
                        raise Unrecognised("generic cast to unknown type")
                    bits &= castbits[t]
            except Unrecognised as ex:
                msg = str(ex)
                # chains that do not start at self's children (self.items().nth(i), T::cast(node).expect …) are
                # not mandatory-child accessors
                if "not a children() chain" in msg or "unwrap of" in msg or "something else than self" in msg:
                    skipped += 1
                else:
                    unrec.append((p, msg))
                continue
            reqs.append(Requirement(p, ty, bits, need, hirq.render(term)[:90], n[1]))
    return reqs, unrec, skipped


# --------------------------------------------------------------------------- the interpreter extension
class ChildInterp(cc.Interp):
    extra_builtins = frozenset({OPEN, CLOSE})

    def __init__(self, c, dom, tokensets, classes, needs, cap):
        self.classes = classes          # [bits]
        self.needs = needs              # kind path -> [(requirement index, class index, need)]
        self.cap = cap
        self.zero = (0,) * len(classes)
        self.checks = {}                # (req idx, kind path, production) -> [reached, fails: {(have, S, ctxS, wit)}]
        self.closed = {}                # kind path -> {production}
        self.lost = set()
        self._vec_cache = {}
        cc.Interp.__init__(self, c, dom, tokensets)

    # -- vectors
    def vec_item(self, bits):
        v = self._vec_cache.get(bits)
        if v is None:
            v = self._vec_cache[bits] = tuple(1 if (bits and not bits & ~C) else 0 for C in self.classes)
        return v

    def add(self, a, b):
        cap = self.cap
        return tuple(min(cap, x + y) for x, y in zip(a, b))

    def flat(self, stack):
        v = self.zero
        for (_m, w) in stack:
            v = self.add(v, w)
        return v

    def push_item(self, st, vec):
        seq, stack = st[5]
        top = stack[-1]
        return st[:5] + ((seq, stack[:-1] + ((top[0], self.add(top[1], vec)),)),) + st[6:]

    # -- hooks
    def round_reset(self):
        self.checks = {}
        self.closed = {}
        self.lost = set()

    def extra_init(self):
        return (((), ((None, self.zero),)),)

    def extra_out(self, st, fr):
        seq, stack = st[5]
        out = []
        for e in seq + (self.flat(stack),):
            if out and isinstance(e[0], int) and isinstance(out[-1][0], int):
                out[-1] = self.add(out[-1], e)
            else:
                out.append(e)
        return (tuple(out),)

    def norm_arg(self, v):
        if isinstance(v, tuple) and v and v[0] in ("mk", "mkp"):
            return None
        return cc.Interp.norm_arg(self, v)

    def norm_args(self, args):
        return tuple(("mkp", i) if isinstance(a, tuple) and a and a[0] in ("mk", "mkp") else cc.Interp.norm_arg(self, a)
                     for i, a in enumerate(args))

    def extra_apply(self, st, extra, raw_args, fr, node, callee):
        for e in extra[0]:
            if isinstance(e[0], int):
                if any(e):
                    st = self.push_item(st, e)
            else:
                (_cp, i, kpath, prod, S) = e
                marker = raw_args[i] if i < len(raw_args) else None
                st = self.do_close(st, marker, kpath, prod, S, fr)
        return st

    def hook_advance(self, before, after):
        toks = before[0] & ~self.dom.eof
        return self.push_item(after, self.vec_item(toks))

    def hook_call(self, path, args, st, fr, node):
        if path == OPEN:
            mid = id(node)
            seq, stack = st[5]
            for i in range(1, len(stack)):
                if stack[i][0] == mid:          # the same open() site again (loop): the old marker is dead
                    below = stack[i - 1]
                    stack = stack[:i - 1] + ((below[0], self.add(below[1], stack[i][1])),) + stack[i + 1:]
                    break
            stack = stack + ((mid, self.zero),)
            return [("n", st[:5] + ((seq, stack),) + st[6:], ("mk", mid))]
        if path == CLOSE:
            marker = args[1] if len(args) > 1 else None
            kv = args[2] if len(args) > 2 else None
            kpath = kv[1] if isinstance(kv, tuple) and kv and kv[0] == "k" else None
            return [("n", self.do_close(st, marker, kpath, fr.path, st[0], fr), None)]
        return None

    def do_close(self, st, marker, kpath, prod, S, fr):
        seq, stack = st[5]
        if isinstance(marker, tuple) and marker and marker[0] == "mk":
            idx = None
            for i in range(len(stack) - 1, 0, -1):
                if stack[i][0] == marker[1]:
                    idx = i
                    break
            if idx is None:
                self.lost.add("%s closes a marker that is no longer tracked (kind %s)" % (prod, last(kpath or "?")))
                return st
            children = self.flat(stack[idx:])
            self.check(kpath, children, prod, S, fr)
            node = self.vec_item(self.dom.bit.get(kpath, 0)) if kpath else self.zero
            stack = stack[:idx] + ((marker[1], node),)
            return st[:5] + ((seq, stack),) + st[6:]
        if isinstance(marker, tuple) and marker and marker[0] == "mkp":
            seq = seq + (self.flat(stack), ("cp", marker[1], kpath, prod, S))
            return st[:5] + ((seq, ((None, self.zero),)),) + st[6:]
        self.lost.add("%s closes an untracked marker value (kind %s)" % (prod, last(kpath or "?")))
        return st

    def check(self, kpath, children, prod, S, fr):
        if kpath is None:
            self.lost.add("%s closes a node with a non-constant kind" % prod)
            return
        self.closed.setdefault(kpath, set()).add(prod)
        for (ri, ci, need) in self.needs.get(kpath, ()):
            rec = self.checks.get((ri, kpath, prod))
            if rec is None:
                rec = self.checks[(ri, kpath, prod)] = [0, {}]
            rec[0] += 1
            if children[ci] < need:
                ctxS = fr.key[1] if fr.key else 0
                old = rec[1].get(children[ci])
                if old is None:
                    rec[1][children[ci]] = [S, ctxS, fr.key]
                else:
                    old[0] |= S


# --------------------------------------------------------------------------- belief checks on the tree builder
def check_builder(c, r):
    ok = True
    ob = c.hir.get(OPEN)
    cb = c.hir.get(CLOSE)
    nb = c.hir.get(CANCEL)
    if not (r.anchor(OPEN, ob) and r.anchor(CLOSE, cb)):
        return False

    def pushes(b):
        out = []
        for n in walk(b["body"]):
            if n[0] == "mcall" and n[3] == "push" and is_node(n[4]) and n[4][0] == "field" and n[4][2] == "events":
                out.append(hirq.render(n[5][0]) if n[5] else "?")
        return out

    def mentions(b, suffix):
        return any(n[0] in ("def", "struct") and isinstance(n[-1 if n[0] == "def" else 1], (str, list)) and
                   suffix in str(n[2] if n[0] == "def" else n[1]) for n in walk(b["body"]))

    ok &= r.anchor("open(): pushes Event::Open and returns the marker", len(pushes(ob)) == 1 and mentions(ob, "Event::Open")
                   and mentions(ob, "Marker"))
    kind_pushed = any(n[0] == "mcall" and n[3] == "push" and hirq.local_name(n[5][0]) == "kind"
                      for n in walk(cb["body"]) if n[0] == "mcall" and n[5])
    ok &= r.anchor("close(m, kind): pushes kind onto the Open event of m and emits Event::Close",
                   kind_pushed and mentions(cb, "Event::Close") and mentions(cb, "Event::Open"))
    if nb is not None:
        ok &= r.anchor("cancel_node(): no effect", len(list(walk(nb["body"]))) <= 2)
    # nobody else emits Open/Close events
    for p, b in c.hir.items():
        if not p.startswith(cc.MOD) or p in (OPEN, CLOSE):
            continue
        if p.startswith(PARSER) and pushes(b):
            for what in pushes(b):
                if "Advance" not in what:
                    ok = False
                    r.violation("ANALYSIS:%s:pushes-event" % p, "%s pushes %s onto Parser::events outside open()/close(): "
                                                                "the tree shape cannot be derived" % (p, what), p)
    return ok


# --------------------------------------------------------------------------- consumers
def called_accessors(c, F):
    """ast functions reachable from a consumer crate (directly or through other ast functions)"""
    if F is None:
        return None
    roots = set()
    import facts as factsmod
    seen_crates = 0
    for (name, kind) in CONSUMERS:
        try:
            k = F.crate(name, kind)
        except factsmod.AnalysisError:
            continue
        seen_crates += 1
        for p, b in k.hir.items():
            for n in walk(b["body"]):
                if n[0] in ("call", "mcall"):
                    cal = callee_of(n)
                    if cal and cal.startswith(AST):
                        roots.add(cal)
                elif n[0] == "def" and n[1] == "fn" and n[2].startswith(AST):
                    roots.add(n[2])
    if not seen_crates:
        return None
    edges = {}
    for p, b in c.hir.items():
        if not p.startswith(AST):
            continue
        base = p.split("::{closure")[0]
        es = edges.setdefault(base, set())
        for n in walk(b["body"]):
            if n[0] in ("call", "mcall"):
                cal = callee_of(n)
                if cal and cal.startswith(AST):
                    es.add(cal)
    reach = set(roots)
    work = list(roots)
    while work:
        p = work.pop()
        for q in edges.get(p, ()):
            if q not in reach:
                reach.add(q)
                work.append(q)
    return reach


# --------------------------------------------------------------------------- the rule
def run(chk, c, F=None):
    from rules.c06 import cast_sets
    r = chk.rule("C06.R3", "every mandatory-child accessor of ast.rs (children()…unwrap()/expect()) is backed: each "
                           "production that closes the accessor's node kind produces the required child on every "
                           "path from open() to close(KIND)")
    dom = cc.Domain(c)
    if not (r.anchor("dora_parser::token::TokenKind", dom.ok) and r.anchor(cc.ENTRY, c.hir.get(cc.ENTRY))):
        return
    # the cursor model this rule stands on (who-may-write, primitive shapes) is R4's; re-checked silently here
    class _Quiet:
        def __init__(self):
            self.bad = []

        def anchor(self, name, found):
            if not found:
                self.bad.append(name)
            return bool(found)

        def violation(self, key, *a):
            self.bad.append(key)

        def instance(self, *a, **k):
            pass

    q = _Quiet()
    if not (cc.who_may_write(c, q) and cc.check_primitives(c, q)):
        r.anchor("cursor model of C06.R4 (%s)" % "; ".join(q.bad[:3]), False)
        return
    if not check_builder(c, r):
        return
    sets, _raw = cast_sets(c)
    castbits = {}
    for ty, kinds in sets.items():
        b = 0
        for k in kinds:
            b |= dom.bit.get(TK + k, 0)
        castbits[ty] = b
    r.floor("AST types with a cast-set", len(castbits), 90)
    reqs, unrec, skipped = accessors(c, dom, castbits)
    r.floor("mandatory-child accessor requirements", len(reqs), 50)
    for (p, why) in unrec:
        r.observe("unproved: accessor shape not recognised: %s (%s)" % (p, why))
    classes = sorted({q.bits for q in reqs})
    cidx = {b: i for i, b in enumerate(classes)}
    cap = max([q.need for q in reqs] + [1])
    needs = {}
    for ri, q in enumerate(reqs):
        tb = castbits[q.ty]
        for d, b in dom.bit.items():
            if b & tb:
                needs.setdefault(d, []).append((ri, cidx[q.bits], q.need))
    import facts as factsmod
    tokensets = cc.parse_tokensets(c, dom, factsmod.read_repo)
    ip = ChildInterp(c, dom, tokensets, classes, needs, cap)
    result = {}

    def work():
        try:
            result["rounds"] = ip.run()
        except cc.Refuse as ex:
            result["refuse"] = str(ex)
        except RecursionError:
            result["refuse"] = "interpreter recursion limit"
        except Exception as ex:     # an interpreter bug must not look like a proof
            import traceback
            tb = traceback.extract_tb(ex.__traceback__)[-1]
            result["refuse"] = "internal error %s: %s (%s:%d)" % (type(ex).__name__, ex, tb.name, tb.lineno)

    old = sys.getrecursionlimit()
    sys.setrecursionlimit(400000)
    threading.stack_size(256 * 1024 * 1024)
    t = threading.Thread(target=work)
    t.start()
    t.join()
    sys.setrecursionlimit(old)
    threading.stack_size(0)
    if "refuse" in result:
        r.violation("ANALYSIS:interpreter", "the abstract interpreter refused: %s" % result["refuse"])
        return
    for p in sorted(ip.missing_sets):
        r.violation("ANALYSIS:tokenset:%s" % p, "TokenSet constant %s could not be evaluated" % p)
    for msg in sorted(ip.lost):
        r.violation("ANALYSIS:marker:%s" % msg.split(" ")[0], msg)

    called = called_accessors(c, F)
    if called is None:
        r.observe("consumer crates not in the facts of this run: every accessor is treated as called")
    nclose = sum(len(v) for v in ip.closed.values())
    r.floor("(node kind, production) pairs closed", nclose, 95)

    def short(p):
        return p.replace(cc.MOD, "").replace("Parser::", "")

    def chain(key):
        names = []
        while key is not None and len(names) < 40:
            names.append(short(key[0]))
            key = ip.parent.get(key)
        names.reverse()
        if len(names) > 7:
            names = names[:1] + ["…"] + names[-5:]
        return " → ".join(names)

    counts = [0, 0, 0]
    uncalled = set()
    never_closed = []
    sample_n = 0
    for ri, q in enumerate(reqs):
        is_called = called is None or q.acc in called
        if not is_called:
            uncalled.add(q.acc)
        kinds = sorted(d for d, b in dom.bit.items() if b & castbits[q.ty])
        for d in kinds:
            prods = sorted(ip.closed.get(d, ()))
            if not prods:
                never_closed.append("%s (%s)" % (last(q.acc), last(d)))
                r.instance("%s:%s:never-closed" % (q.acc, last(d)), nontrivial=False)
                continue
            for prod in prods:
                rec = ip.checks.get((ri, d, prod))
                key = "%s:%s:%s" % (q.acc, last(d), prod)
                fails = rec[1] if rec else {}
                r.instance(key, sample={"accessor": q.acc, "requires": "%d × child ∈ %s" % (q.need, dom.show(q.bits, 6)),
                                        "kind": last(d), "production": prod, "ok": not fails} if sample_n < 3 else None)
                sample_n += 1
                if not fails:
                    counts[0] += 1
                    continue
                have = min(fails)
                (S, ctxS, wit) = fails[have]
                msg = ("%s closes %s on a path that has produced only %d of the %d required children ∈ %s "
                       "(`%s` in %s, ast.rs:%d): production entered with current ∈ %s, node closed when current ∈ %s; "
                       "reached e.g. via %s — the accessor unwraps None and the consumer panics"
                       % (short(prod), last(d), have, q.need, dom.show(q.bits, 8), q.text, last(q.acc), q.line,
                          dom.show(ctxS, 8), dom.show(S, 8), chain(wit)))
                if key in UNPROVED:
                    counts[1] += 1
                    r.observe("unproved: %s — %s" % (key, UNPROVED[key]))
                elif not is_called:
                    r.observe("unbacked but never called by a consumer crate: %s" % msg[:300])
                else:
                    counts[2] += 1
                    fn_item = c.hir.get(prod)
                    r.violation(key, msg, "%s:%s" % (fn_item["file"], fn_item["line"]) if fn_item else None)
    tables = sorted({last(q.acc.rsplit("::", 1)[0]) + "::" + last(q.acc) for q in reqs
                     if any(n[0] == "call" and cc.is_panic_path(callee_of(n)) for n in walk(c.hir[q.acc]["body"]))})
    if tables:
        r.observe("accessors that additionally `match` the found token's kind with an unreachable!/panic! default "
                  "(operator tables; the kind of the token is not decided by this rule): %s" % ", ".join(tables))
    if never_closed:
        r.observe("node kinds with a mandatory-child accessor that no production closes: " + ", ".join(never_closed[:12]))
    if uncalled:
        r.observe("accessors no consumer crate calls (%d): %s" % (len(uncalled), ", ".join(sorted(last(x.rsplit("::", 1)[0])
                  + "::" + last(x) for x in uncalled))[:400]))
    r.observe("accessor×kind×production obligations proved/unproved/violated: %d/%d/%d; requirements %d over %d child "
              "classes; accessors skipped as value-dependent or not over self's children: %d; unrecognised shapes: %d; "
              "contexts %d in %d rounds" % (counts[0], counts[1], counts[2], len(reqs), len(classes), skipped,
                                            len(unrec), ip.contexts, result["rounds"]))
    chk.extra["c06_r3"] = {"proved": counts[0], "unproved": counts[1] + len(unrec), "violated": counts[2],
                           "requirements": len(reqs), "uncalled_accessors": sorted(uncalled)}

"""C19 helper: an abstract interpreter over MIR with a finite byte-set domain.

Domain.  Every unknown byte (an element produced by a byte iterator, a slice cell, ...) is a *variable* whose abstract
value is a set of byte values kept in the path condition (initially all 256).  Copies share the variable, so a
refinement is seen by every copy.  Whenever a primitive operation, a modelled std predicate, a SwitchInt or a local
helper function is applied to a variable, the variable's set is *partitioned* by the operation's result (pointwise
evaluation over the finite set) and the interpretation forks once per class — the classic set domain with exact
SwitchInt refinement, never weaker than one set per local.  Loop-carried integers (an index) are `base + constant`
terms; every local assigned in a loop is havocked at the loop header and a path ends when it comes back to the header
(one arbitrary iteration from an arbitrary loop state), so loops are summarised, not unrolled.  Anything outside the
understood fragment evaluates to TOP; a TOP that reaches a question a rule asks is reported by the rule as an analysis
failure, never as a verdict.

Knowledge frozen here is knowledge about the *standard library* only (u8::is_ascii_* byte sets, Option/ControlFlow
discriminants, String::push / Vec::push / Iterator::next / slice::get / Option::and_then / `?` desugaring).
"""
import re

import cfg

TOP = ("top",)
UNIT = ("unit",)

BITS = {"u8": 8, "i8": 8, "u16": 16, "i16": 16, "u32": 32, "i32": 32, "u64": 64, "i64": 64, "usize": 64, "isize": 64,
        "u128": 128, "i128": 128, "char": 32, "bool": 1}


def is_int_ty(t):
    return t in BITS


def wrap(ty, v):
    b = BITS[ty]
    v &= (1 << b) - 1
    if ty.startswith("i") and v >> (b - 1):
        v -= 1 << b
    return v


def I(ty, v):
    return ("i", ty, wrap(ty, v))


def B_(v):
    return ("i", "bool", 1 if v else 0)


# ---- std knowledge -----------------------------------------------------------------------------------------
def _rng(a, b):
    return set(range(ord(a), ord(b) + 1))


_UP, _LO, _DG = _rng("A", "Z"), _rng("a", "z"), _rng("0", "9")
ASCII_PRED = {   # core::num::<impl u8>::is_ascii_* / core::char::methods::<impl char>::is_ascii_*: accepted values
    "is_ascii": set(range(128)),
    "is_ascii_alphabetic": _UP | _LO,
    "is_ascii_alphanumeric": _UP | _LO | _DG,
    "is_ascii_uppercase": _UP,
    "is_ascii_lowercase": _LO,
    "is_ascii_digit": _DG,
    "is_ascii_hexdigit": _DG | _rng("a", "f") | _rng("A", "F"),
    "is_ascii_punctuation": _rng("!", "/") | _rng(":", "@") | _rng("[", "`") | _rng("{", "~"),
    "is_ascii_graphic": _rng("!", "~"),
    "is_ascii_whitespace": {0x20, 0x09, 0x0A, 0x0C, 0x0D},
    "is_ascii_control": set(range(32)) | {127},
}
STD_DISCR = {"core::option::Option": ["None", "Some"], "core::result::Result": ["Ok", "Err"],
             "core::ops::control_flow::ControlFlow": ["Continue", "Break"]}
OPTION, CFLOW, RESULT = "core::option::Option", "core::ops::control_flow::ControlFlow", "core::result::Result"
NONE = ("adt", OPTION, "None", ())


def SOME(v):
    return ("adt", OPTION, "Some", (v,))


class Unsupported(Exception):
    """the interpreter cannot continue soundly (budget, loop in a callee, ...) — an analysis failure"""


class Split(Exception):
    def __init__(self, var, classes):
        Exception.__init__(self)
        self.var, self.classes = var, classes


class Frame:
    __slots__ = ("fid", "path", "B", "block", "idx", "env", "dest", "target", "on_ret", "entered")

    def copy(self):
        f = Frame()
        f.fid, f.path, f.B, f.block, f.idx = self.fid, self.path, self.B, self.block, self.idx
        f.env = dict(self.env)
        f.dest, f.target, f.on_ret = self.dest, self.target, self.on_ret
        f.entered = set(self.entered)
        return f


class State:
    def __init__(self):
        self.frames = []
        self.pc = {}        # var -> frozenset of ints
        self.vty = {}       # var -> type name
        self.heap = {}      # (objid, key) -> value
        self.objs = {}      # objid -> (type string, origin description, tuple of parent objids)
        self.events = []
        self.nframe = 0

    def copy(self):
        s = State()
        s.frames = [f.copy() for f in self.frames]
        s.pc = dict(self.pc)
        s.vty = dict(self.vty)
        s.heap = dict(self.heap)
        s.objs = dict(self.objs)
        s.events = list(self.events)
        s.nframe = self.nframe
        return s


class PathResult:
    def __init__(self, kind, value, st, end_env=None, why=None):
        self.kind = kind          # 'ret' | 'loop_back' | 'diverge'
        self.value = value
        self.events = st.events
        self.pc = st.pc
        self.vty = st.vty
        self.heap = st.heap
        self.objs = st.objs
        self.end_env = end_env or {}
        self.why = why

    def set_of(self, v):
        """abstract value → set of ints, or None if unknown"""
        if v[0] == "i":
            return {v[2]}
        if v[0] == "var":
            return set(self.pc[v[1]])
        return None

    def ancestors(self, objid):
        out, st = set(), [objid]
        while st:
            x = st.pop()
            if x in out:
                continue
            out.add(x)
            st.extend(self.objs.get(x, (None, None, ()))[2])
        return out


class Interp:
    def __init__(self, crate, const_str=None, max_paths=6000, max_steps=600000):
        self.c = crate
        self.const_str = const_str or (lambda path: None)
        self.bodies = {}
        self.loops = {}
        self._live = {}
        self.max_paths, self.max_steps = max_paths, max_steps
        self.notes = []           # things evaluated to TOP that a reader may care about

    # ---- bodies --------------------------------------------------------------------------------------------
    def body(self, path):
        if path not in self.bodies:
            mb = self.c.mir.get(path)
            self.bodies[path] = cfg.Body(mb) if mb is not None else None
        return self.bodies[path]

    def loop_info(self, B):
        """header -> set of locals assigned inside the natural loop(s) with that header"""
        if B.path not in self.loops:
            info = {}
            for (h, body) in B.natural_loops():
                s = info.setdefault(h, set())
                for bi in body:
                    blk = B.blocks[bi]
                    for st in blk["s"]:
                        if st[0] == "a":
                            s.add(st[1][0])
                    t = blk["t"]
                    if t[0] == "call":
                        s.add(t[1]["d"][0])
            self.loops[B.path] = info
        return self.loops[B.path]

    def live_in(self, B):
        if B.path not in self._live:
            self._live[B.path] = B.liveness()[0]
        return self._live[B.path]

    # ---- driver --------------------------------------------------------------------------------------------
    def run(self, path, args=None):
        """all paths of `path` from its entry; args: list of abstract values for the parameters (default: opaque
        objects / full byte variables according to the parameter types)"""
        B = self.body(path)
        if B is None:
            raise Unsupported("no MIR for %s" % path)
        st = State()
        f = self._new_frame(st, path, B)
        for i in range(1, B.argc + 1):
            if args is not None and i - 1 < len(args) and args[i - 1] is not None:
                f.env[i] = args[i - 1]
            else:
                f.env[i] = self._unknown_of_type(st, B.local_ty(i), ("param", path, i))
        st.frames.append(f)
        work, results, steps = [st], [], 0
        while work:
            s = work.pop()
            while True:
                steps += 1
                if steps > self.max_steps or len(results) + len(work) > self.max_paths:
                    raise Unsupported("budget exceeded while interpreting %s" % path)
                try:
                    res = self._step(s)
                except Split as sp:
                    for cls in sp.classes:
                        s2 = s.copy()
                        s2.pc[sp.var] = frozenset(cls)
                        work.append(s2)
                    break
                if res is None:
                    continue
                if isinstance(res, PathResult):
                    results.append(res)
                    break
                # list of successor blocks for the top frame (fork on an unknown condition)
                for tb in res[1:]:
                    s2 = s.copy()
                    self._goto(s2, tb)
                    work.append(s2)
                self._goto(s, res[0])
        return results

    def _new_frame(self, st, path, B):
        f = Frame()
        st.nframe += 1
        f.fid, f.path, f.B, f.block, f.idx, f.env = st.nframe, path, B, 0, -1, {}
        f.dest = f.target = f.on_ret = None
        f.entered = set()
        return f

    def _goto(self, st, block):
        f = st.frames[-1]
        f.block, f.idx = block, -1     # -1: block entry hook pending

    # ---- values --------------------------------------------------------------------------------------------
    def _fresh_var(self, st, key, ty, dom=None):
        v = ("v",) + tuple(key)
        if v not in st.pc:
            st.pc[v] = frozenset(dom if dom is not None else range(1 << BITS[ty]) if BITS[ty] <= 8 else ())
            st.vty[v] = ty
        return ("var", v)

    def _fresh_obj(self, st, key, ty, origin, parents=()):
        o = ("o",) + tuple(key)
        if o not in st.objs:
            st.objs[o] = (ty, origin, tuple(parents))
        return ("obj", o)

    def _unknown_of_type(self, st, ty, key):
        if ty in ("u8", "i8", "bool"):
            return self._fresh_var(st, key, ty, range(2) if ty == "bool" else
                                   (range(-128, 128) if ty == "i8" else None))
        if is_int_ty(ty):
            return ("sym", key, 0, ty)
        if ty == "()":
            return UNIT
        return self._fresh_obj(st, key, ty, ("unknown",) + tuple(key))

    def concretize(self, st, v):
        """('i',..) of a value; forks into singletons when it is a variable"""
        if v[0] == "i":
            return v
        if v[0] == "var":
            dom = st.pc[v[1]]
            if len(dom) == 1:
                return ("i", st.vty[v[1]], next(iter(dom)))
            if not dom:
                raise Unsupported("empty variable domain")
            raise Split(v[1], [[x] for x in sorted(dom)])
        return None

    def pointwise(self, st, vals, fn):
        """apply fn(list of ('i',..)) where at most one distinct variable occurs in vals; partition the variable
        by result.  Returns fn's result, or None when some operand is not a scalar."""
        var = None
        for v in vals:
            if v[0] == "var":
                if var is None:
                    var = v[1]
                elif v[1] != var:
                    self.concretize(st, v)       # second variable: split it into singletons first
            elif v[0] != "i":
                return None
        if var is None:
            return fn(vals)
        dom = st.pc[var]
        ty = st.vty[var]
        classes = {}
        for x in dom:
            res = fn([("i", ty, x) if (v[0] == "var" and v[1] == var) else
                      (("i", st.vty[v[1]], next(iter(st.pc[v[1]]))) if v[0] == "var" else v) for v in vals])
            classes.setdefault(res, []).append(x)
        if len(classes) == 1:
            return next(iter(classes))
        raise Split(var, list(classes.values()))

    # ---- places --------------------------------------------------------------------------------------------
    def _frame(self, st, fid):
        for f in st.frames:
            if f.fid == fid:
                return f
        raise Unsupported("dangling frame reference")

    def _cell_key(self, v):
        if v[0] == "i":
            return ("abs", v[2])
        if v[0] == "sym":
            return ("rel", v[1], v[2])
        return None

    def _elem_ty(self, st, objid):
        ty = st.objs.get(objid, ("", None, ()))[0] or ""
        m = re.search(r"\[([\w:]+)(?:;[^\]]*)?\]", ty)
        if m:
            return m.group(1)
        m = re.search(r"Vec<([\w:]+)", ty)
        return m.group(1) if m else None

    def load(self, st, target):
        if target[0] == "L":
            f = self._frame(st, target[1])
            return self._project(st, f, f.env.get(target[2], TOP), target[3])
        if target[0] == "cell":
            k = (target[1], target[2])
            if k not in st.heap:
                ety = self._elem_ty(st, target[1])
                if ety in ("u8", "bool"):
                    st.heap[k] = self._fresh_var(st, ("cell", target[1], target[2]), ety,
                                                 range(2) if ety == "bool" else None)
                else:
                    st.heap[k] = TOP
            return st.heap[k]
        return TOP

    def _project(self, st, f, v, proj):
        for i, p in enumerate(proj):
            if v == TOP:
                return TOP
            if p == "*":
                if v[0] == "ref":
                    v = self.load(st, v[1])
                elif v[0] in ("obj", "str"):
                    pass                      # an opaque reference stands for its referent
                else:
                    return TOP
            elif p.startswith("@"):
                if v[0] == "adt" and v[2] == p[1:]:
                    continue
                return TOP
            elif p.startswith("[_"):
                idx = f.env.get(int(p[2:-1]), TOP)
                if v[0] == "obj":
                    k = self._cell_key(idx)
                    if k is None:
                        return TOP
                    v = self.load(st, ("cell", v[1], k))
                elif v[0] == "tup" and idx[0] == "i" and 0 <= idx[2] < len(v[1]):
                    v = v[1][idx[2]]
                else:
                    return TOP
            elif p.startswith("."):
                name = p[1:]
                if v[0] in ("tup", "adt") and name.isdigit():
                    vals = v[1] if v[0] == "tup" else v[3]
                    if int(name) < len(vals):
                        v = vals[int(name)]
                        continue
                return TOP
            else:
                return TOP
        return v

    def read_place(self, st, f, place):
        return self._project(st, f, f.env.get(place[0], TOP), place[1])

    def ref_of(self, st, f, mut, place):
        local, proj = place
        proj = list(proj)
        if "*" not in proj:
            return ("ref", ("L", f.fid, local, tuple(proj)), bool(mut))
        # reborrow: evaluate up to and including the last deref, keep the remaining projection
        last = len(proj) - 1 - proj[::-1].index("*")
        base = self._project(st, f, f.env.get(local, TOP), proj[:last])
        rest = proj[last + 1:]
        if base == TOP:
            return TOP
        if base[0] == "ref":
            t = base[1]
            if t[0] == "L":
                return ("ref", ("L", t[1], t[2], tuple(t[3]) + tuple(rest)), bool(mut) and base[2])
            if not rest:
                return ("ref", t, bool(mut) and base[2])
            return TOP
        if base[0] in ("obj", "str"):
            if not rest:
                return base
            if len(rest) == 1 and rest[0].startswith("[_") and base[0] == "obj":
                k = self._cell_key(f.env.get(int(rest[0][2:-1]), TOP))
                if k is not None:
                    return ("ref", ("cell", base[1], k), False)
            return TOP
        return TOP

    def write_place(self, st, f, place, v):
        local, proj = place
        if not proj:
            f.env[local] = v
            return
        if proj == ["*"] or list(proj) == ["*"]:
            r = f.env.get(local, TOP)
            if r != TOP and r[0] == "ref":
                t = r[1]
                if t[0] == "L":
                    self.write_place(st, self._frame(st, t[1]), (t[2], list(t[3])), v)
                    return
                if t[0] == "cell":
                    st.heap[(t[1], t[2])] = v
                    return
            return
        if len(proj) == 1 and proj[0].startswith(".") and proj[0][1:].isdigit():
            cur = f.env.get(local, TOP)
            n = int(proj[0][1:])
            if cur != TOP and cur[0] == "tup" and n < len(cur[1]):
                vals = list(cur[1])
                vals[n] = v
                f.env[local] = ("tup", tuple(vals))
                return
        f.env[local] = TOP       # partial write we do not model: forget the local

    # ---- operands / rvalues --------------------------------------------------------------------------------
    def operand(self, st, f, op):
        if op[0] in ("c", "m"):
            return self.read_place(st, f, op[1])
        k = op[1]
        ty = k.get("ty")
        if "fn" in k:
            return ("fn", cfg.callee_name(k["fn"]))
        if "str" in k:
            return ("str", k["str"].encode("utf-8"), None)
        if "v" in k and ty in BITS:
            return I(ty, k["v"])
        if ty == "()":
            return UNIT
        if "const" in k and ty and ty.replace("'static ", "") == "&str":
            s = self.const_str(k["const"])
            if s is not None:
                return ("str", s.encode("utf-8"), k["const"])
            self.notes.append("string constant %s has no literal value in the facts" % k["const"])
        return TOP

    def _bin(self, op, a, b, ty_hint):
        """concrete binary op on ('i') values → value"""
        ta, x, y = a[1], a[2], b[2]
        if op in ("Eq", "Ne", "Lt", "Le", "Gt", "Ge"):
            return B_({"Eq": x == y, "Ne": x != y, "Lt": x < y, "Le": x <= y, "Gt": x > y, "Ge": x >= y}[op])
        base = op.replace("WithOverflow", "").replace("Unchecked", "")
        if base == "Add":
            r = x + y
        elif base == "Sub":
            r = x - y
        elif base == "Mul":
            r = x * y
        elif base == "BitAnd":
            r = x & y
        elif base == "BitOr":
            r = x | y
        elif base == "BitXor":
            r = x ^ y
        elif base == "Shl":
            r = x << (y % BITS[ta])
        elif base == "Shr":
            r = x >> (y % BITS[ta])
        elif base == "Div" and y != 0:
            r = abs(x) // abs(y) * (1 if (x < 0) == (y < 0) else -1)
        elif base == "Rem" and y != 0:
            r = abs(x) % abs(y) * (1 if x >= 0 else -1)
        else:
            return TOP
        w = I(ta, r)
        if op.endswith("WithOverflow"):
            return ("tup", (w, B_(w[2] != r)))
        return w

    def rvalue(self, st, f, rv, dest_ty):
        k = rv[0]
        if k == "use":
            return self.operand(st, f, rv[1])
        if k == "ref":
            return self.ref_of(st, f, rv[1], rv[2])
        if k == "rawptr":
            return TOP
        if k == "cast":
            v = self.operand(st, f, rv[2])
            kind, ty = rv[1], rv[3]
            if kind in ("IntToInt",) or (v != TOP and v[0] in ("i", "var") and ty in BITS):
                if ty not in BITS:
                    return TOP
                if v != TOP and v[0] == "sym":
                    return ("sym", v[1], v[2], ty) if BITS.get(v[3]) == BITS[ty] else TOP
                r = self.pointwise(st, [v], lambda a: I(ty, a[0][2])) if v != TOP else None
                return r if r is not None else TOP
            if v != TOP and v[0] in ("ref", "obj", "str", "fn"):
                return v
            return TOP
        if k == "bin":
            op = rv[1]
            a, b = self.operand(st, f, rv[2]), self.operand(st, f, rv[3])
            if a == TOP or b == TOP:
                return TOP
            if a[0] == "sym" or b[0] == "sym":
                return self._bin_sym(op, a, b)
            r = self.pointwise(st, [a, b], lambda xs: self._bin(op, xs[0], xs[1], dest_ty))
            return r if r is not None else TOP
        if k == "un":
            v = self.operand(st, f, rv[2])
            if rv[1] == "Not" and v != TOP:
                r = self.pointwise(st, [v], lambda a: B_(not a[0][2]) if a[0][1] == "bool" else I(a[0][1], ~a[0][2]))
                return r if r is not None else TOP
            if rv[1] == "Neg" and v != TOP:
                r = self.pointwise(st, [v], lambda a: I(a[0][1], -a[0][2]))
                return r if r is not None else TOP
            return TOP        # PtrMetadata and friends: an unknown length
        if k == "agg":
            kind = rv[1]
            vals = tuple(self.operand(st, f, o) for o in rv[2])
            if kind[0] in ("tuple", "array"):
                return ("tup", vals)
            if kind[0] == "adt":
                return ("adt", kind[1], kind[2] if len(kind) > 2 else None, vals)
            return TOP
        if k == "discr":
            v = self.read_place(st, f, rv[1])
            if v != TOP and v[0] == "adt":
                names = STD_DISCR.get(v[1])
                if names is None:
                    a = self.c.adt(v[1])
                    if a is not None and a["path"] == v[1]:
                        for var in a["variants"]:
                            if var["name"] == v[2] and isinstance(var.get("discr"), int):
                                return I("isize", var["discr"])
                    return TOP
                if v[2] in names:
                    return I("isize", names.index(v[2]))
            return TOP
        return TOP

    def _bin_sym(self, op, a, b):
        base = op.replace("WithOverflow", "")
        res = TOP
        if a[0] == "sym" and b[0] == "i" and base in ("Add", "Sub"):
            res = ("sym", a[1], a[2] + (b[2] if base == "Add" else -b[2]), a[3])
        elif a[0] == "i" and b[0] == "sym" and base == "Add":
            res = ("sym", b[1], b[2] + a[2], b[3])
        elif a[0] == "sym" and b[0] == "sym" and a[1] == b[1]:
            if op in ("Eq", "Ne", "Lt", "Le", "Gt", "Ge"):
                x, y = a[2], b[2]
                return B_({"Eq": x == y, "Ne": x != y, "Lt": x < y, "Le": x <= y, "Gt": x > y, "Ge": x >= y}[op])
            if base == "Sub":
                res = I(a[3], a[2] - b[2])
        if op.endswith("WithOverflow"):
            return ("tup", (res, TOP))      # whether the arithmetic overflows is unknown (it panics if it does)
        return res

    # ---- stepping ------------------------------------------------------------------------------------------
    def _enter_block(self, st, f):
        info = self.loop_info(f.B)
        if f.block in info:
            if f.block in f.entered:
                if len(st.frames) != 1:
                    raise Unsupported("loop inside the inlined callee %s" % f.path)
                end = {l: f.env.get(l, TOP) for l in info[f.block]}
                return PathResult("loop_back", None, st, end_env=end, why=f.block)
            f.entered.add(f.block)
            live = self.live_in(f.B)[f.block]
            for l in sorted(info[f.block]):
                if l not in live:
                    f.env.pop(l, None)
                    continue
                ty = f.B.local_ty(l)
                if ty in ("u8", "bool"):
                    f.env[l] = self._fresh_var(st, ("havoc", f.fid, f.block, l), ty, range(2) if ty == "bool" else None)
                elif is_int_ty(ty):
                    f.env[l] = ("sym", (f.fid, l), 0, ty)
                else:
                    f.env[l] = TOP
            st.events.append(("loop_enter", f.fid, f.block))
        return None

    def _step(self, st):
        f = st.frames[-1]
        if f.idx == -1:
            f.idx = 0
            r = self._enter_block(st, f)
            if r is not None:
                return r
        blk = f.B.blocks[f.block]
        if f.idx < len(blk["s"]):
            s = blk["s"][f.idx]
            if s[0] == "a":
                v = self.rvalue(st, f, s[2], f.B.local_ty(s[1][0]) if not s[1][1] else None)
                self.write_place(st, f, s[1], v)
            f.idx += 1
            return None
        t = blk["t"]
        k = t[0]
        if k == "goto":
            self._goto(st, t[1])
            return None
        if k == "drop":
            self._goto(st, t[2])
            return None
        if k == "ret":
            v = f.env.get(0, TOP)
            if len(st.frames) == 1:
                return PathResult("ret", v, st)
            st.frames.pop()
            g = st.frames[-1]
            if f.on_ret == "wrap_some":
                v = SOME(v)
            self.write_place(st, g, f.dest, v)
            self._goto(st, f.target)
            return None
        if k in ("unreachable", "resume"):
            return PathResult("diverge", None, st, why=k)
        if k == "assert":
            cond = self.operand(st, f, t[1])
            c = self.pointwise(st, [cond], lambda a: a[0]) if cond != TOP and cond[0] in ("i", "var") else None
            if c is not None and bool(c[2]) != bool(t[2]):
                return PathResult("diverge", None, st, why="assert")
            self._goto(st, t[3])
            return None
        if k == "switch":
            v = self.operand(st, f, t[1])
            arms, other = t[2], t[3]

            def pick(a):
                for (val, tb) in arms:
                    if a[0][2] == val:
                        return tb
                return other
            if v != TOP and v[0] in ("i", "var"):
                self._goto(st, self.pointwise(st, [v], pick))
                return None
            outs = []
            for tb in [a[1] for a in arms] + [other]:
                if tb not in outs and f.B.blocks[tb]["t"][0] != "unreachable":
                    outs.append(tb)
            if len(outs) > 1:
                return outs
            self._goto(st, outs[0])
            return None
        if k == "call":
            return self._call(st, f, t[1])
        raise Unsupported("terminator %s in %s" % (k, f.path))

    # ---- calls ---------------------------------------------------------------------------------------------
    def _reach_objs(self, st, v, depth=0):
        if v == TOP or depth > 4:
            return set()
        if v[0] == "obj":
            return {v[1]}
        if v[0] == "ref":
            return self._reach_objs(st, self.load(st, v[1]) if v[1][0] == "L" else TOP, depth + 1)
        if v[0] == "tup":
            return set().union(*[self._reach_objs(st, x, depth + 1) for x in v[1]]) if v[1] else set()
        if v[0] == "adt":
            return set().union(*[self._reach_objs(st, x, depth + 1) for x in v[3]]) if v[3] else set()
        return set()

    def _deref_val(self, st, v):
        """look through references: the value a (possibly nested) reference points to"""
        for _ in range(4):
            if v != TOP and v[0] == "ref":
                v = self.load(st, v[1])
            else:
                break
        return v

    def _call(self, st, f, c):
        fn = cfg.callee_of(c["f"])
        name = cfg.callee_name(fn) or "?"
        args = [self.operand(st, f, a) for a in c["a"]]
        site = (f.fid, f.block)
        dest_ty = f.B.local_ty(c["d"][0]) if not c["d"][1] else ""
        res = self._model(st, f, name, args, site, dest_ty, c)
        if res == "pushed":
            return None
        if res is None:
            B2 = self.body(name)
            if B2 is not None and len(st.frames) < 8 and B2.argc == len(args) and c["t"] is not None and \
                    not any(fr.path == name for fr in st.frames):
                self._push(st, f, name, B2, args, c["d"], c["t"], None)
                return None
            objs = set()
            for a in args:
                objs |= self._reach_objs(st, a)
            res = self._fresh_obj(st, ("call",) + site, dest_ty, ("call", name), sorted(objs)) \
                if dest_ty not in BITS and dest_ty != "()" else (UNIT if dest_ty == "()" else TOP)
            st.events.append(("call", name, tuple(args), tuple(sorted(objs)), c["l"]))
        if c["t"] is None:
            return PathResult("diverge", None, st, why=name)
        self.write_place(st, f, c["d"], res)
        self._goto(st, c["t"])
        return None

    def _push(self, st, f, name, B2, args, dest, target, on_ret):
        g = self._new_frame(st, name, B2)
        for i, a in enumerate(args):
            g.env[i + 1] = a
        g.dest, g.target, g.on_ret = dest, target, on_ret
        st.frames.append(g)

    def _choice(self, st, site, tag):
        v = self._fresh_var(st, ("choice",) + site + (tag,), "bool", range(2))
        return self.concretize(st, v)[2]

    def _model(self, st, f, name, args, site, dest_ty, c):
        """std models.  Returns a value, 'pushed' (a frame was pushed), or None (no model)."""
        last = name.rsplit("::", 1)[-1]
        a0 = args[0] if args else TOP
        # -- diverging
        if name.startswith("core::panicking::") or name.startswith("std::rt::begin_panic"):
            return TOP
        # -- predicates on bytes / chars
        if last in ASCII_PRED and re.search(r"<impl (u8|char)>::", name):
            v = self._deref_val(st, a0)
            if v != TOP and v[0] in ("i", "var"):
                acc = ASCII_PRED[last]
                return self.pointwise(st, [v], lambda a: B_(a[0][2] in acc))
            return TOP
        if last in ("to_ascii_uppercase", "to_ascii_lowercase") and re.search(r"<impl (u8|char)>::", name):
            v = self._deref_val(st, a0)
            if v != TOP and v[0] in ("i", "var"):
                up = last.endswith("uppercase")
                return self.pointwise(st, [v], lambda a: I(a[0][1], a[0][2] - 32 if up and 97 <= a[0][2] <= 122 else
                                                           (a[0][2] + 32 if not up and 65 <= a[0][2] <= 90 else a[0][2])))
            return TOP
        if re.search(r"<impl (core::convert::)?From<(u8|char|bool)> for \w+>::from$", name) or \
                (last in ("from", "into") and dest_ty in BITS and a0 != TOP and a0[0] in ("i", "var")):
            if a0 != TOP and a0[0] in ("i", "var") and dest_ty in BITS:
                return self.pointwise(st, [a0], lambda a: I(dest_ty, a[0][2]))
            return TOP
        # -- strings / vectors
        if re.match(r"^alloc::(string::String|vec::Vec(::<.*>)?)::(new|with_capacity)$", name):
            return self._fresh_obj(st, ("new",) + site, dest_ty, ("new", name))
        if last in ("from", "to_string", "to_owned", "from_str") and a0 != TOP and re.search(
                r"String as core::convert::From<&(mut )?str>>::from$|ToString>::to_string$|ToOwned for str>::to_owned$",
                name):
            v = self._deref_val(st, a0)
            if v != TOP and v[0] == "str":
                o = self._fresh_obj(st, ("new",) + site, dest_ty, ("new", name))
                st.events.append(("push_str", o[1], v, c["l"]))
                return o
            return None
        if re.match(r"^alloc::string::String::push$", name) or re.match(r"^alloc::vec::Vec::<.*>::push$", name):
            tgt = self._deref_val(st, a0)
            st.events.append(("push", tgt[1] if tgt != TOP and tgt[0] == "obj" else None, args[1], c["l"]))
            return UNIT
        if re.match(r"^alloc::string::String::push_str$", name):
            tgt = self._deref_val(st, a0)
            st.events.append(("push_str", tgt[1] if tgt != TOP and tgt[0] == "obj" else None,
                              self._deref_val(st, args[1]), c["l"]))
            return UNIT
        if last in ("len", "is_empty", "capacity", "is_ascii", "is_char_boundary") and \
                re.search(r"(String|<impl str>|<impl \[T\]>|Vec::<.*>)::\w+$", name):
            return TOP
        if last in ("as_bytes", "as_str", "deref", "as_ref", "borrow", "bytes", "iter", "into_iter", "as_slice",
                    "copied", "cloned", "by_ref", "chars") and not name.startswith("core::option::Option"):
            # views and iterator constructors: a fresh object derived from the receiver
            v = self._deref_val(st, a0)
            if v != TOP and v[0] == "str" and last in ("as_str", "deref", "as_ref", "borrow"):
                return v
            if last == "into_iter" and v != TOP and v[0] == "obj" and "iter::" in (st.objs[v[1]][0] or ""):
                return v                      # IntoIterator for an iterator is the identity
            par = sorted(self._reach_objs(st, v))
            return self._fresh_obj(st, ("view",) + site, dest_ty, ("view", last), par)
        if re.search(r"Iterator>::next$", name) or (last == "next" and "iter" in name):
            it = self._deref_val(st, a0)
            itid = it[1] if it != TOP and it[0] == "obj" else None
            m = re.match(r"^core::option::Option<(.*)>$", dest_ty)
            if not self._choice(st, site, "some"):
                return NONE
            inner = m.group(1) if m else ""
            if inner == "u8":
                v = self._fresh_var(st, ("next",) + site, "u8")
                st.events.append(("input", v[1], itid, c["l"]))
                return SOME(v)
            if inner == "&u8" and itid is not None:
                key = ("iter",) + site
                st.objs.setdefault(("o", "elems") + site, ("[u8]", ("elements", itid), (itid,)))
                cell = ("cell", ("o", "elems") + site, key)
                v = self.load(st, cell)
                st.events.append(("input", v[1], itid, c["l"]))
                return SOME(("ref", cell, False))
            return SOME(TOP)
        if re.match(r"^core::slice::<impl \[T\]>::get$", name):
            sl = self._deref_val(st, a0)
            if sl != TOP and sl[0] == "obj":
                k = self._cell_key(args[1]) if args[1] != TOP else None
                if not self._choice(st, site, ("present", sl[1], k)):
                    return NONE
                if k is None:
                    return SOME(TOP)
                return SOME(("ref", ("cell", sl[1], k), False))
            return TOP
        if re.match(r"^core::str::<impl str>::strip_prefix$", name):
            if not self._choice(st, site, "some"):
                return NONE
            src = self._deref_val(st, a0)
            o = self._fresh_obj(st, ("strip",) + site, "&str", ("strip_prefix",), sorted(self._reach_objs(st, src)))
            st.events.append(("strip_prefix", self._deref_val(st, args[1]), c["l"]))
            return SOME(o)
        # -- Option / Result / `?`
        if name.startswith("core::option::Option") and last in ("copied", "cloned"):
            if a0 != TOP and a0[0] == "adt":
                return NONE if a0[2] == "None" else SOME(self._deref_val(st, a0[3][0]))
            return TOP
        if name.startswith("core::option::Option") and last in ("and_then", "map"):
            if a0 != TOP and a0[0] == "adt" and len(args) == 2:
                if a0[2] == "None":
                    return NONE
                fnv = args[1]
                if fnv != TOP and fnv[0] == "fn":
                    B2 = self.body(fnv[1])
                    if B2 is not None and B2.argc == 1 and c["t"] is not None:
                        self._push(st, f, fnv[1], B2, [a0[3][0]], c["d"], c["t"],
                                   "wrap_some" if last == "map" else None)
                        return "pushed"
            return TOP
        if re.search(r"as core::ops::try_trait::Try>::branch$", name):
            if a0 != TOP and a0[0] == "adt":
                if a0[1] == OPTION:
                    return ("adt", CFLOW, "Continue", a0[3]) if a0[2] == "Some" else ("adt", CFLOW, "Break", (NONE,))
                if a0[1] == RESULT:
                    return ("adt", CFLOW, "Continue", a0[3]) if a0[2] == "Ok" else ("adt", CFLOW, "Break", (a0,))
            return TOP
        if re.search(r"FromResidual<.*>>::from_residual$", name):
            if dest_ty.startswith(OPTION):
                return NONE
            return TOP
        if name == "core::hint::must_use" or last in ("black_box",):
            return a0
        return None


# ---- queries on results ------------------------------------------------------------------------------------

def after_loop_enter(res):
    """events of a path after its (single) loop_enter marker, or None when the path never enters a loop"""
    idx = [i for i, e in enumerate(res.events) if e[0] == "loop_enter"]
    if not idx:
        return None
    return res.events[idx[0] + 1:]


def loop_enters(res):
    return [e for e in res.events if e[0] == "loop_enter"]

"""C01.R5 — argument placement of constructors.

The checker records, for every argument of a constructor call, the index of the field it initialises (named
arguments may be written in any order).  A generator handler that builds such a constructor must consult that
record when it passes the argument registers; passing them in source order initialises the wrong fields when
the arguments are named and not written in declaration order.

Everything is derived:
  * record = a pair of methods (insert_X(&Body, id, usize), get_X(&Body, id) -> Option<usize>) on the type that
    carries the node lookups;
  * constructor kinds = variants of the call-classification enum (the enum the call handler dispatches on) that
    are constructed by a checker function which calls (directly or through one helper) a function using insert_X;
  * obligation = every non-panicking path of the call handler that assumes such a kind and generates the argument
    list consults get_X on the argument in the loop that generates it."""
import hirq

from rules.c01_sym import strip_ref


def record_pairs(c, R):
    """{X: (inserter path, getter path)}"""
    body_tys = set(strip_ref(f["inputs"][0]) for p, f in R.fns.items() if p in R.lookups and f.get("inputs"))
    ins, get = {}, {}
    for p, f in R.fns.items():
        if f.get("self_ty") not in body_tys:
            continue
        if f["name"].startswith("insert_") and len(f["inputs"]) == 3 and f["inputs"][-1] == "usize":
            ins[f["name"][7:]] = p
        if f["name"].startswith("get_") and len(f["inputs"]) == 2 and f["output"] == "core::option::Option<usize>":
            get[f["name"][4:]] = p
    return dict((x, (ins[x], get[x])) for x in ins if x in get)


def ctor_kinds(c, R, enum_paths, pairs):
    """{variant def path: (record X, constructing checker fn)}"""
    callees = {}
    uses = {}
    for p, b in c.hir.items():
        if p.startswith(R.module + "::"):
            continue
        cs = set(x.callee for x in hirq.calls(b["body"]) if x.callee)
        callees[p] = cs
        for x, (ins, _g) in pairs.items():
            if ins in cs:
                uses.setdefault(p, set()).add(x)
    out = {}
    for p, b in c.hir.items():
        if p.startswith(R.module + "::"):
            continue
        built = set()
        for n in hirq.walk(b["body"]):
            if n[0] == "call" and hirq.is_node(n[2]) and n[2][0] == "def" and n[2][1] == "ctor" \
                    and n[2][2].rsplit("::", 1)[0] in enum_paths:
                built.add(n[2][2])
        if not built:
            continue
        reach = set()
        for q in callees.get(p, ()):
            reach |= uses.get(q, set())
        reach |= uses.get(p, set())
        for d in built:
            for x in reach:
                out.setdefault(d, (x, p))
    return out


def rule_r5(chk, c, R, A):
    r = chk.rule("C01.R5", "a constructor handler consults, for each argument it generates, the field index the checker "
                           "recorded for it (named arguments written out of declaration order must reach their own "
                           "fields); how the index is used to place the register is not decided")
    pairs = A.record_pairs
    if not r.anchor("checker record (insert_X / get_X -> Option<usize> on the node-lookup type)", pairs):
        return
    # the enum the call handlers dispatch on: owner of the variants that constrain an analysis datum of the node itself
    owners = {}
    for tag, sts in A.paths.items():
        for st in sts:
            for k, v in st.cons.items():
                if k[0] == "enumval" and v[0] == "in" and k[1][0] == "ad" and k[1][2] == ((),):
                    owners.setdefault(v[1].rsplit("::", 1)[0], set()).add(tag)
    kinds = ctor_kinds(c, R, set(owners), pairs)
    if not r.anchor("constructor kinds (classification variants built by checker functions that record argument "
                    "indices)", kinds):
        return
    # evaluate every kind; the obligation applies to the classification enum whose recorded kinds are assumed by
    # handler paths that generate an argument list (other enums built next to a record, e.g. identifier kinds of
    # patterns, never reach such a path)
    results = {}
    for d, (x, builder) in sorted(kinds.items()):
        getter = pairs[x][1]
        found = []
        for tag, sts in A.paths.items():
            for st in sts:
                if any(k[0] == "enumval" and v == ("in", d) and k[1][0] == "ad" and k[1][2] == ((),)
                       for k, v in st.cons.items()):
                    found.append((tag, st))
        bad = None
        good = 0
        with_loops = 0
        for tag, st in found:
            loops = [ev for ev in st.trace if ev[0] == "loop" and ev[1][0] == ()]
            if not loops:
                continue          # no argument is generated on this path: nothing to place
            with_loops += 1
            ok = True
            for ev in loops:
                for (trace, bcons) in ev[3]:
                    bc = dict(bcons)
                    for gp in [e2[1] for e2 in trace if e2[0] == "gen"]:
                        if not bc.get(("seen", getter, (gp,))):
                            ok = False
            if ok:
                good += 1
            elif bad is None:
                bad = (tag, st)
        results[d] = (x, builder, found, with_loops, good, bad)
    relevant = set(d.rsplit("::", 1)[0] for d, res in results.items() if res[3] > 0)
    if not r.anchor("constructor kinds assumed by handler paths that generate an argument list (defines the "
                    "classification enum the obligation applies to)", relevant):
        return
    seen_kinds = 0
    for d, (x, builder, found, with_loops, good, bad) in sorted(results.items()):
        if d.rsplit("::", 1)[0] not in relevant:
            continue
        getter = pairs[x][1]
        if not with_loops:
            r.violation("ANALYSIS:%s:no-generator-path" % d,
                        "no path of a generator handler that generates arguments assumes the constructor kind %s "
                        "(built in %s)" % (d, builder))
            continue
        seen_kinds += 1
        handler = A.handlers.get(found[0][0], "?")
        key = "%s:%s" % (handler, hirq.last(d))
        r.instance(key, nontrivial=True, sample={"kind": d, "record": x, "checker": builder, "paths": with_loops,
                                                "paths consulting the record": good})
        if bad is not None:
            r.violation("%s:arguments-in-source-order" % key,
                        "the handler path for %s generates the arguments and passes their registers without consulting "
                        "%s: with named arguments written out of declaration order (e.g. `S(b = 1, a = 2)`) the values "
                        "initialise the wrong fields — path: %s"
                        % (hirq.last(d), hirq.last(getter), "; ".join(bad[1].notes)),
                        "%s:%s" % (c.hir[handler]["file"], c.hir[handler]["line"]) if handler in c.hir else None)
    r.floor("constructor kinds with generator paths", seen_kinds, 3)

"""C08 — every AArch64 instruction is encoded as the instruction that was requested; an operand that cannot be
encoded is refused rather than silently truncated.

Static rules over the Rust assembler (dora-asm/src/arm64.rs, HIR facts) and its Dora twin
(pkgs/boots/assembler/arm64.dora, syntax tree), both translated into one IR (c08_ir.py):

  R1  bit-field interval analysis of every instruction-class encoder (`mod cls` / `mod encoding`)
  R2  register-31 discipline: the assertion made about a register matches the encoding function applied to it
  R3  scaled-offset agreement of the ldr/str/ldp/stp immediate forms
  R4  branch resolution (resolve_jumps)
  R5  Rust ↔ Dora sibling agreement (class layouts and public methods)
"""
from rules import c08_ir as ir
from rules.c08_ir import FULL, bitlen, fill, is_e, render, walk

RS_PREFIX = "dora_asm::arm64::"
DORA_FILE = "pkgs/boots/assembler/arm64.dora"
BIG = (1 << 80) - 1


# =============================================================================================== sides

class Side:
    """one assembler: its functions, globals, struct declarations and name resolution"""

    def __init__(self, lang, fns, globs, cls_prefix, file, keyprefix, struct_fields, cls_private):
        self.lang = lang
        self.fns = fns
        self.globals = globs
        self.cls_prefix = cls_prefix
        self.file = file
        self.keyprefix = keyprefix
        self.struct_fields = struct_fields      # {type: {field: (type, is_pub)}}
        self.cls_private = cls_private          # {class encoder name: bool}  (all call sites are in this file)
        self._sites = None
        self._ret = {}
        self._inv = {}

    def key(self, fn):
        return self.keyprefix + fn.qual

    def classes(self):
        return {q[len(self.cls_prefix):]: f for q, f in self.fns.items()
                if q.startswith(self.cls_prefix) and f.ret in ("u32", "i32")}

    def methods(self):
        return {q[len("AssemblerArm64::"):]: f for q, f in self.fns.items() if q.startswith("AssemblerArm64::")}

    # ---- resolution
    def resolve_call(self, cur, node):
        qual = node[2]
        if self.lang == "rust":
            if qual.startswith(RS_PREFIX):
                return self.fns.get(qual[len(RS_PREFIX):])
            return None
        parts = cur.qual.split("::")[:-1]
        for i in range(len(parts), -1, -1):
            cand = "::".join(parts[:i] + [qual])
            if cand in self.fns:
                return self.fns[cand]
        return None

    def var_type(self, cur, e, tyenv=None):
        if is_e(e) and e[0] == "var":
            if e[1] == "self":
                return cur.self_ty
            if tyenv and e[1] in tyenv:
                return tyenv[e[1]]
            for (n, t) in cur.params:
                if n == e[1]:
                    return t
        return None

    def resolve_mcall(self, cur, node, tyenv=None):
        if self.lang == "rust":
            res = node[5]
            if res and res.startswith(RS_PREFIX):
                return self.fns.get(res[len(RS_PREFIX):])
            return None
        ty = self.var_type(cur, node[2], tyenv)
        if ty is None:
            return None
        return self.fns.get("%s::%s" % (ty, node[1]))

    def class_of_call(self, cur, node):
        """name of the class encoder a ('call', ..) node invokes, or None"""
        if not (is_e(node) and node[0] == "call"):
            return None
        f = self.resolve_call(cur, node)
        if f is not None and f.qual.startswith(self.cls_prefix) and f.ret in ("u32", "i32"):
            return f.qual[len(self.cls_prefix):]
        return None

    def call_sites(self):
        """{class name: [(caller Fn, [arg IR], line)]} over every function of the file"""
        if self._sites is None:
            sites = {}
            for q, f in self.fns.items():
                for n in walk(f.body):
                    cn = self.class_of_call(f, n)
                    if cn is not None:
                        sites.setdefault(cn, []).append((f, n[3], n[4]))
            self._sites = sites
        return self._sites


# =============================================================================================== constants

def ceval(side, e, env=None):
    """constant value of e (int or bool) or None"""
    if not is_e(e):
        return None
    k = e[0]
    if k == "int" or k == "bool":
        return e[1]
    if k in ("var", "path"):
        name = e[1] if k == "var" else ir.pname(e[1])
        if env and name in env:
            return env[name]
        g = side.globals.get(name)
        if g is not None and g[0] in ("int", "bool"):
            return g[1]
        if g is not None and g[0] in ("var", "path"):
            return ceval(side, g, None)
        return None
    if k == "cast":
        v = ceval(side, e[1], env)
        if isinstance(v, bool):
            return int(v)
        return v
    if k == "un":
        v = ceval(side, e[2], env)
        if v is None:
            return None
        if e[1] == "-" and not isinstance(v, bool):
            return -v
        if e[1] == "!" and isinstance(v, bool):
            return not v
        return None
    if k == "field":
        c = ctor_of(side, e[1])
        if c is not None and e[2] == "0" and len(c[3]) == 1:
            return ceval(side, c[3][0], env)
        return None
    if k == "block" and not e[1] and e[2] is not None:
        return ceval(side, e[2], env)
    if k == "bin":
        a, b = ceval(side, e[2], env), ceval(side, e[3], env)
        if a is None or b is None:
            return None
        op = e[1]
        try:
            if isinstance(a, bool) or isinstance(b, bool):
                if op == "&&":
                    return bool(a) and bool(b)
                if op == "||":
                    return bool(a) or bool(b)
                if op == "==":
                    return a == b
                if op == "!=":
                    return a != b
                return None
            if op == "+":
                return a + b
            if op == "-":
                return a - b
            if op == "*":
                return a * b
            if op == "/":
                return int(a / b) if b != 0 else None       # both languages truncate towards zero
            if op == "%":
                return a - b * int(a / b) if b != 0 else None
            if op == "<<":
                return a << b if 0 <= b < 64 else None
            if op in (">>", ">>>"):
                return a >> b if 0 <= b < 64 else None
            if op == "|":
                return a | b
            if op == "&":
                return a & b
            if op == "^":
                return a ^ b
            if op == "==":
                return a == b
            if op == "!=":
                return a != b
            if op == "<":
                return a < b
            if op == "<=":
                return a <= b
            if op == ">":
                return a > b
            if op == ">=":
                return a >= b
        except (TypeError, ValueError):
            return None
    return None


def ctor_of(side, e, depth=0):
    """e names a global whose initialiser is `T(lit)` (following aliases) → that ('call', T, ..) node"""
    if depth > 4 or not is_e(e) or e[0] not in ("var", "path"):
        return None
    name = e[1] if e[0] == "var" else ir.pname(e[1])
    g = side.globals.get(name)
    if g is None:
        return None
    if g[0] == "call":
        return g
    return ctor_of(side, g, depth + 1)


# =============================================================================================== predicates

def pred_range(side, fn, subj, env, depth=0):
    """the range [lo, hi) a boolean function admits for its parameter `subj`, from its own body.
    Either bound may be None.  env binds the other parameters to constants."""
    if depth > 4:
        return (None, None)
    body = fn.body
    tail = body[2] if body[0] == "block" else body
    if body[0] == "block" and body[1]:
        # leading `let name = <constant expression>` statements (a shared helper computes its bound first:
        # `let max = 1 << (bits - 1)`) are evaluated; other statements leave the tail's free names unbound
        env = dict(env or {})
        for st in body[1]:
            if is_e(st) and st[0] == "let" and len(st[1]) == 1 and st[2] is not None:
                v = ceval(side, st[2], env)
                if v is not None:
                    env[st[1][0]] = v
                else:
                    env.pop(st[1][0], None)
    return _range_of(side, fn, tail, subj, env, depth)


def _isect(a, b):
    lo = a[0] if b[0] is None else (b[0] if a[0] is None else max(a[0], b[0]))
    hi = a[1] if b[1] is None else (b[1] if a[1] is None else min(a[1], b[1]))
    return (lo, hi)


def _is_subj(e, subj):
    while is_e(e) and e[0] == "cast":
        e = e[1]
    return is_e(e) and e[0] == "var" and e[1] == subj


def _range_of(side, fn, e, subj, env, depth):
    e = ir.strip_block(e)
    if not is_e(e):
        return (None, None)
    if e[0] == "bin":
        op = e[1]
        if op == "&&":
            return _isect(_range_of(side, fn, e[2], subj, env, depth), _range_of(side, fn, e[3], subj, env, depth))
        if op in ("<", "<=", ">", ">=", "=="):
            l, r = e[2], e[3]
            if _is_subj(r, subj) and not _is_subj(l, subj):
                l, r = r, l
                op = {"<": ">", "<=": ">=", ">": "<", ">=": "<=", "==": "=="}[op]
            if _is_subj(l, subj):
                c = ceval(side, r, env)
                if c is None or isinstance(c, bool):
                    return (None, None)
                if op == "<":
                    return (None, c)
                if op == "<=":
                    return (None, c + 1)
                if op == ">":
                    return (c + 1, None)
                if op == ">=":
                    return (c, None)
                return (c, c + 1)
        return (None, None)
    if e[0] == "call":
        callee = side.resolve_call(fn, e)
        if callee is None or callee.ret != "bool":
            return (None, None)
        sub = None
        cenv = {}
        for (pn, _pt), a in zip(callee.params, e[3]):
            if _is_subj(a, subj):
                if sub is not None:
                    return (None, None)
                sub = pn
            else:
                c = ceval(side, a, env)
                if c is not None:
                    cenv[pn] = c
        if sub is None:
            return (None, None)
        return pred_range(side, callee, sub, cenv, depth + 1)
    return (None, None)


# =============================================================================================== callee summaries

PANIC = "panic"


def cond_facts(side, fn, cond, tyenv=None, depth=0):
    """upper bounds (inclusive) a true condition gives: {rendered lvalue: bound}"""
    cond = ir.strip_block(cond)
    if not is_e(cond) or depth > 4:
        return {}
    if cond[0] == "bin":
        op = cond[1]
        if op == "&&":
            a = cond_facts(side, fn, cond[2], tyenv, depth)
            b = cond_facts(side, fn, cond[3], tyenv, depth)
            for k, v in b.items():
                a[k] = min(a[k], v) if k in a else v
            return a
        if op in ("<", "<=", ">", ">="):
            l, r = cond[2], cond[3]
            if op in (">", ">="):
                l, r = r, l
                op = "<" if op == ">" else "<="
            c = ceval(side, r)
            if c is None or isinstance(c, bool) or ceval(side, l) is not None:
                return {}
            while is_e(l) and l[0] == "cast":
                l = l[1]
            if is_e(l) and l[0] in ("var", "field"):
                return {render(l): c if op == "<=" else c - 1}
        return {}
    if cond[0] == "mcall" and not cond[3]:
        p = side.resolve_mcall(fn, cond, tyenv)
        if p is None or p.ret != "bool":
            return {}
        inner = cond_facts(side, p, p.body[2] if p.body[0] == "block" and p.body[2] is not None else p.body,
                           None, depth + 1)
        recv = render(cond[2])
        out = {}
        for k, v in inner.items():
            if k == "self" or k.startswith("self."):
                out[recv + k[4:]] = v
        return out
    return {}


def type_invariant(side, ty, field):
    """upper bound of `ty.field` that holds for every value of the type: the field is private to the file and every
    construction (constructor calls in functions, constant initialisers) is bounded.  None if not derivable."""
    key = (ty, field)
    if key in side._inv:
        return side._inv[key]
    side._inv[key] = None
    decl = side.struct_fields.get(ty, {}).get(field)
    if decl is None or decl[1]:
        return None                              # unknown struct or public field: anyone may construct it
    ub = -1
    n = 0
    for name, g in side.globals.items():
        if is_e(g) and g[0] == "call" and g[1] == ty:
            v = ceval(side, g[3][0]) if len(g[3]) == 1 else None
            if v is None:
                return None
            ub = max(ub, v)
            n += 1
    gtypes = getattr(side, "global_types", {})
    for name, t in gtypes.items():
        if t == ty and (name not in side.globals or side.globals[name][0] == "unk"):
            return None                          # a constant of the type whose initialiser was not understood
    for q, f in side.fns.items():
        facts = {}
        if f.body[0] == "block":
            for s in f.body[1]:
                if is_e(s) and s[0] == "assert":
                    for k, v in cond_facts(side, f, s[1]).items():
                        facts[k] = min(facts.get(k, v), v)
        for nd in walk(f.body):
            if nd[0] == "call" and nd[1] == ty and ir.pname(nd[2]) == ty:
                if len(nd[3]) != 1:
                    return None
                a = nd[3][0]
                v = ceval(side, a)
                if v is None:
                    while is_e(a) and a[0] == "cast":
                        a = a[1]
                    v = facts.get(render(a))
                if v is None:
                    return None
                ub = max(ub, v)
                n += 1
    if n == 0 or ub < 0:
        return None
    side._inv[key] = ub
    return ub


_TYPE_MASK = {"u8": 0xFF, "bool": 1}


class Summ:
    """may-set bits of a callee's return value; `typeonly` = the bound comes from a declared type only"""
    __slots__ = ("mask", "typeonly", "how")

    def __init__(self, mask, typeonly=False, how=""):
        self.mask, self.typeonly, self.how = mask, typeonly, how


def ret_summary(side, fn):
    if fn.qual in side._ret:
        return side._ret[fn.qual]
    side._ret[fn.qual] = Summ(None, False, "recursive")
    env = {}
    tyenv = {}
    for (n, t) in fn.params:
        tyenv[n] = t
    r = _may(side, fn, fn.body, env, {}, tyenv, 0)
    if r is PANIC or r is None:
        s = Summ(None, False, "not understood")
    else:
        s = Summ(r[0], r[1], "derived from the body of %s" % fn.qual)
    side._ret[fn.qual] = s
    return s


def _u(a, b):
    """union of two abstract results (mask, typeonly); PANIC branches do not contribute"""
    if a is PANIC:
        return b
    if b is PANIC:
        return a
    if a is None or b is None:
        return None
    return (a[0] | b[0], a[1] or b[1])


def _may(side, fn, e, env, facts, tyenv, depth):
    if depth > 12 or not is_e(e):
        return None
    k = e[0]
    if k == "int":
        return (e[1] & FULL if e[1] < 0 else e[1], False)
    if k == "bool":
        return (int(e[1]), False)
    if k == "panic":
        return PANIC
    if k == "var":
        if e[1] in env:
            return env[e[1]]
        c = ceval(side, e)
        if c is not None:
            return (int(c) & FULL if int(c) < 0 else int(c), False)
        key = render(e)
        if key in facts:
            return (fill(facts[key]), False)
        t = tyenv.get(e[1])
        if t in _TYPE_MASK:
            return (_TYPE_MASK[t], t != "bool")
        return None
    if k == "path":
        c = ceval(side, e)
        return (int(c), False) if c is not None and int(c) >= 0 else None
    if k == "cast":
        r = _may(side, fn, e[1], env, facts, tyenv, depth + 1)
        if r is None and e[2] in _TYPE_MASK:
            return (_TYPE_MASK[e[2]], True)
        return r
    if k == "field":
        key = render(e)
        if key in facts:
            return (fill(facts[key]), False)
        ty = side.var_type(fn, e[1], tyenv)
        if ty is not None:
            inv = type_invariant(side, ty, e[2])
            if inv is not None:
                return (fill(inv), False)
            decl = side.struct_fields.get(ty, {}).get(e[2])
            if decl and decl[0] in _TYPE_MASK:
                return (_TYPE_MASK[decl[0]], True)
        return None
    if k == "bin":
        op = e[1]
        if op in ("|", "^"):
            a = _may(side, fn, e[2], env, facts, tyenv, depth + 1)
            b = _may(side, fn, e[3], env, facts, tyenv, depth + 1)
            if a is PANIC or b is PANIC or a is None or b is None:
                return None
            return (a[0] | b[0], a[1] or b[1])
        if op == "&":
            a = _may(side, fn, e[2], env, facts, tyenv, depth + 1)
            b = _may(side, fn, e[3], env, facts, tyenv, depth + 1)
            if a is PANIC or b is PANIC:
                return None
            if a is None and b is None:
                return None
            if a is None:
                return (b[0], b[1])
            if b is None:
                return (a[0], a[1])
            return (a[0] & b[0], a[1] and b[1])
        if op in ("<<", ">>", ">>>"):
            a = _may(side, fn, e[2], env, facts, tyenv, depth + 1)
            s = ceval(side, e[3])
            if a is None or a is PANIC or s is None or not (0 <= s < 64):
                return None
            return ((a[0] << s) if op == "<<" else (a[0] >> s), a[1])
        return None
    if k == "if":
        cf = cond_facts(side, fn, e[1], tyenv)
        f2 = dict(facts)
        for kk, v in cf.items():
            f2[kk] = min(f2.get(kk, v), v)
        a = _may(side, fn, e[2], env, f2, tyenv, depth + 1) if e[2] is not None else None
        b = _may(side, fn, e[3], env, facts, tyenv, depth + 1) if e[3] is not None else None
        return _u(a, b)
    if k == "match":
        acc = PANIC
        for (_p, body) in e[2]:
            acc = _u(acc, _may(side, fn, body, env, facts, tyenv, depth + 1))
            if acc is None:
                return None
        return acc
    if k == "block":
        env = dict(env)
        facts = dict(facts)
        for s in e[1]:
            if not is_e(s):
                continue
            if s[0] == "assert":
                for kk, v in cond_facts(side, fn, s[1], tyenv).items():
                    facts[kk] = min(facts.get(kk, v), v)
            elif s[0] == "let":
                val = _may(side, fn, s[2], env, facts, tyenv, depth + 1) if s[2] is not None else None
                for nm in s[1]:
                    env[nm] = val if len(s[1]) == 1 and val is not PANIC else None
                    facts.pop(nm, None)
            elif s[0] == "panic":
                return PANIC
            elif s[0] == "ret":
                return None
        if e[2] is None:
            return None
        return _may(side, fn, e[2], env, facts, tyenv, depth + 1)
    if k in ("mcall", "call"):
        callee = side.resolve_mcall(fn, e, tyenv) if k == "mcall" else side.resolve_call(fn, e)
        if callee is None or callee.ret not in ("u32", "i32"):
            return None
        s = ret_summary(side, callee)
        if s.mask is None:
            return None
        return (s.mask, s.typeonly)
    return None


# =============================================================================================== R1: field layout

class Atom:
    """an opaque source of bits inside a class encoder: a parameter, a call result, or a merged if-expression"""

    def __init__(self, name, kind, origins, vmask=None, signed=None, how="", root=None):
        self.name, self.kind, self.origins = name, kind, frozenset(origins)
        self.vmask = vmask          # bits that may be set (None = not established)
        self.signed = signed        # N when asserted to be an N-bit two's complement value
        self.how = how
        self.root = root            # callee whose summary is type-only (root cause of a missing width)
        self.by_sites = False       # width known only from the constants passed at the call sites


def _to_dest(mask, shift):
    return mask << shift if shift >= 0 else mask >> -shift


def _to_src(mask, shift):
    return mask >> shift if shift >= 0 else mask << -shift


class Val:
    """const | extra(may) | OR of pieces (atom, src-mask, shift, masked)"""

    def __init__(self, const=0, pieces=None, extra=0, unknown=None, origins=()):
        self.const = const
        self.pieces = pieces or []
        self.extra = extra
        self.unknown = unknown      # reason string when the value is not understood
        self.origins = frozenset(origins)

    def is_const(self):
        return not self.pieces and not self.extra and self.unknown is None

    def may(self):
        m = self.const | self.extra
        for (a, src, sh, _mk) in self.pieces:
            vm = a.vmask if a.vmask is not None else FULL
            m |= _to_dest(vm & src, sh)
        return m

    def established(self):
        if self.unknown is not None:
            return False
        return all(a.vmask is not None or mk for (a, _s, _sh, mk) in self.pieces)

    def all_origins(self):
        o = set(self.origins)
        for (a, _s, _sh, _m) in self.pieces:
            o |= a.origins
        return frozenset(o)


class ClassInfo:
    def __init__(self, side, name, fn):
        self.side, self.name, self.fn = side, name, fn
        self.atoms = {}             # param name → Atom
        self.terms = []             # (label, expr, Val)
        self.const = 0
        self.nconst = 0
        self.problems = []          # (kind, label, message)
        self.roots = []             # (callee Fn, label)
        self.observations = []
        self.analysed = False
        self.fields = {}            # R5: origin key → (lo, width, established)


def _flatten_or(e, out):
    e = ir.strip_block(e)
    if is_e(e) and e[0] == "bin" and e[1] == "|":
        _flatten_or(e[2], out)
        _flatten_or(e[3], out)
    else:
        out.append(e)


def _label(e):
    e = ir.strip_block(e)
    if is_e(e) and e[0] == "bin" and e[1] == "<<":
        return _label(e[2])
    if is_e(e) and e[0] == "cast":
        return _label(e[1])
    return render(e)


class ClsEval:
    def __init__(self, side, fn, info):
        self.side, self.fn, self.info = side, fn, info
        self.tyenv = {n: t for (n, t) in fn.params}
        self.callatoms = {}

    def param_val(self, name):
        return Val(pieces=[(self.info.atoms[name], BIG, 0, False)])

    def ev(self, e, env, depth=0):
        side = self.side
        if not is_e(e) or depth > 16:
            return Val(unknown="not an expression")
        k = e[0]
        if k == "int":
            return Val(const=e[1] & FULL if e[1] < 0 else e[1])
        if k == "bool":
            return Val(const=int(e[1]))
        if k == "var":
            if e[1] in env:
                return env[e[1]]
            c = ceval(side, e)
            if c is not None:
                return Val(const=int(c) & FULL)
            return Val(unknown="unknown variable %s" % e[1], origins=[e[1]])
        if k == "path":
            c = ceval(side, e)
            if c is not None:
                return Val(const=int(c) & FULL)
            return Val(unknown="unknown path %s" % render(e))
        if k == "cast":
            v = self.ev(e[1], env, depth + 1)
            return v
        if k == "block":
            env2 = dict(env)
            for s in e[1]:
                if is_e(s) and s[0] == "let":
                    val = self.ev(s[2], env2, depth + 1) if s[2] is not None else Val(unknown="uninitialised")
                    for nm in s[1]:
                        env2[nm] = val if len(s[1]) == 1 else Val(unknown="tuple pattern", origins=val.all_origins())
            if e[2] is None:
                return Val(unknown="block without value")
            return self.ev(e[2], env2, depth + 1)
        if k == "bin":
            op = e[1]
            if op == "|":
                a, b = self.ev(e[2], env, depth + 1), self.ev(e[3], env, depth + 1)
                if a.unknown or b.unknown:
                    return Val(unknown=a.unknown or b.unknown, origins=a.all_origins() | b.all_origins())
                return Val(a.const | b.const, a.pieces + b.pieces, a.extra | b.extra)
            if op in ("<<", ">>", ">>>"):
                a = self.ev(e[2], env, depth + 1)
                s = ceval(side, e[3])
                if a.unknown or s is None or not (0 <= s < 64):
                    return Val(unknown=a.unknown or "non-constant shift amount", origins=a.all_origins())
                if op == "<<":
                    return Val(a.const << s, [(at, src, sh + s, mk) for (at, src, sh, mk) in a.pieces], a.extra << s)
                extra = a.extra >> s
                pieces = []
                for (at, src, sh, mk) in a.pieces:
                    nsh = sh - s
                    pieces.append((at, src & _to_src(BIG, nsh), nsh, mk))
                    if at.vmask is None and op == ">>":
                        extra |= FULL & ~(FULL >> s)          # sign fill of a possibly negative value
                return Val(a.const >> s, pieces, extra)
            if op == "&":
                a, b = self.ev(e[2], env, depth + 1), self.ev(e[3], env, depth + 1)
                if b.is_const() and not a.is_const():
                    v, m = a, b.const
                elif a.is_const() and not b.is_const():
                    v, m = b, a.const
                elif a.is_const() and b.is_const():
                    return Val(const=a.const & b.const)
                else:
                    return Val(unknown="`&` of two variable operands", origins=a.all_origins() | b.all_origins())
                if v.unknown:
                    return Val(unknown=v.unknown, origins=v.all_origins())
                return Val(v.const & m, [(at, src & _to_src(m, sh), sh, True) for (at, src, sh, mk) in v.pieces],
                           v.extra & m)
            a, b = self.ev(e[2], env, depth + 1), self.ev(e[3], env, depth + 1)
            return Val(unknown="operator %s" % op, origins=a.all_origins() | b.all_origins())
        if k in ("mcall", "call"):
            txt = render(e)
            if txt in self.callatoms:
                return Val(pieces=[(self.callatoms[txt], BIG, 0, False)])
            origins = set()
            for sub in ([e[2]] if k == "mcall" else []) + list(e[3]):
                o = self.ev(sub, env, depth + 1)
                origins |= o.all_origins()
            callee = side.resolve_mcall(self.fn, e, self.tyenv) if k == "mcall" else side.resolve_call(self.fn, e)
            at = Atom(txt, "call", origins)
            if callee is not None and callee.ret in ("u32", "i32"):
                s = ret_summary(side, callee)
                if s.mask is not None and not s.typeonly:
                    at.vmask = s.mask
                    at.how = s.how
                elif s.mask is not None:
                    at.root = callee
                    at.how = "only the declared type bounds the result of %s" % callee.qual
                else:
                    at.how = "result of %s not understood" % callee.qual
            else:
                at.how = "callee of %s not resolved" % txt
            self.callatoms[txt] = at
            return Val(pieces=[(at, BIG, 0, False)])
        if k == "if":
            a = self.ev(e[2], env, depth + 1) if e[2] is not None else Val(unknown="no then-value")
            b = self.ev(e[3], env, depth + 1) if e[3] is not None else Val(unknown="no else-value")
            origins = a.all_origins() | b.all_origins()
            if a.unknown or b.unknown:
                return Val(unknown=a.unknown or b.unknown, origins=origins)
            at = Atom(render(e), "merge", origins)
            roots = [p[0].root for p in a.pieces + b.pieces if p[0].root is not None]
            if a.established() and b.established():
                at.vmask = (a.may() | b.may())
                at.how = "both branches established"
            elif roots:
                at.root = roots[0]
            return Val(pieces=[(at, BIG, 0, False)])
        return Val(unknown="expression %s" % render(e), origins=ir.vars_of(e))


def _apply_assert(side, fn, cond, env, info):
    """a top-level assert of a class encoder establishes the range of a parameter"""
    cond = ir.strip_block(cond)
    if not is_e(cond):
        return

    def param_atom(e):
        while is_e(e) and e[0] == "cast":
            e = e[1]
        if is_e(e) and e[0] == "var" and e[1] in env:
            v = env[e[1]]
            if v.unknown is None and len(v.pieces) == 1 and v.const == 0 and v.extra == 0:
                at, src, sh, mk = v.pieces[0]
                if at.kind == "param" and src == BIG and sh == 0 and not mk:
                    return at, e[1]
        return None, None

    if cond[0] == "bin" and cond[1] == "&&":
        _apply_assert(side, fn, cond[2], env, info)
        _apply_assert(side, fn, cond[3], env, info)
        return
    if cond[0] == "bin" and cond[1] == "==":
        for l, r in ((cond[2], cond[3]), (cond[3], cond[2])):
            at, _nm = param_atom(l)
            c = ceval(side, r)
            if at is not None and c is not None and not isinstance(c, bool) and c >= 0:
                at.vmask = c if at.vmask is None else (at.vmask & c)
                at.how = "assert == %d" % c
                return
        return
    if cond[0] == "call":
        callee = side.resolve_call(fn, cond)
        if callee is None or callee.ret != "bool":
            return
        subj = None
        cenv = {}
        target = None
        for (pn, _pt), a in zip(callee.params, cond[3]):
            at, _nm = param_atom(a)
            if at is not None and subj is None:
                subj, target = pn, at
            else:
                c = ceval(side, a)
                if c is not None:
                    cenv[pn] = c
        if subj is None:
            return
        lo, hi = pred_range(side, callee, subj, cenv)
        pty = dict(fn.params).get(target.name)
        if lo is None and pty in ("u32", "u64", "u8", "usize"):
            lo = 0
        if hi is None or lo is None:
            return
        if lo >= 0:
            m = fill(hi - 1) if hi > 0 else 0
            target.vmask = m if target.vmask is None else (target.vmask & m)
            target.how = "%s admits [%d, %d)" % (callee.name, lo, hi)
        else:
            n = max(bitlen(-lo - 1), bitlen(hi - 1) if hi > 0 else 0) + 1
            target.signed = n if target.signed is None else min(target.signed, n)
            target.how = "%s admits [%d, %d): %d-bit two's complement" % (callee.name, lo, hi, n)


def analyse_class(side, name, fn):
    info = ClassInfo(side, name, fn)
    body = fn.body
    if body[0] != "block" or body[2] is None:
        info.problems.append(("unanalysed", "-", "no result expression"))
        return info
    ce = ClsEval(side, fn, info)
    env = {}
    for (pn, pt) in fn.params:
        at = Atom(pn, "param", [pn])
        if pt == "bool":
            at.vmask, at.how = 1, "Bool"
        info.atoms[pn] = at
        env[pn] = ce.param_val(pn)
    for s in body[1]:
        if not is_e(s):
            continue
        if s[0] == "assert":
            _apply_assert(side, fn, s[1], env, info)
        elif s[0] == "let":
            val = ce.ev(s[2], env) if s[2] is not None else Val(unknown="uninitialised")
            for nm in s[1]:
                env[nm] = val if len(s[1]) == 1 else Val(unknown="tuple pattern", origins=val.all_origins())
    ops = []
    _flatten_or(body[2], ops)
    for op in ops:
        v = ce.ev(op, env)
        if v.is_const():
            info.const |= v.const
            info.nconst += 1
        else:
            info.terms.append((_label(op), op, v))
    info.analysed = True
    return info


def _const_sites(side, name, fn, pidx):
    """clause (vi): every call site of the class encoder passes a constant for parameter #pidx → OR of those
    constants (bit level), else None"""
    if not side.cls_private.get(name, False):
        return None
    sites = side.call_sites().get(name, [])
    if not sites:
        return None
    m = 0
    for (caller, args, _line) in sites:
        if pidx >= len(args):
            return None
        c = ceval(side, args[pidx])
        if c is None:
            return None
        c = int(c)
        if c < 0:
            return None
        m |= c
    return m


def check_class(r, side, info, roots):
    """evaluate the R1 clauses on one analysed class encoder; returns number of variable fields"""
    fn = info.fn
    key = side.key(fn)
    where = fn.where
    if not info.analysed:
        return 0
    # clause (vi) for parameters whose width nothing inside the function establishes
    for pidx, (pn, pt) in enumerate(fn.params):
        at = info.atoms[pn]
        used = any(any(p[0] is at for p in v.pieces) or pn in v.all_origins() for (_l, _e, v) in info.terms)
        if at.vmask is None and at.signed is None and pt in ("u32", "i32", "u64", "i64", "u8"):
            m = _const_sites(side, info.name, fn, pidx)
            if m is not None:
                at.vmask = m
                at.by_sites = True
                at.how = "constant at every call site (bits %s)" % bin(m)
                if used:
                    r.observe("%s: width of `%s` is established only by its call sites (all pass constants, bits %s); "
                              "no fits_* assert in the function" % (key, pn, bin(m)))
    nfields = 0
    mays = []
    for (label, expr, v) in info.terms:
        nfields += 1
        ikey = "%s:%s" % (key, label)
        r.instance(ikey, sample={"fn": key, "term": label, "may": hex(v.may() & BIG) if not v.unknown else None})
        rootfn = None
        for (a, _s, _sh, _mk) in v.pieces:
            if a.root is not None and a.vmask is None:
                rootfn = a.root
        if rootfn is not None:
            roots.setdefault((side, rootfn.qual), []).append(key)
            mays.append((label, None, v))
            continue
        if v.unknown is not None:
            r.violation(ikey + ":no-width", "term `%s` of the result is not understood (%s): its width is not "
                        "established, so an out-of-range operand could spill into neighbouring fields"
                        % (render(expr), v.unknown), where)
            mays.append((label, None, v))
            continue
        if not v.established():
            bad = [a for (a, _s, _sh, mk) in v.pieces if a.vmask is None and not mk]
            why = "; ".join("`%s`: %s" % (a.name, a.how or ("signed value is not masked" if a.signed else
                                                            "no fits_* assert, mask, callee bound or constant call sites"))
                            for a in bad)
            r.violation(ikey + ":no-width", "variable term `%s` has no established width (%s): any value is OR-ed "
                        "into the instruction word unrefused" % (render(expr), why), where)
            mays.append((label, None, v))
            continue
        m = v.may()
        if m >> 32:
            r.violation(ikey + ":beyond-bit-31", "term `%s` may set bits %s: beyond bit 31 of the instruction word "
                        "(the operand is silently truncated)" % (render(expr), hex(m)), where)
        mays.append((label, m & FULL, v))
    # pairwise disjointness and constants at bit level
    for i in range(len(mays)):
        li, mi, _vi = mays[i]
        if mi is None:
            continue
        if mi & info.const:
            r.violation("%s:%s:constant-overlap" % (key, li), "constant bits %s of the class pattern lie inside the "
                        "range %s of variable term `%s`" % (hex(mi & info.const), hex(mi), li), where)
        for j in range(i + 1, len(mays)):
            lj, mj, _vj = mays[j]
            if mj is None:
                continue
            if mi & mj:
                r.violation("%s:%s+%s:overlap" % (key, li, lj), "variable terms `%s` (bits %s) and `%s` (bits %s) "
                            "overlap in bits %s: a legal value of one corrupts the other"
                            % (li, hex(mi), lj, hex(mj), hex(mi & mj)), where)
    # no truncation: every admitted bit of every parameter reaches the instruction word
    for pidx, (pn, pt) in enumerate(fn.params):
        at = info.atoms[pn]
        if pt not in ("u32", "i32", "u64", "i64", "u8", "bool"):
            continue
        cov = 0
        direct = False
        for (_l, _e, v) in info.terms:
            for (a, src, sh, _mk) in v.pieces:
                if a is at:
                    direct = True
                    cov |= src & _to_src(FULL, sh)
        indirect = any(pn in v.all_origins() and not any(p[0] is at for p in v.pieces) for (_l, _e, v) in info.terms)
        if indirect and not direct:
            continue                     # flows through a call / if-merge atom only: judged there
        if at.signed is not None:
            admitted = (1 << at.signed) - 1
            desc = "%d-bit signed (%s)" % (at.signed, at.how)
        elif at.vmask is not None:
            admitted = at.vmask
            desc = "bits %s (%s)" % (bin(at.vmask), at.how)
        else:
            admitted = FULL
            desc = "any 32-bit value (no range assert)"
        ikey = "%s:%s:range" % (key, pn)
        r.instance(ikey, nontrivial=direct)
        lost = admitted & ~cov & FULL
        if lost:
            m = _const_sites(side, info.name, fn, pidx)
            if m is not None and not (m & ~cov & FULL):
                r.observe("%s: parameter `%s` admits %s but only bits %s reach the word; harmless today because every "
                          "call site passes a constant within those bits (%s)" % (key, pn, desc, bin(cov & FULL), bin(m)))
                continue
            if not direct:
                r.violation("%s:%s:dropped" % (key, pn), "parameter `%s` admits %s but is never placed in the "
                            "instruction word: a requested non-zero value is silently dropped" % (pn, desc), where)
            else:
                r.violation("%s:%s:truncated" % (key, pn), "parameter `%s` admits %s but only bits %s of it reach the "
                            "instruction word: bits %s of an accepted operand are silently truncated"
                            % (pn, desc, bin(cov & FULL), bin(lost)), where)
    return nfields


def build_fields(info):
    """R5 view of a class: {origin key: (lowest bit, width|None)}; origin key = (parameter indices the term is
    derived from, lowest source bit of each directly placed parameter)"""
    out = {}
    fn = info.fn
    for (label, _e, v) in info.terms:
        orig = sorted(i for i in (fn.param_index(o) for o in v.all_origins()) if i is not None)
        srcs = []
        for (a, src, sh, _mk) in v.pieces:
            if a.kind == "param" and src & FULL:
                s = src & FULL
                srcs.append((s & -s).bit_length() - 1)
        okey = (tuple(orig), tuple(sorted(srcs)))
        if v.unknown is not None or not v.pieces:
            out[okey] = (None, None)
            continue
        los = []
        for (a, src, sh, _mk) in v.pieces:
            vm = a.vmask if a.vmask is not None else FULL
            dm = _to_dest(vm & src, sh) & BIG
            if not dm:
                dm = _to_dest(src, sh) & BIG
            los.append((dm & -dm).bit_length() - 1 if dm else max(sh, 0))
        lo = min(los)
        width = None
        if v.established() and not any(a.by_sites for (a, _s, _sh, _mk) in v.pieces):
            m = v.may() & FULL
            width = (bitlen(m) - lo) if m else 0
        out[okey] = (lo, width)
    return out


def run_r1(chk, sides):
    r = chk.rule("C08.R1", "in every instruction-class encoder the OR-ed terms occupy pairwise disjoint bit ranges "
                           "inside 32 bits, every variable term has an established width, and no admitted operand "
                           "bit is dropped")
    infos = {}
    roots = {}
    for side in sides:
        classes = side.classes()
        if not r.anchor("%s class encoders (%s*)" % (side.lang, side.cls_prefix), classes):
            continue
        analysed = 0
        nfields = 0
        nterms = 0
        for name in sorted(classes):
            fn = classes[name]
            info = analyse_class(side, name, fn)
            infos[(side.lang, name)] = info
            if not info.analysed:
                r.observe("unanalysed: %s (%s)" % (side.key(fn), info.problems[0][2] if info.problems else "?"))
                continue
            analysed += 1
            nv = check_class(r, side, info, roots)
            nfields += nv
            nterms += nv + info.nconst
        r.floor("%s class encoders analysed" % side.lang, analysed, 33 if side.lang == "rust" else 35)
        r.floor("%s variable fields" % side.lang, nfields, 200)
        r.floor("%s OR-ed terms (variable + constant)" % side.lang, nterms, 240)
    for (side, qual), users in sorted(roots.items(), key=lambda kv: kv[0][1]):
        callee = side.fns[qual]
        users = sorted(set(users))
        r.violation("%s%s:unbounded-width" % (side.keyprefix, qual),
                    "the result of %s is bounded only by its declared type (%s): no assert, match or branch in its "
                    "body — and no invariant of its type — limits it to the field it is shifted into, so an "
                    "out-of-range operand is not refused but spills into the neighbouring field in %d class "
                    "encoders: %s" % (qual, ret_summary(side, callee).how, len(users),
                                      ", ".join(u.rsplit("::", 1)[-1] for u in users)), callee.where)
    return infos


# =============================================================================================== setup

def make_sides(F):
    import facts as factsmod
    c = F.crate("dora_asm")
    rfns = ir.rust_functions(c, RS_PREFIX)
    rglobs = ir.rust_globals(c, RS_PREFIX, factsmod.read_repo)
    sf = {}
    for a in c.items["adts"]:
        if a["path"].startswith(RS_PREFIX) and a["kind"] == "struct" and a.get("variants"):
            sf[a["path"][len(RS_PREFIX):]] = {f["name"]: (ir.norm_ty(f["ty"]), bool(f["pub"]))
                                              for f in a["variants"][0]["fields"]}
    items = {f["path"]: f for f in c.items["fns"]}
    priv = {}
    for q, f in rfns.items():
        if q.startswith("cls::"):
            it = items.get(RS_PREFIX + q, {})
            priv[q[5:]] = not it.get("pub", True)
    rust = Side("rust", rfns, rglobs, "cls::", "dora-asm/src/arm64.rs", RS_PREFIX, sf, priv)
    rust.global_types = {x["path"][len(RS_PREFIX):]: ir.norm_ty(x["ty"]) for x in c.items["consts"]
                         if x["path"].startswith(RS_PREFIX)}
    D = F.dora()
    tree = D.get(DORA_FILE)
    dora = None
    if tree is not None:
        dfns = ir.dora_functions(tree, DORA_FILE)
        dglobs = ir.dora_globals(tree)
        dsf = {}
        import doraq
        for fpath, t in D.items():
            if not fpath.startswith("pkgs/boots/assembler"):
                continue
            for n in doraq.walk(t):
                if n[0] == "STRUCT":
                    nm = doraq.ident(n)
                    txt = doraq.text(n)
                    # positional struct `struct Name(pub T)`: field "0"
                    import re
                    m = re.search(r"\(\s*(pub\s+)?(\w+)\s*\)", txt)
                    if nm and m:
                        dsf[nm] = {"0": (ir.norm_ty(m.group(2)), bool(m.group(1)))}
        modpub = ir.dora_module_pub(tree, "encoding")
        dpriv = {q[len("encoding::"):]: (modpub is False) for q in dfns if q.startswith("encoding::")}
        dora = Side("dora", dfns, dglobs, "encoding::", DORA_FILE, DORA_FILE + ":", dsf, dpriv)
        dora.global_types = {}
    return rust, dora


# =============================================================================================== symbolic walk

def subst(e, env):
    """replace variables by their symbolic values (let-inlining)"""
    if isinstance(e, list):
        return [subst(x, env) for x in e]
    if not isinstance(e, tuple):
        return e
    if is_e(e):
        if e[0] == "var" and e[1] in env:
            return env[e[1]]
        if e[0] in ("param", "proj"):
            return e
        if e[0] == "block":
            # inner lets shadow: inline sequentially
            env2 = dict(env)
            stmts = []
            for s in e[1]:
                if is_e(s) and s[0] == "let":
                    init = subst(s[2], env2) if s[2] is not None else None
                    _bind(env2, s[1], init)
                    stmts.append(("let", s[1], init, s[3]))
                else:
                    stmts.append(subst(s, env2))
            return ("block", stmts, subst(e[2], env2) if e[2] is not None else None)
    return tuple(subst(x, env) if isinstance(x, (tuple, list)) else x for x in e)


def _bind(env, names, init):
    if len(names) == 1:
        env[names[0]] = init if init is not None else ("unk", "uninit", [])
    else:
        for i, nm in enumerate(names):
            env[nm] = ("proj", i, init)


class Event:
    __slots__ = ("kind", "node", "guards", "fn")

    def __init__(self, kind, node, guards, fn):
        self.kind, self.node, self.guards, self.fn = kind, node, guards, fn


def sym_events(fn):
    """calls and asserts of a function in source order; arguments are let-inlined down to ('param', i, name)
    leaves; guards = enclosing (condition, polarity) / ('arm', pattern) entries"""
    out = []
    env = {n: ("param", i, n) for i, (n, _t) in enumerate(fn.params)}

    def go(e, env, guards):
        if isinstance(e, list):
            for x in e:
                go(x, env, guards)
            return
        if not is_e(e):
            if isinstance(e, tuple):
                for x in e:
                    if isinstance(x, (tuple, list)):
                        go(x, env, guards)
            return
        k = e[0]
        if k == "block":
            env2 = dict(env)
            for s in e[1]:
                if is_e(s) and s[0] == "let":
                    if s[2] is not None:
                        go(s[2], env2, guards)
                    _bind(env2, s[1], subst(s[2], env2) if s[2] is not None else None)
                else:
                    go(s, env2, guards)
            if e[2] is not None:
                go(e[2], env2, guards)
            return
        if k == "assert":
            go(e[1], env, guards)
            out.append(Event("assert", ("assert", subst(e[1], env), e[2]), guards, fn))
            return
        if k == "if":
            go(e[1], env, guards)
            c = subst(e[1], env)
            env_t = env
            if is_e(e[1]) and e[1][0] == "letx":
                env_t = dict(env)
                for nm in e[1][1]:
                    env_t[nm] = ("proj", nm, subst(e[1][2], env))
            if e[2] is not None:
                go(e[2], env_t, guards + [(c, True)])
            if e[3] is not None:
                go(e[3], env, guards + [(c, False)])
            return
        if k == "match":
            go(e[1], env, guards)
            sc = subst(e[1], env)
            for (pat, body) in e[2]:
                env2 = dict(env)
                if pat[0] == "pat":
                    for nm in pat[2]:
                        env2[nm] = ("proj", nm, sc)
                go(body, env2, guards + [("arm", pat, sc)])
            return
        if k == "call":
            go(e[3], env, guards)
            out.append(Event("call", ("call", e[1], e[2], subst(e[3], env), e[4]), guards, fn))
            return
        if k == "mcall":
            go(e[2], env, guards)
            go(e[3], env, guards)
            out.append(Event("mcall", ("mcall", e[1], subst(e[2], env), subst(e[3], env), e[4], e[5]), guards, fn))
            return
        for x in e[1:]:
            if isinstance(x, (tuple, list)):
                go(x, env, guards)

    go(fn.body, env, [])
    return out


def uncast(e):
    e = ir.strip_block(e)
    while is_e(e) and e[0] == "cast":
        e = ir.strip_block(e[1])
    return e


def params_in(e):
    return sorted({n[1] for n in walk(e) if n[0] == "param"})


def srender(e):
    if is_e(e) and e[0] == "param":
        return e[2]
    if is_e(e) and e[0] == "proj":
        return "%s.%s" % (srender(e[2]), e[1])
    if is_e(e) and e[0] == "bin":
        return "(%s %s %s)" % (srender(e[2]), e[1], srender(e[3]))
    if is_e(e) and e[0] == "cast":
        return srender(e[1])
    if is_e(e) and e[0] == "mcall":
        return "%s.%s(%s)" % (srender(e[2]), e[1], ", ".join(srender(a) for a in e[3]))
    if is_e(e) and e[0] == "un":
        return e[1] + srender(e[2])
    return render(e)


# =============================================================================================== R2

def cond_accept(side, fn, cond, depth=0):
    """set of registers a boolean expression over `self` accepts: tokens ('le', n) / ('eq', CONST); None = unknown"""
    cond = ir.strip_block(cond)
    if not is_e(cond) or depth > 4:
        return None
    if cond[0] == "bin" and cond[1] == "||":
        a, b = cond_accept(side, fn, cond[2], depth), cond_accept(side, fn, cond[3], depth)
        if a is None or b is None:
            return None
        return a | b
    if cond[0] == "bin" and cond[1] in ("<=", "<"):
        l = uncast(cond[2])
        c = ceval(side, cond[3])
        if is_e(l) and l[0] == "field" and is_e(l[1]) and l[1][0] == "var" and c is not None:
            return frozenset([("le", c if cond[1] == "<=" else c - 1)])
        return None
    if cond[0] == "bin" and cond[1] == "==":
        for l, r in ((cond[2], cond[3]), (cond[3], cond[2])):
            if is_e(l) and l[0] == "var" and is_e(r) and r[0] in ("var", "path"):
                name = r[1] if r[0] == "var" else ir.pname(r[1])
                if name in side.globals:
                    return frozenset([("eq", name)])
        return None
    if cond[0] == "mcall" and not cond[3]:
        p = side.resolve_mcall(fn, cond)
        if p is not None and p.ret == "bool" and p.body[0] == "block" and p.body[2] is not None:
            return cond_accept(side, p, p.body[2], depth + 1)
    return None


def encoder_domain(side, g):
    """(domain, own_assert): the registers an encoding function accepts — from its leading assert, else from the
    conditions of its if-chain when the final else panics"""
    body = g.body
    if body[0] != "block":
        return None, False
    for s in body[1]:
        if is_e(s) and s[0] == "assert":
            d = cond_accept(side, g, s[1])
            if d is not None:
                return d, True
    e = body[2]
    dom = frozenset()
    while is_e(e) and e[0] == "if":
        a = cond_accept(side, g, e[1])
        if a is None:
            return None, False
        dom |= a
        e = ir.strip_block(e[3]) if e[3] is not None else None
    if e is not None and is_e(e) and e[0] == "panic" and dom:
        return dom, False
    if is_e(e) and e[0] == "block" and any(is_e(s) and s[0] == "panic" for s in e[1]) and dom:
        return dom, False
    return None, False


def _fmt_set(s):
    return "{" + ", ".join(sorted("%s%s" % ("≤" if k == "le" else "=", v) for (k, v) in s)) + "}"


def run_r2(chk, sides):
    r = chk.rule("C08.R2", "the assertion made about a register operand (is_gpr / is_gpr_or_zero / is_gpr_or_sp) "
                           "accepts exactly the registers the encoding function applied to it accepts")
    for side in sides:
        regty = "Register"
        doms = {}
        for q, g in side.fns.items():
            if g.self_ty == regty and g.ret in ("u32", "i32") and not g.params:
                d, own = encoder_domain(side, g)
                if d is not None:
                    doms[q] = (d, own)
        if not r.anchor("%s Register encoding functions with a derivable domain" % side.lang, len(doms) >= 3):
            continue
        preds = {}
        for q, g in side.fns.items():
            if g.self_ty == regty and g.ret == "bool" and not g.params and g.body[0] == "block" and g.body[2] is not None:
                a = cond_accept(side, g, g.body[2])
                if a is not None:
                    preds[q] = a
        r.anchor("%s Register predicates" % side.lang, len(preds) >= 3)
        nchecked = 0

        def visit(fn, e, scope):
            """returns asserts added at the top level of e when e is a block"""
            nonlocal nchecked
            added = {}
            if isinstance(e, list):
                for x in e:
                    visit(fn, x, scope)
                return added
            if not is_e(e):
                if isinstance(e, tuple):
                    for x in e:
                        if isinstance(x, (tuple, list)):
                            visit(fn, x, scope)
                return added
            k = e[0]
            if k == "block":
                sc = {p: list(v) for p, v in scope.items()}
                for s in list(e[1]) + ([e[2]] if e[2] is not None else []):
                    if is_e(s) and s[0] == "assert":
                        c = ir.strip_block(s[1])
                        if is_e(c) and c[0] == "mcall" and is_e(c[2]) and c[2][0] == "var" and not c[3]:
                            p = side.resolve_mcall(fn, c, tyenv_of(fn))
                            if p is not None and p.qual in preds:
                                sc.setdefault(c[2][1], []).append((preds[p.qual], p.name))
                                added.setdefault(c[2][1], []).append(preds[p.qual])
                                continue
                        visit(fn, s[1], sc)
                    elif is_e(s) and s[0] == "let":
                        if s[2] is not None:
                            visit(fn, s[2], sc)
                        for nm in s[1]:
                            sc.pop(nm, None)
                    elif is_e(s) and s[0] == "if" and s is not e[2]:
                        visit(fn, s[1], sc)
                        a1 = visit(fn, s[2], sc) if s[2] is not None else {}
                        a2 = visit(fn, s[3], sc) if s[3] is not None else {}
                        for p in set(a1) & set(a2):
                            u = frozenset().union(*a1[p]) | frozenset().union(*a2[p])
                            sc.setdefault(p, []).append((u, "either branch"))
                    else:
                        visit(fn, s, sc)
                return added
            if k == "mcall" and is_e(e[2]) and e[2][0] == "var" and not e[3]:
                g = side.resolve_mcall(fn, e, tyenv_of(fn))
                if g is not None and g.qual in doms:
                    p = e[2][1]
                    dom, own = doms[g.qual]
                    asserts = scope.get(p, [])
                    ikey = "%s:%s.%s" % (side.key(fn), p, g.name)
                    r.instance(ikey, nontrivial=bool(asserts),
                               sample={"fn": side.key(fn), "operand": p, "encoding": g.name,
                                       "asserted": [n for (_a, n) in asserts]})
                    nchecked += 1 if asserts else 0
                    for (a, pn) in asserts:
                        bad = (a != dom) if own else (not a <= dom)
                        if bad:
                            r.violation(ikey, "`%s` is asserted with %s (accepts %s) but encoded with %s (accepts %s): "
                                        "%s" % (p, pn, _fmt_set(a), g.name, _fmt_set(dom),
                                                "a register the assert admits is refused or mapped to register 31 "
                                                "under the other meaning" if not a <= dom else
                                                "register 31 is encodable here but the assert refuses it"), fn.where)
                return added
            for x in e[1:]:
                if isinstance(x, (tuple, list)):
                    visit(fn, x, scope)
            return added

        def tyenv_of(fn):
            return {n: t for (n, t) in fn.params}

        for q in sorted(side.fns):
            fn = side.fns[q]
            visit(fn, fn.body, {})
        r.floor("%s assert/encoding pairs" % side.lang, nchecked, 70)


# =============================================================================================== method model

def emitting_methods(side):
    """AssemblerArm64 methods that (transitively) reach a class encoder"""
    meths = side.methods()
    evs = {m: sym_events(f) for m, f in meths.items()}
    emits = set()
    for m, f in meths.items():
        for ev in evs[m]:
            if ev.kind == "call" and side.class_of_call(f, ev.node):
                emits.add(m)
    changed = True
    while changed:
        changed = False
        for m, f in meths.items():
            if m in emits:
                continue
            for ev in evs[m]:
                if ev.kind == "mcall" and is_e(ev.node[2]) and ev.node[2] == ("var", "self") and ev.node[1] in emits:
                    emits.add(m)
                    changed = True
                    break
                if ev.kind == "call":
                    g = side.resolve_call(f, ev.node)
                    if g is not None and _reaches_class(side, g):
                        emits.add(m)
                        changed = True
                        break
    return meths, evs, emits


def _reaches_class(side, g, depth=0):
    if depth > 3:
        return False
    for n in walk(g.body):
        if n[0] == "call":
            if side.class_of_call(g, n):
                return True
            h = side.resolve_call(g, n)
            if h is not None and h is not g and not h.qual.startswith("AssemblerArm64::") and _reaches_class(side, h, depth + 1):
                return True
    return False


def class_sites(side, fn, events):
    """class-encoder calls of a function, following thin free-function wrappers (inst::b_cond_imm → cls::…):
    [(class name, class Fn, [arg exprs in terms of fn's params], Event)]"""
    out = []
    for ev in events:
        if ev.kind != "call":
            continue
        cn = side.class_of_call(fn, ev.node)
        if cn is not None:
            out.append((cn, side.classes()[cn], ev.node[3], ev))
            continue
        g = side.resolve_call(fn, ev.node)
        if g is not None and not g.qual.startswith("AssemblerArm64::") and g.ret in ("u32", "i32"):
            inner = class_sites(side, g, sym_events(g))
            if len(inner) == 1 and len(g.params) == len(ev.node[3]):
                cn2, cf, args2, _ev2 = inner[0]
                args = [_subst_params(a, ev.node[3]) for a in args2]
                out.append((cn2, cf, args, ev))
    return out


def _subst_params(e, actuals):
    if isinstance(e, list):
        return [_subst_params(x, actuals) for x in e]
    if not isinstance(e, tuple):
        return e
    if is_e(e) and e[0] == "param":
        return actuals[e[1]] if e[1] < len(actuals) else e
    return tuple(_subst_params(x, actuals) if isinstance(x, (tuple, list)) else x for x in e)


# =============================================================================================== R3

def _div_of(e):
    """e is `P / d` (through casts) → (P expr, d); plain → (e, None)"""
    e = uncast(e)
    if is_e(e) and e[0] == "bin" and e[1] == "/" and is_e(e[3]) and e[3][0] == "int":
        return uncast(e[2]), e[3][1]
    return e, None


def _mod_asserts(events):
    """asserts `X % m == 0` → [(X expr, m)]"""
    out = []
    for ev in events:
        if ev.kind != "assert":
            continue
        for c in _conjuncts(ev.node[1]):
            mm = _mod_test(c)
            if mm is not None:
                out.append(mm)
    return out


def _conjuncts(c):
    c = ir.strip_block(c)
    if is_e(c) and c[0] == "bin" and c[1] == "&&":
        return _conjuncts(c[2]) + _conjuncts(c[3])
    return [c]


def _mod_test(c):
    c = ir.strip_block(c)
    if is_e(c) and c[0] == "bin" and c[1] == "==":
        for l, r in ((c[2], c[3]), (c[3], c[2])):
            l = uncast(l)
            if is_e(l) and l[0] == "bin" and l[1] == "%" and is_e(l[3]) and l[3][0] == "int" \
                    and is_e(r) and r[0] == "int" and r[1] == 0:
                return (uncast(l[2]), l[3][1])
    return None


def access_scale(cf, args, side):
    """ISA facts (frozen, one line each):
       * LDR/STR (immediate, unsigned offset): imm12 is the byte offset divided by the access size 1 << size
         [for the 128-bit SIMD form size=00,opc=1x the scale is 16; not emitted by these assemblers]
       * LDP/STP: imm7 is the byte offset divided by the register size: integer 4 << (opc >> 1), SIMD&FP 4 << opc
    returns (scale, index of the immediate argument) or None when the class has no scaled immediate"""
    pn = [n for (n, _t) in cf.params]
    if "size" in pn and "imm12" in pn:
        size = ceval(side, args[pn.index("size")])
        if size is None:
            return ("?", pn.index("imm12"))
        return (1 << int(size), pn.index("imm12"))
    if "opc" in pn and "imm7" in pn and "v" in pn:
        opc = ceval(side, args[pn.index("opc")])
        v = ceval(side, args[pn.index("v")])
        if opc is None or v is None:
            return ("?", pn.index("imm7"))
        return ((4 << int(opc)) if int(v) else (4 << (int(opc) >> 1)), pn.index("imm7"))
    return None


def run_r3(chk, sides):
    r = chk.rule("C08.R3", "in the ldr/str/ldp/stp immediate forms the divisor applied to the byte offset and the "
                           "alignment assert equal the access size selected by the size/opc argument of the class")
    method_scale = {}
    for side in sides:
        meths, evs, emits = emitting_methods(side)
        n = 0
        nscaled = 0
        passthru = []
        for m in sorted(meths):
            fn = meths[m]
            mods = _mod_asserts(evs[m])
            for (cn, cf, args, ev) in class_sites(side, fn, evs[m]):
                sc = access_scale(cf, args, side)
                if sc is None:
                    continue
                scale, ai = sc
                key = "%s:%s" % (side.key(fn), cn)
                n += 1
                if scale == "?":
                    r.violation(key + ":size", "the size/opc argument of %s is not a constant: the scale of the "
                                "immediate cannot be determined" % cn, fn.where)
                    continue
                base, d = _div_of(args[ai])
                ms = [mm for (x, mm) in mods if x == base]
                r.instance(key, nontrivial=(d is not None or scale == 1),
                           sample={"method": side.key(fn), "class": cn, "scale": scale, "divisor": d, "aligned": ms})
                if d is None:
                    if ms:
                        r.violation(key + ":unscaled", "offset `%s` is asserted to be a multiple of %s but passed to "
                                    "%s undivided (the field counts units of %d bytes)"
                                    % (srender(base), ms, cn, scale), fn.where)
                    elif scale != 1:
                        passthru.append(m)
                    if is_e(base) and base[0] == "param":
                        method_scale[(side.lang, m)] = (1, base[1])
                    continue
                nscaled += 1
                if is_e(base) and base[0] == "param":
                    method_scale[(side.lang, m)] = (d, base[1])
                if d != scale:
                    r.violation(key + ":divisor", "byte offset `%s` is divided by %d but %s with this size/opc "
                                "argument counts units of %d bytes: e.g. offset %d is encoded as %d instead of %d"
                                % (srender(base), d, cn, scale, d * scale, scale, d), fn.where)
                if not ms:
                    r.violation(key + ":no-alignment-assert", "byte offset `%s` is divided by %d without an "
                                "`%% %d == 0` assert: a misaligned offset is silently rounded down"
                                % (srender(base), d, d), fn.where)
                for mm in ms:
                    if mm != d:
                        r.violation(key + ":alignment", "offset `%s` is asserted to be a multiple of %d but divided "
                                    "by %d" % (srender(base), mm, d), fn.where)
        r.floor("%s scaled-immediate emission sites" % side.lang, n, 20)
        r.floor("%s sites that divide the byte offset" % side.lang, nscaled, 12)
        if passthru:
            r.observe("%s: %d methods pass their immediate to a scaled class undivided (the caller supplies the "
                      "already-scaled imm7/imm12): %s" % (side.lang, len(passthru), ", ".join(sorted(set(passthru)))))
        # memory-operand forms: the alignment tested before delegating equals the delegate's divisor
        for m in sorted(meths):
            fn = meths[m]
            for ev in evs[m]:
                if ev.kind != "mcall" or ev.node[2] != ("var", "self"):
                    continue
                tgt = method_scale.get((side.lang, ev.node[1]))
                if tgt is None:
                    continue
                d, pidx = tgt
                if pidx >= len(ev.node[3]):
                    continue
                off = uncast(ev.node[3][pidx])
                tests = []
                for g in ev.guards:
                    if len(g) == 2 and g[1] is True:
                        for c in _conjuncts(g[0]):
                            mm = _mod_test(c)
                            if mm is not None and mm[0] == off:
                                tests.append(mm[1])
                            for nd in walk(c):
                                if nd[0] == "bin" and nd[1] == "/" and uncast(nd[2]) == off and is_e(nd[3]) \
                                        and nd[3][0] == "int":
                                    tests.append(nd[3][1])
                if not tests:
                    continue
                key = "%s:%s" % (side.key(fn), ev.node[1])
                r.instance(key, sample={"method": side.key(fn), "delegate": ev.node[1], "delegate_scale": d,
                                        "tested": tests})
                for t in tests:
                    if t != d:
                        r.violation(key + ":guard-scale", "the guard tests `%s` against a scale of %d but delegates "
                                    "to %s, which divides by %d" % (srender(off), t, ev.node[1], d), fn.where)


# =============================================================================================== R4

def trace_to_class(side, fn, pidx, depth=0):
    """which (class, parameter index) receives parameter #pidx of fn unchanged"""
    out = []
    if depth > 4:
        return out
    evs = sym_events(fn)
    for ev in evs:
        if ev.kind == "call":
            cn = side.class_of_call(fn, ev.node)
            for ai, a in enumerate(ev.node[3]):
                a = uncast(a)
                if is_e(a) and a[0] == "param" and a[1] == pidx:
                    if cn is not None:
                        out.append((cn, ai))
                    else:
                        g = side.resolve_call(fn, ev.node)
                        if g is not None:
                            out += trace_to_class(side, g, ai, depth + 1)
        elif ev.kind == "mcall" and ev.node[2] == ("var", "self"):
            g = side.methods().get(ev.node[1])
            if g is None:
                continue
            for ai, a in enumerate(ev.node[3]):
                a = uncast(a)
                if is_e(a) and a[0] == "param" and a[1] == pidx:
                    out += trace_to_class(side, g, ai, depth + 1)
    return out


def _is_div4(e):
    e = uncast(e)
    return is_e(e) and e[0] == "bin" and e[1] == "/" and is_e(e[3]) and e[3] == ("int", 4)


def _is_div4_minus1(e):
    e = uncast(e)
    return is_e(e) and e[0] == "bin" and e[1] == "-" and _is_div4(e[2]) and e[3] == ("int", 1)


def _inverted(a, b):
    """b is the logical inversion of a:  a ^ 1 | !a | a.invert()"""
    a, b = uncast(a), uncast(b)
    if is_e(b) and b[0] == "bin" and b[1] == "^" and uncast(b[2]) == a and b[3] == ("int", 1):
        return True
    if is_e(b) and b[0] == "un" and b[1] == "!" and uncast(b[2]) == a:
        return True
    if is_e(b) and b[0] == "mcall" and b[1] == "invert" and uncast(b[2]) == a:
        return True
    return False


def _fits_guard(side, fn, guards):
    """innermost enclosing `if fits_iN(x)` → (N, polarity, x, predicate name), N from the predicate's own body"""
    for g in reversed(guards):
        if len(g) == 2 and is_e(g[0]) and g[0][0] == "call" and len(g[0][3]) == 1:
            p = side.resolve_call(fn, g[0])
            if p is not None and p.ret == "bool" and len(p.params) == 1:
                lo, hi = pred_range(side, p, p.params[0][0], {})
                if lo is not None and hi is not None and lo < 0 < hi:
                    nb = max(bitlen(-lo - 1), bitlen(hi - 1)) + 1
                    return (nb, g[1], uncast(g[0][3][0]), p.name)
    return None


def run_r4(chk, sides, infos):
    r = chk.rule("C08.R4", "resolve_jumps scales the byte distance by the instruction size after asserting "
                           "alignment, guards each short form with the fits_iN test of the class that encodes it, "
                           "and the long form inverts the condition, skips exactly one instruction and branches "
                           "distance-1")
    summary = {}
    for side in sides:
        fn = side.methods().get("resolve_jumps")
        if not r.anchor("%s resolve_jumps" % side.lang, fn):
            continue
        evs = sym_events(fn)
        key = side.key(fn)
        # (a) alignment assert before the division.  ISA fact (frozen): A64 instructions are 4 bytes and branch
        # immediates count instructions.
        divided = None
        for n in walk(fn.body):
            if n[0] == "let" and n[2] is not None and _is_div4(n[2]) and divided is None:
                divided = n
        r.instance(key + ":scale")
        if divided is None:
            r.violation(key + ":scale", "no `distance / 4`: A64 branch immediates count 4-byte instructions "
                        "(ISA fact)", fn.where)
        else:
            ok = False
            for ev in evs:
                if ev.kind == "assert" and ev.node[2] <= divided[3]:
                    for c in _conjuncts(ev.node[1]):
                        mm = _mod_test(c)
                        if mm is not None and mm[1] == 4:
                            ok = True
            if not ok:
                r.violation(key + ":alignment", "the distance is divided by 4 without a preceding `% 4 == 0` assert: "
                            "a misaligned label distance is silently rounded", fn.where)
        # (b) per jump kind
        kinds = {}
        for ev in evs:
            arm = [g for g in ev.guards if g[0] == "arm" and g[1][0] == "pat" and any("JumpKind::" in p for p in g[1][1])]
            if not arm:
                continue
            kind = [p for p in arm[-1][1][1] if "JumpKind::" in p][0].split("::")[-1]
            kinds.setdefault(kind, []).append(ev)
        r.floor("%s jump kinds" % side.lang, len(kinds), 5)
        meths = side.methods()
        for kind in sorted(kinds):
            emis = []        # (class, class Fn, class-arg exprs (None = not traced), fits guard, via method|None)
            for ev in kinds[kind]:
                fg = _fits_guard(side, fn, ev.guards)
                if ev.kind == "call":
                    for (cn, cf, args, _ev2) in class_sites(side, fn, [ev]):
                        emis.append((cn, cf, args, fg, None))
                elif ev.kind == "mcall" and ev.node[2] == ("var", "self") and ev.node[1] in meths:
                    g = meths[ev.node[1]]
                    for ai, a in enumerate(ev.node[3]):
                        for (cn, ci) in trace_to_class(side, g, ai):
                            cf = side.classes()[cn]
                            args = [None] * len(cf.params)
                            args[ci] = a
                            emis.append((cn, cf, args, fg, ev))
            # a class-encoder call handed to another method of the assembler (instead of being emitted directly): the
            # instruction word is post-processed by that helper (e.g. the condition bit flipped on the encoded word) —
            # outside the model "long form = class encoder re-emitted with one argument inverted"
            via_helper = None
            clsnames = set(side.classes())
            for ev in kinds[kind]:
                if ev.kind == "mcall" and ev.node[2] == ("var", "self") and ev.node[1] in meths:
                    g = meths[ev.node[1]]
                    for ai, a in enumerate(ev.node[3]):
                        carries_word = any(is_e(n_) and n_[0] == "call" and any(
                            str(n_[1]).endswith("::" + c) or str(n_[1]) == c for c in clsnames) for n_ in walk(a))
                        if not carries_word or ai >= len(g.params):
                            continue
                        pname = g.params[ai][0]
                        # a plain emitter appends the word unchanged; a helper that applies an operator to it rewrites it
                        rewrites = any(is_e(n_) and n_[0] == "bin" and n_[1] in ("^", "|", "&", "+", "-") and
                                       any(is_e(x) and x[0] == "var" and x[1] == pname for x in walk(n_))
                                       for n_ in walk(g.body))
                        if rewrites:
                            via_helper = ev.node[1]
            ksum = {"classes": sorted({e[0] for e in emis}), "guard": None, "long": False, "via_helper": via_helper}
            if via_helper:
                r.violation("ANALYSIS:%s:%s:long-form-built-by-helper:%s" % (key, kind, via_helper),
                            "jump kind %s hands an encoded instruction word to `%s`, which may rewrite it (flip the "
                            "condition bit, append the far branch): the rule's model of the long form — the class "
                            "encoder re-emitted with exactly one argument inverted, followed by an unconditional "
                            "branch — does not cover this; nothing is decided about the polarity of the long form"
                            % (kind, via_helper), fn.where)
                k_, m_, w_ = r.violations[-1]
                if not k_.startswith("ANALYSIS:"):
                    r.violations[-1] = ("ANALYSIS:" + k_.replace(":ANALYSIS:", ":", 1), m_, w_)
            for (cn, cf, args, fg, _via) in emis:
                info = infos.get((side.lang, cn))
                if info is None:
                    continue
                for ci, a in enumerate(args):
                    if a is None:
                        continue
                    at = info.atoms[cf.params[ci][0]]
                    if at.signed is None:
                        continue
                    ikey = "%s:%s:%s" % (key, kind, cn)
                    lit = ceval(side, a)
                    if cn == "pcrel":
                        # ISA fact (frozen): ADR takes a byte offset, not an instruction count
                        r.instance(ikey, sample={"kind": kind, "class": cn, "bytes": not _is_div4(a)})
                        if _is_div4(a):
                            r.violation(ikey + ":adr-scaled", "ADR receives the distance divided by 4; its "
                                        "immediate is a byte offset", fn.where)
                        continue
                    if fg is not None and fg[1] is False:
                        # long form: `b.inv +2 ; b distance-1`
                        ksum["long"] = True
                        if lit is not None:
                            r.instance(ikey + ":skip", sample={"kind": kind, "class": cn, "skip": int(lit)})
                            if int(lit) != 2:
                                r.violation(ikey + ":skip", "the long form of %s skips %d instructions; exactly one "
                                            "(the unconditional branch that follows) must be skipped: 2"
                                            % (kind, int(lit)), fn.where)
                        else:
                            r.instance(ikey + ":far", sample={"kind": kind, "class": cn, "arg": srender(a)})
                            if not _is_div4_minus1(a):
                                r.violation(ikey + ":far", "the long form of %s branches to `%s`; the branch sits one "
                                            "instruction after the jump site, so it must be distance - 1"
                                            % (kind, srender(a)), fn.where)
                        continue
                    if lit is not None:
                        r.violation(ikey + ":constant", "%s is emitted with the constant distance %d outside the "
                                    "else-branch of a fits_iN test" % (cn, int(lit)), fn.where)
                        continue
                    r.instance(ikey, sample={"kind": kind, "class": cn, "field": at.signed,
                                             "guard": fg[0] if fg else None})
                    if not _is_div4(a):
                        r.violation(ikey + ":unscaled", "%s receives `%s`, which is not the distance divided by 4"
                                    % (cn, srender(a)), fn.where)
                    if fg is not None:
                        nb, _pol, subj, pn_ = fg
                        ksum["guard"] = nb
                        if subj != uncast(a):
                            r.violation(ikey + ":guard-subject", "%s tests `%s` but `%s` is encoded"
                                        % (pn_, srender(subj), srender(a)), fn.where)
                        if nb > at.signed:
                            r.violation(ikey + ":guard-width", "the short form is chosen when %s holds (%d-bit "
                                        "signed) but %s encodes a %d-bit field: distances in between are refused or "
                                        "truncated instead of taking the long form" % (pn_, nb, cn, at.signed), fn.where)
                        elif nb < at.signed:
                            r.observe("%s %s: guard %s is %d-bit, field of %s is %d-bit (long form taken early)"
                                      % (side.lang, kind, pn_, nb, cn, at.signed))
            # inversion: the long form re-emits the class of the short form with exactly one argument inverted
            byclass = {}
            for (cn, cf, args, fg, via) in emis:
                if fg is not None and via is None and all(a is not None for a in args):
                    byclass.setdefault(cn, []).append((args, fg[1]))
            for cn, lst in sorted(byclass.items()):
                shorts = [x[0] for x in lst if x[1] is True]
                longs = [x[0] for x in lst if x[1] is False]
                for sa in shorts:
                    for la in longs:
                        if ceval(side, la[[i for i, (n_, _t) in enumerate(side.classes()[cn].params)
                                           if infos[(side.lang, cn)].atoms[n_].signed is not None][0]]) is None:
                            continue                     # the far branch, not the inverted re-emission
                        inv = [i for i in range(len(sa)) if _inverted(sa[i], la[i])]
                        ikey = "%s:%s:%s:inversion" % (key, kind, cn)
                        r.instance(ikey, sample={"kind": kind, "class": cn,
                                                 "inverted_arg": [side.classes()[cn].params[i][0] for i in inv]})
                        if len(inv) != 1 and not via_helper:
                            r.violation(ikey, "the long form of %s does not invert exactly one argument of %s "
                                        "(short: %s; long: %s)" % (kind, cn, ", ".join(srender(x) for x in sa),
                                                                   ", ".join(srender(x) for x in la)), fn.where)
            # the same through a method (Dora: bc_imm(cond, distance) / bc_imm(cond.invert(), 2))
            bym = {}
            for ev in kinds[kind]:
                fg = _fits_guard(side, fn, ev.guards)
                if ev.kind == "mcall" and ev.node[2] == ("var", "self") and fg is not None \
                        and ev.node[1] in meths and trace_to_class(side, meths[ev.node[1]], len(ev.node[3]) - 1):
                    bym.setdefault(ev.node[1], []).append((ev.node[3], fg[1]))
            for mname, lst in sorted(bym.items()):
                shorts = [x[0] for x in lst if x[1] is True]
                longs = [x[0] for x in lst if x[1] is False and any(ceval(side, a) is not None for a in x[0])]
                for sa in shorts:
                    for la in longs:
                        inv = [i for i in range(min(len(sa), len(la))) if _inverted(sa[i], la[i])]
                        ikey = "%s:%s:%s:inversion" % (key, kind, mname)
                        r.instance(ikey, sample={"kind": kind, "method": mname, "inverted_arg": inv})
                        if len(inv) != 1:
                            r.violation(ikey, "the long form of %s re-emits %s without inverting exactly one argument "
                                        "(short: %s; long: %s)" % (kind, mname, ", ".join(srender(x) for x in sa),
                                                                   ", ".join(srender(x) for x in la)), fn.where)
            if ksum["long"]:
                r.instance("%s:%s:long-form" % (key, kind))
            summary[(side.lang, kind)] = ksum
    # sibling comparison
    rk = {k for (l, k) in summary if l == "rust"}
    dk = {k for (l, k) in summary if l == "dora"}
    for k in sorted(rk & dk):
        a, b = summary[("rust", k)], summary[("dora", k)]
        r.instance("sibling:%s" % k, sample={"kind": k, "rust": a, "dora": b})
        if a["classes"] != b["classes"] and (a.get("via_helper") or b.get("via_helper")):
            r.observe("jump kind %s: class sets differ (%s vs %s) but one side builds its long form through a helper "
                      "(reported as an analysis failure above)" % (k, a["classes"], b["classes"]))
        elif a["classes"] != b["classes"]:
            if a["long"] != b["long"] and (set(a["classes"]) <= set(b["classes"]) or set(b["classes"]) <= set(a["classes"])):
                r.observe("jump kind %s: only %s has a long form (rust classes %s, dora classes %s); the other side "
                          "refuses an out-of-range distance by the class assert"
                          % (k, "Dora" if b["long"] else "Rust", a["classes"], b["classes"]))
            else:
                r.violation("resolve_jumps:%s:sibling-class" % k, "jump kind %s is re-emitted through %s in Rust but "
                            "%s in Dora" % (k, a["classes"], b["classes"]), None)
        if a["guard"] is not None and b["guard"] is not None and a["guard"] != b["guard"]:
            r.violation("resolve_jumps:%s:sibling-guard" % k, "jump kind %s: the short form is guarded by a %d-bit "
                        "test in Rust but a %d-bit test in Dora" % (k, a["guard"], b["guard"]), None)
    for k in sorted(rk ^ dk):
        r.observe("jump kind %s exists on one side only" % k)
    r.floor("jump kinds compared between the siblings", len(rk & dk), 5)
    r.floor("resolve_jumps checks evaluated", len(r.nontrivial), 30)


# =============================================================================================== R5

def arg_summary(side, e):
    """comparable summary of a class/method argument: ('c', int) | ('p', 'Enum::V') | ('v', param idxs, encodings)"""
    c = ceval(side, e)
    if c is not None:
        return ("c", int(c))
    u = uncast(e)
    if is_e(u) and u[0] == "path":
        return ("p", ir.pname(u[1]))
    if is_e(u) and u[0] == "var" and u[1] in side.globals:
        return ("p", u[1])
    encs = sorted({n[1] for n in walk(e) if n[0] == "mcall" and n[1].startswith("encoding")})
    # `if amount == 0 {0} else {assert amount == 3; 1}`: the admitted values are part of the flow
    consts = sorted({n[1] for n in walk(e) if n[0] == "int"})
    return ("v", tuple(params_in(e)), tuple(encs), tuple(consts) if is_e(u) and u[0] == "if" else ())


# ISA fact (frozen): in the 32-bit ADD/SUB (extended register) form option=UXTX and option=UXTW both take Wm
# unchanged (ExtendReg truncates to the 32-bit datasize), so the two assemblers may differ in that constant.
_EQUIV_32BIT_EXTEND = {frozenset(["Extend::UXTX", "Extend::UXTW"])}


def run_r5(chk, sides, infos):
    r = chk.rule("C08.R5", "the Rust and the Dora assembler agree: per class encoder the same field positions, "
                           "widths and constant bits; per public method the same class, constants and "
                           "parameter-to-argument flow")
    rust, dora = sides
    rc, dc = rust.classes(), dora.classes()
    shared = sorted(set(rc) & set(dc))
    r.floor("class encoders present in both", len(shared), 32)
    for only, names in (("Rust", sorted(set(rc) - set(dc))), ("Dora", sorted(set(dc) - set(rc)))):
        if names:
            r.observe("class encoders on the %s side only: %s" % (only, ", ".join(names)))
    nfields = 0
    for cn in shared:
        a, b = infos.get(("rust", cn)), infos.get(("dora", cn))
        if a is None or b is None or not a.analysed or not b.analysed:
            r.observe("unanalysed: class %s" % cn)
            continue
        key = "cls::%s" % cn
        if len(a.fn.params) != len(b.fn.params):
            r.violation(key + ":arity", "class encoder %s has %d parameters in Rust and %d in Dora"
                        % (cn, len(a.fn.params), len(b.fn.params)), a.fn.where)
            continue
        r.instance(key + ":constant", sample={"class": cn, "rust": hex(a.const), "dora": hex(b.const)})
        if a.const != b.const:
            r.violation(key + ":constant", "constant bits of %s differ: Rust %s, Dora %s (differing bits %s)"
                        % (cn, hex(a.const), hex(b.const), hex(a.const ^ b.const)), a.fn.where)
        fa, fb = build_fields(a), build_fields(b)
        for ok in sorted(set(fa) | set(fb), key=str):
            nm = "/".join(a.fn.params[i][0] for i in ok[0]) + ("" if not ok[1] or ok[1] == (0,) else "[%s]" % ",".join(map(str, ok[1])))
            ikey = "%s:%s" % (key, nm or "?")
            if ok not in fa or ok not in fb:
                # a parameter placed on one side only (e.g. `v` of ldst_pair dropped on both sides is fine)
                r.instance(ikey)
                r.violation(ikey + ":one-sided", "field `%s` of %s is placed in the word by %s only"
                            % (nm, cn, "Rust" if ok in fa else "Dora"), a.fn.where)
                continue
            nfields += 1
            (la, wa), (lb, wb) = fa[ok], fb[ok]
            r.instance(ikey, sample={"class": cn, "field": nm, "rust": [la, wa], "dora": [lb, wb]})
            if la != lb:
                r.violation(ikey + ":shift", "field `%s` of %s sits at bit %s in Rust but bit %s in Dora"
                            % (nm, cn, la, lb), a.fn.where)
            elif wa is not None and wb is not None and wa != wb:
                r.violation(ikey + ":width", "field `%s` of %s is %s bits wide in Rust but %s in Dora"
                            % (nm, cn, wa, wb), a.fn.where)
    r.floor("fields compared", nfields, 190)

    # ---- public methods
    rm, revs, remits = emitting_methods(rust)
    dm, devs, demits = emitting_methods(dora)
    rpub = {m for m in rm if rm[m].pub}
    r.floor("Rust public methods", len(rpub), 295)
    r.floor("Rust instruction methods (reach a class encoder)", len(remits), 280)
    both = sorted(remits & demits)
    r.floor("instruction methods present in both", len(both), 250)
    for only, names in (("Rust", sorted(remits - set(dm))), ("Dora", sorted(demits - set(rm)))):
        if names:
            r.observe("%d instruction methods on the %s side only: %s" % (len(names), only, ", ".join(names)))

    def deep_sites(side, meths, evs, emits, m, depth=0, stack=()):
        """class-level emissions of a method with delegations to sibling methods expanded (arguments expressed in
        the outer method's parameters)"""
        fn = meths[m]
        out = []
        cs = {id(ev): (cn, cf, args) for (cn, cf, args, ev) in class_sites(side, fn, evs[m])}
        for ev in evs[m]:
            if id(ev) in cs:
                cn, cf, args = cs[id(ev)]
                out.append(("cls:" + cn, list(args)))
            elif ev.kind == "mcall" and ev.node[2] == ("var", "self") and ev.node[1] in emits:
                m2 = ev.node[1]
                if depth < 4 and m2 not in stack and m2 != m and len(meths[m2].params) == len(ev.node[3]):
                    for (callee, args2) in deep_sites(side, meths, evs, emits, m2, depth + 1, stack + (m,)):
                        out.append((callee, [_subst_params(a, ev.node[3]) for a in args2]))
                else:
                    out.append(("self." + m2, list(ev.node[3])))
        return out

    ncmp = 0
    scale_diff = []
    unanalysed = []
    for m in both:
        key = "AssemblerArm64::%s" % m
        if len(rm[m].params) != len(dm[m].params):
            r.instance(key, nontrivial=False)
            r.observe("signature differs, not compared: %s(%s) in Rust, %s(%s) in Dora"
                      % (m, ", ".join(n for n, _t in rm[m].params), m, ", ".join(n for n, _t in dm[m].params)))
            continue
        sa = deep_sites(rust, rm, revs, remits, m)
        sb = deep_sites(dora, dm, devs, demits, m)
        if len(sa) != len(sb):
            r.instance(key, nontrivial=False)
            unanalysed.append("%s (rust: %s; dora: %s)" % (m, " ".join(x[0] for x in sa) or "-",
                                                           " ".join(x[0] for x in sb) or "-"))
            continue
        ncmp += 1
        for idx, ((ca_, aa), (cb_, ab)) in enumerate(zip(sa, sb)):
            ikey = "%s:%s" % (key, ca_) + ("#%d" % idx if idx else "")
            r.instance(ikey, sample={"method": m, "callee": ca_, "rust": [srender(x) for x in aa],
                                     "dora": [srender(x) for x in ab]})
            if ca_ != cb_:
                r.violation(ikey + ":callee", "emission #%d of %s goes through %s in Rust but %s in Dora"
                            % (idx, m, ca_, cb_), rm[m].where)
                continue
            if len(aa) != len(ab):
                r.violation(ikey + ":arity", "%s passes %d arguments to %s in Rust and %d in Dora"
                            % (m, len(aa), ca_, len(ab)), rm[m].where)
                continue
            pnames = ["#%d" % i for i in range(len(aa))]
            if ca_.startswith("cls:"):
                pnames = [n for (n, _t) in rust.classes()[ca_[4:]].params]
            for i, (x, y) in enumerate(zip(aa, ab)):
                sx, sy = arg_summary(rust, x), arg_summary(dora, y)
                if sx == sy:
                    continue
                if sx[0] == "p" and sy[0] == "p" and frozenset([sx[1], sy[1]]) in _EQUIV_32BIT_EXTEND \
                        and ca_ == "cls:addsub_extreg" and pnames[i] == "option" and "sf" in pnames \
                        and ceval(rust, aa[pnames.index("sf")]) == 0 and ceval(dora, ab[pnames.index("sf")]) == 0:
                    r.observe("%s: Rust passes %s, Dora %s as `option` of the 32-bit addsub_extreg — different "
                              "option bits, same operation (ExtendReg truncates to 32 bits)" % (m, sx[1], sy[1]))
                    continue
                r.violation("%s:%s" % (ikey, pnames[i]), "%s passes `%s` for `%s` of %s in Rust but `%s` in Dora "
                            "(%s vs %s): the same call assembles to different instructions"
                            % (m, srender(x), pnames[i], ca_, srender(y), sx, sy), rm[m].where)
            # scaling differences are API conventions (bytes vs. pre-scaled): recorded, not failed
            for i, (x, y) in enumerate(zip(aa, ab)):
                dx, dy = _div_of(x)[1], _div_of(y)[1]
                if dx != dy:
                    scale_diff.append("%s(%s: rust /%s, dora /%s)" % (m, ca_, dx, dy))
    r.floor("methods compared", ncmp, 240)
    if scale_diff:
        r.observe("methods whose immediate parameter is in bytes on one side and pre-scaled on the other (same name, "
                  "different contract): " + ", ".join(scale_diff))
    for sd in unanalysed:
        r.observe("unanalysed: different number of emissions, not compared: " + sd)


# =============================================================================================== entry

def run(chk, F):
    rust, dora = make_sides(F)
    r0 = chk.rule("C08.R0", "both assemblers are present and were translated")
    ok = r0.anchor("dora_asm::arm64 functions", len(rust.fns) > 300)
    ok = r0.anchor(DORA_FILE, dora is not None and len(dora.fns) > 300) and ok
    r0.instance("rust", sample={"functions": len(rust.fns)})
    r0.instance("dora", sample={"functions": len(dora.fns) if dora else 0})
    if not ok:
        return
    sides = [rust, dora]
    infos = run_r1(chk, sides)
    run_r2(chk, sides)
    run_r3(chk, sides)
    run_r4(chk, sides, infos)
    run_r5(chk, sides, infos)
    # guarded narrowing casts of operand values (coordinator's rule, rules/narrowcast.py)
    from rules import narrowcast
    narrowcast.run(chk, F, "C08.R6", "dora_asm::arm64", "arm64 assembler (Rust)")
    chk.assumptions += [
        "field *positions* are compared between the two assemblers and against overlap, not against the ARM ARM: a "
        "field moved to another free range in both languages at once is not detected (the unit tests pin positions)",
        "the host build only: dora-runtime/src/masm/arm64.rs is cfg(target_arch=aarch64) and not in the facts",
        "R3 freezes two ISA facts (scale of LDR/STR unsigned offset = access size; scale of LDP/STP imm7 = register "
        "size) and R4 one (branch immediates count 4-byte instructions, ADR counts bytes)",
    ]
